"""C02 — whatever the library emits in strict mode is valid STIX.

Decides structural necessary conditions: the declarative property tables and
the constraint methods state the specification (comparison with the frozen
model), and the generic machinery that applies them has the required shape
(validation pipeline, cleaner contracts, identifier rule, anchored value
regexes, hash table, TLP constants).  Does NOT decide that every cleaner
computes a correct value for every input.
"""
import ast

from .. import regexast
from ..astutil import (
    body_raises, call_simple_name, conjuncts, const_str, dotted, exc_name, guard_chain, if_raising, names_in, pm, pmall, returns_of, short,
)
from ..cfg import ReachingDefs, call_name, cfg_of, calls_at, node_calls, own_exprs
from ..constraints import fact_satisfied, summarize
from ..dectable import IntSet, int_cond
from ..loader import AnalysisError, ClassInfo, FunctionInfo, body_walk, clone, norm, walk_no_nested
from ..report import key
from ..tablecmp import compare_model, compare_tables, count_slots
from ..tableeval import ClassRef, EnumMember, Evaluator, Regex, to_json
from ..typemodel import get_model, version_of_module

PROP = "C02"


def run(ctx):
    run = ctx.run
    prog = ctx.prog
    run.explanation = (
        "Static comparison of all property tables (every slot: kind/required/fixed/default/range/vocabulary/reference types/"
        "spec_version/contained class/precision) and all _check_object_constraints summaries with the frozen specification "
        "model; must-pass-through checks of the validation pipeline in _STIXBase.__init__ and of the super() chain; guard "
        "tables of the cleaners; identifier rule; end-anchoring, alphabets and digest lengths of the value regexes (parsed "
        "with re._parser); TLP constants. Decides these structural clauses, not the value computed by each cleaner."
    )
    run.trusted_base = ["CPython ast / re._parser", "spec/stix20.json, spec/stix21.json, spec/constraints.json, spec/hashes.json, "
                        "spec/tlp.json (reviewed transcription; pinned tree is the reference where the specification text was "
                        "not available offline)"]
    run.assumptions = ["property tables are literal class attributes (non-literal tables give ANALYSIS-ERROR)",
                       "python argument-binding and MRO semantics as encoded in sa/"]
    ctx.do(rule_table)
    ctx.do(rule_constraints)
    ctx.do(rule_super_chain)
    ctx.do(rule_init_pipeline)
    ctx.do(rule_init_loops)
    ctx.do(rule_clean_contract)
    ctx.do(rule_id_rule)
    ctx.do(rule_regexes)
    ctx.do(rule_tlp)
    # co-constraints (mutual exclusion, dependencies) are decided on PRESENCE: counting by truthiness lets a falsy-but-kept value
    # (payload_bin='', lang='') through next to its exclusive partner, and both are emitted
    from .C03 import rule_presence_by_membership
    ctx.do(rule_presence_by_membership, rule_id="C02.constraints")
    ctx.do(rule_definition_of_named_type)
    ctx.do(rule_integer_tests_exclude_bool)
    ctx.do(rule_ignorecase_is_ascii)
    ctx.do(rule_floats_finite)
    ctx.do(rule_uuid_compared_in_canonical_form)
    ctx.do(rule_constraint_presence_tests)
    ctx.do(rule_helpers_examine_every_pair)
    from .pitfalls import rule_base64_validated_strictly
    ctx.do(rule_base64_validated_strictly, "C02.binary-values", ("stix2.properties",))
    # "an unknown property is rejected, never emitted": the refusal of custom content inside embedded values (C04's clauses on
    # the container cleaners and on the keys that switch the refusal off) is a necessary condition of strict-mode validity
    from . import C04 as _C04
    ctx.do_as(_C04.rule_flag_back, {"C04.flag-back": "C02.strict-refusal"})
    ctx.do_as(_C04.rule_privileged_keys, {"C04.privileged-keys": "C02.strict-refusal"})
    # ... and a name is looked up in the registry of ITS kind: an extensions key answered from the object / observable /
    # marking registries ('mutex', 'statement') is validated as that type and emitted as an extension
    from . import C19 as _C19
    ctx.do_as(_C19.rule_lookups_name_their_category, {"C19.version-scope": "C02.strict-refusal"})
    # ... and so is the validation of granular-marking selectors against the content (C08's clauses)
    from . import C08 as _C08
    ctx.do(_C08.rule_syntax_agreement, rule_id="C02.selectors")
    # timestamps are emitted with the digits their slot prescribes only if every value went through the truncation pipeline
    from . import C15
    ctx.do(C15.rule_truncate, rule_id="C02.timestamp-pipeline")
    ctx.do(C15.rule_property_forward, rule_id="C02.timestamp-pipeline")
    from .hidden_state import rule_no_hidden_state
    ctx.do(rule_no_hidden_state, "C02.history-independence")
    from .pitfalls import rule_loops_not_cut_short
    ctx.do(rule_loops_not_cut_short, "C02.loops-complete")
    from .pitfalls import rule_definite_assignment
    ctx.do(rule_definite_assignment, "C02.definite-assignment")


# ---------------------------------------------------------------------------
def table_diffs(ctx):
    prog = ctx.prog
    tm = get_model(prog)
    s20, s21 = ctx.spec("stix20.json"), ctx.spec("stix21.json")
    diffs = compare_model(tm, s20, s21)
    dec = ctx.spec("decorators.json")
    for (v, name), rec in sorted(tm.decorators.items()):
        k = "%s/%s" % (v, name)
        if k not in dec:
            raise AnalysisError("decorator %s not in spec/decorators.json" % k)
        if (dec[k]["slots"] is None) != (rec["slots"] is None):
            raise AnalysisError("decorator %s: table presence changed" % k)
        if rec["slots"] is not None:
            compare_tables(v, name, dec[k]["slots"], rec["slots"], diffs, rec["file"], rec["line"])
    return tm, diffs, s20, s21, dec


def slot_construct(tm, d):
    rec = tm.classes.get((d.version, d.cls))
    f = rec["file"] if rec else (d.file or "?")
    return key(f, d.cls, "%s.%s" % (d.slot, d.attr))


def rule_table(ctx):
    run = ctx.run
    tm, diffs, s20, s21, dec = table_diffs(ctx)
    n_slots = 0
    bad = {}
    for d in diffs:
        if d.attr == "order":
            continue       # C01.spec-order
        if d.direction in ("permissive", "other"):
            bad.setdefault((d.version, d.cls, d.slot), []).append(d)
    recs = [((v, n), r["slots"], r["file"], r["line"]) for (v, n), r in sorted(tm.classes.items())]
    recs += [((v, n), r["slots"] or [], r["file"], r["line"]) for (v, n), r in sorted(tm.decorators.items())]
    for (v, cname), slots, f, line in recs:
        for sname, spec in slots:
            n_slots += 1
            ds = bad.pop((v, cname, sname), None)
            if not ds:
                run.ok("C02.table", key(f, cname, sname))
                continue
            for d in ds:
                run.violation("C02.table", key(f, cname, "%s.%s" % (d.slot, d.attr)),
                              "%s/%s.%s: %s differs from the specification model (%s)" % (v, cname, sname, d.attr, d.direction),
                              file=f, line=line, function=cname, expected=d.expected, found=d.found)
    for (v, cname, sname), ds in sorted(bad.items()):
        for d in ds:
            run.violation("C02.table", key(d.file or "?", cname, "%s.%s" % (d.slot, d.attr)),
                          "%s/%s.%s: %s (%s)" % (v, cname, sname, d.attr, d.direction), file=d.file, line=d.line,
                          function=cname, expected=d.expected, found=d.found)
    want = count_slots(s20) + count_slots(s21)
    run.extra["classes"] = len(tm.classes)
    run.extra["slots"] = n_slots
    run.floor("C02.table", min(want, 1300))
    for (v, n), r in tm.classes.items():
        run.anchor("%s/%s._properties" % (v, n), "%s:%s" % (r["file"], r["line"]))


# ---------------------------------------------------------------------------
def constraint_methods(prog):
    out = {}
    for fi in prog.functions.values():
        if fi.name == "_check_object_constraints" and fi.cls is not None and fi.cls.parent_func is None:
            v = version_of_module(fi.module.name) or "base"
            out["%s/%s" % (v, fi.cls.name)] = fi
    return out


def rule_constraints(ctx):
    run = ctx.run
    prog = ctx.prog
    oracle = ctx.spec("constraints.json")
    methods = constraint_methods(prog)
    for k in sorted(set(oracle) | set(methods)):
        if k not in methods:
            # method removed: every fact is missing
            v, cname = k.split("/")
            for fact in oracle[k]:
                if fact.endswith("super()._check_object_constraints()"):
                    continue
                run.violation("C02.constraints", key("?", cname, fact), "constraint method %s removed; missing: %s" % (k, fact),
                              function=cname, expected=fact, found="method absent")
            continue
        fi = methods[k]
        facts, _ = summarize(fi.node)
        if k not in oracle:
            for fact in sorted(facts):
                run.info("C02.constraints", key(fi.module.relpath, fi.qualname, fact), "constraint not in the model (stricter than model?)")
            continue
        for fact in oracle[k]:
            if fact.endswith("super()._check_object_constraints()"):
                continue    # C02.super-chain
            if fact_satisfied(fact, facts):
                run.ok("C02.constraints", key(fi.module.relpath, fi.qualname, fact))
            else:
                run.violation("C02.constraints", key(fi.module.relpath, fi.qualname, fact),
                              "inter-property constraint of the specification model is not enforced (in recognisable form)",
                              file=fi.module.relpath, line=fi.node.lineno, function=fi.qualname, expected=fact,
                              found=sorted(facts))
        for fact in sorted(facts - set(oracle[k])):
            run.info("C02.constraints", key(fi.module.relpath, fi.qualname, fact), "additional constraint (not in model)")
    run.floor("C02.constraints", 60)


# ---------------------------------------------------------------------------
def is_super_call(c, name):
    f = c.func
    return (isinstance(f, ast.Attribute) and f.attr == name and isinstance(f.value, ast.Call)
            and isinstance(f.value.func, ast.Name) and f.value.func.id == "super")


def rule_super_chain(ctx):
    run = ctx.run
    prog = ctx.prog
    base = prog.cls("stix2.base::_STIXBase")
    root = base.methods.get("_check_object_constraints")
    if root is None:
        raise AnalysisError("anchor missing: _STIXBase._check_object_constraints")
    run.anchor(root.id, root.where)
    n = 0
    for fi in prog.functions.values():
        if fi.name != "_check_object_constraints" or fi.cls is None or fi is root:
            continue
        if base not in fi.cls.mro:
            continue
        n += 1
        g = cfg_of(fi)
        ok, path = g.must_pass(lambda nd: node_calls(nd, lambda c: is_super_call(c, "_check_object_constraints")))
        c = key(fi.module.relpath, fi.qualname, "super()._check_object_constraints()")
        if ok:
            run.ok("C02.super-chain", c, file=fi.module.relpath, line=fi.node.lineno)
        else:
            run.violation("C02.super-chain", c,
                          "override does not reach the base validation (granular-marking selectors, inherited constraints) "
                          "on every normal path", file=fi.module.relpath, line=fi.node.lineno, function=fi.qualname,
                          expected="every path to a normal exit passes super()._check_object_constraints()",
                          found="path without it", path=g.describe_path(path))
    run.floor("C02.super-chain", 30)


# ---------------------------------------------------------------------------
def _raises(n, name):
    return n.kind == "stmt" and isinstance(n.ast, ast.Raise) and exc_name(n.ast) == name


def rule_init_pipeline(ctx):
    run = ctx.run
    prog = ctx.prog
    fi = prog.func("stix2.base::_STIXBase.__init__")
    run.anchor(fi.id, fi.where)
    g = cfg_of(fi)
    rel = fi.module.relpath
    dom = g.dominators()

    def find(pred, what):
        ns = [n for n in g.nodes if pred(n)]
        return ns

    def stage(name, nodes, expected):
        c = key(rel, fi.qualname, name)
        if not nodes:
            run.violation("C02.init-pipeline", c, "stage missing from the validation pipeline", file=rel,
                          line=fi.node.lineno, function=fi.qualname, expected=expected, found="absent")
            return None
        ok, path = g.must_pass(lambda n: n in nodes)
        if not ok:
            run.violation("C02.init-pipeline", c, "a normal path through __init__ skips this stage", file=rel,
                          line=nodes[0].lineno, function=fi.qualname, expected=expected, found="bypass",
                          path=g.describe_path(path))
            return None
        run.ok("C02.init-pipeline", c, file=rel, line=nodes[0].lineno)
        return nodes

    # (a) extra-property refusal: test node with conjunct `not allow_custom`, true branch raises ExtraPropertiesError
    def is_extra_test(n):
        if n.kind != "test" or not isinstance(n.ast, ast.If):
            return False
        cj = conjuncts(n.ast.test)
        neg_ac = any(isinstance(x, ast.UnaryOp) and isinstance(x.op, ast.Not) and isinstance(x.operand, ast.Name)
                     and x.operand.id == "allow_custom" for x in cj)
        others = [x for x in cj if not (isinstance(x, ast.UnaryOp) and isinstance(x.op, ast.Not))]
        rs = [r for r in body_raises(n.ast.body) if exc_name(r) == "ExtraPropertiesError"]
        direct = any(isinstance(s, ast.Raise) and exc_name(s) == "ExtraPropertiesError" for s in n.ast.body)
        return neg_ac and len(cj) == 2 and len(others) == 1 and isinstance(others[0], ast.Name) and direct and bool(rs)
    a = stage("extra-properties-refused", find(is_extra_test, "extra"),
              "if <custom kwargs> and not allow_custom: raise ExtraPropertiesError")
    # the tested set must be kwargs - _properties - registered toplevel extension props
    if a:
        tn = [x for x in conjuncts(a[0].ast.test) if isinstance(x, ast.Name)][0].id
        rd = ReachingDefs(g, fi.all_param_names())
        defs = rd.reaching(a[0], tn)
        good = True
        found = []
        for dn, val in defs:
            found.append(short(val) if isinstance(val, ast.AST) else str(val))
            if isinstance(val, ast.Call) and call_simple_name(val) == "set" and not val.args:
                # "must assume all extras are extension properties": only under has_unregistered_toplevel_extension
                gc = guard_chain(dn.ast)
                if not any("unregistered" in norm(t) for t, pol, _ in gc if pol):
                    good = False
                continue
            txt = norm(val) if isinstance(val, ast.AST) else ""
            if not (isinstance(val, ast.BinOp) and "kwargs.keys()" in txt and "self._properties.keys()" in txt
                    and all(isinstance(x.op, ast.Sub) for x in ast.walk(val) if isinstance(x, ast.BinOp))):
                good = False
        c = key(rel, fi.qualname, "custom-kwargs-definition")
        run.check(good and bool(defs), "C02.init-pipeline", c,
                  "the refused set is not `kwargs - spec properties - registered toplevel-extension properties`", file=rel,
                  line=a[0].lineno, function=fi.qualname,
                  expected="kwargs.keys() - self._properties.keys() - <registered toplevel extension props>", found=found)

    # (b) loop calling _check_property for every defined property
    def is_check_loop(n):
        # the loop header whose body contains the _check_property call (a loop body is never must-pass: zero iterations)
        return n.kind == "for" and any(isinstance(c, ast.Call) and call_name(c) == "_check_property"
                                       for s in n.ast.body for c in walk_no_nested(s))
    b = stage("check-property-loop", find(is_check_loop, "loop"), "for every property: self._check_property(...)")
    if b:
        loop = b[0].ast
        call_nodes = [n for n in g.nodes if n.kind == "stmt" and node_calls(n, lambda c: call_name(c) == "_check_property")
                      and loop in list(_parents(n.ast))]
        b_call = call_nodes
        # the loop must range over something containing self._properties
        it_names = names_in(loop.iter)
        src_ok = False
        rd = ReachingDefs(g, fi.all_param_names())
        ln = g.node_of(loop)
        for nm in it_names:
            for dn, val in rd.reaching(ln, nm):
                if isinstance(val, ast.AST) and "self._properties" in norm(val):
                    src_ok = True
        if "self._properties" in norm(loop.iter):
            src_ok = True
        if not src_ok:
            # any iterable built from the table (a ChainMap / chain / union that includes self._properties) covers it
            from ..forward import flow_of as _flow_of
            src_ok = "_properties" in _flow_of(fi).prov(loop.iter, ln).selfattrs
        run.check(src_ok, "C02.init-pipeline", key(rel, fi.qualname, "loop-covers-all-spec-properties"),
                  "the cleaning loop does not range over self._properties", file=rel, line=loop.lineno,
                  function=fi.qualname, expected="iteration over (a chain including) self._properties", found=short(loop.iter))
        # the guard around the call may only test that the property is defined
        call_stmt = b_call[0].ast
        gc = [(t, pol) for t, pol, _ in guard_chain(call_stmt, stop=loop)]
        guard_ok = all(pol and isinstance(t, ast.Name) for t, pol in gc) and len(gc) <= 1
        run.check(guard_ok, "C02.init-pipeline", key(rel, fi.qualname, "check-property-unconditional"),
                  "the _check_property call is guarded by more than `if prop:`", file=rel, line=call_stmt.lineno,
                  function=fi.qualname, expected="at most `if prop:`", found=[short(t) for t, _ in gc])

    # (c) missing required
    def is_missing_test(n):
        return n.kind == "test" and isinstance(n.ast, ast.If) and any(
            isinstance(s, ast.Raise) and exc_name(s) == "MissingPropertiesError" for s in n.ast.body) \
            and isinstance(n.ast.test, ast.Name)
    c_ = stage("missing-required-refused", find(is_missing_test, "missing"),
               "if <required - assigned>: raise MissingPropertiesError")
    if c_:
        tn = c_[0].ast.test.id
        rd = ReachingDefs(g, fi.all_param_names())
        defs = rd.reaching(c_[0], tn)
        ok = bool(defs)
        found = []
        for dn, val in defs:
            found.append(short(val) if isinstance(val, ast.AST) else str(val))
            if not (isinstance(val, ast.BinOp) and isinstance(val.op, ast.Sub)):
                ok = False
                continue
            lnames = names_in(val.left)
            # left operand must derive from get_required_properties(defined_properties)
            okl = False
            for nm in lnames:
                for dn2, v2 in rd.reaching(dn, nm):
                    if isinstance(v2, ast.AST) and "get_required_properties" in norm(v2):
                        okl = True
            if not okl:
                ok = False
        run.check(ok, "C02.init-pipeline", key(rel, fi.qualname, "missing-required-definition"),
                  "missing set is not `required(defined properties) - assigned`", file=rel, line=c_[0].lineno,
                  function=fi.qualname, expected="set(get_required_properties(defined_properties)) - setting_kwargs.keys()",
                  found=found)

    # (d) _inner assignment, (e) object constraints
    def is_inner(n):
        return n.kind == "stmt" and isinstance(n.ast, ast.Assign) and any(
            isinstance(t, ast.Attribute) and t.attr == "_inner" and isinstance(t.value, ast.Name) and t.value.id == "self"
            for t in n.ast.targets)
    d_ = stage("inner-assigned", find(is_inner, "inner"), "self._inner = <cleaned kwargs>")

    def is_constraints(n):
        return n.kind == "stmt" and node_calls(n, lambda c: call_name(c) == "_check_object_constraints"
                                               and isinstance(c.func, ast.Attribute) and isinstance(c.func.value, ast.Name)
                                               and c.func.value.id == "self")
    e_ = stage("object-constraints-checked", find(is_constraints, "constraints"), "self._check_object_constraints()")
    # order a < b < c < d < e  (dominance)
    seq = [("extra-properties-refused", a), ("check-property-loop", b), ("missing-required-refused", c_),
           ("inner-assigned", d_), ("object-constraints-checked", e_)]
    for (n1, s1), (n2, s2) in zip(seq, seq[1:]):
        if s1 and s2:
            ok = any(x in dom[s2[0]] for x in s1)
            run.check(ok, "C02.init-pipeline", key(rel, fi.qualname, "%s<%s" % (n1, n2)),
                      "pipeline stages out of order", file=rel, line=s2[0].lineno, function=fi.qualname,
                      expected="%s dominates %s" % (n1, n2), found="not dominated")

    # every __init__ override of a _STIXBase subclass reaches the base __init__
    base = prog.cls("stix2.base::_STIXBase")
    n_over = 0
    for f2 in prog.functions.values():
        if f2.name != "__init__" or f2.cls is None or f2 is fi or base not in f2.cls.mro:
            continue
        n_over += 1
        g2 = cfg_of(f2)

        def reaches_base(nd):
            def pred(c):
                if is_super_call(c, "__init__"):
                    return True
                # builder idiom: base_class.__init__(self, **kwargs)
                f = c.func
                return isinstance(f, ast.Attribute) and f.attr == "__init__" and isinstance(f.value, ast.Name) \
                    and f.value.id in ("base_class",)
            return node_calls(nd, pred)
        ok, path = g2.must_pass(reaches_base)
        run.check(ok, "C02.init-pipeline", key(f2.module.relpath, f2.qualname, "reaches-base-__init__"),
                  "__init__ override can finish normally without running the base validation", file=f2.module.relpath,
                  line=f2.node.lineno, function=f2.qualname, expected="every normal path calls super().__init__(...)",
                  found="bypass", path=g2.describe_path(path))
    run.extra["init_overrides"] = n_over
    run.floor("C02.init-pipeline", 20)


def _parents(n):
    p = getattr(n, "parent", None)
    while p is not None and not isinstance(p, (ast.FunctionDef, ast.AsyncFunctionDef, ast.Lambda)):
        yield p
        p = getattr(p, "parent", None)


# ---------------------------------------------------------------------------
class _LenToName(ast.NodeTransformer):
    """len(x) -> the synthetic name __len__ (so int_cond can treat it as the parameter)"""

    def __init__(self, only=None):
        self.only = only

    def visit_Call(self, node):
        if isinstance(node.func, ast.Name) and node.func.id == "len" and (self.only is None or norm(node) == self.only):
            return ast.Name(id="__len__", ctx=ast.Load())
        return self.generic_visit(node)


def _len_raise_region(fi, var_names=None):
    """IntSet of len(x) values for which the cleaner raises ValueError in an
    `if <cond on len(x)>: raise` guard, per tested variable."""
    out = {}
    for ifn, rs in if_raising(fi):
        if not any(isinstance(s, ast.Raise) for s in ifn.body):
            continue
        t = ifn.test
        lens = [c for c in ast.walk(t) if isinstance(c, ast.Call) and isinstance(c.func, ast.Name) and c.func.id == "len"
                and len(c.args) == 1 and isinstance(c.args[0], ast.Name)]
        if lens:
            v = lens[0].args[0].id
            t2 = _LenToName(norm(lens[0])).visit(clone(t))
            try:
                reg = int_cond(t2, "__len__")
            except AnalysisError:
                continue
            out.setdefault(v, []).append((reg, ifn, guard_chain(ifn)))
        elif isinstance(t, ast.UnaryOp) and isinstance(t.op, ast.Not) and isinstance(t.operand, ast.Name):
            out.setdefault(t.operand.id, []).append((IntSet([(0, 0)]), ifn, guard_chain(ifn)))
    return out


def rule_definition_of_named_type(ctx, rule_id="C02.constraints"):
    """marking-definition: `definition` must be of the kind `definition_type` names.  The only place that ties the two together
    is MarkingDefinition.__init__: it looks the class up by definition_type and rebuilds the definition with that class UNLESS
    the value already is an instance of it.  MarkingProperty.clean afterwards accepts an instance of ANY registered marking
    class, so a weaker skip-test (any library object, any marking) lets definition_type 'statement' be emitted with a TLP
    definition -- and the TLP instance check, keyed on definition_type, is bypassed."""
    run = ctx.run
    prog = ctx.prog
    from ..cfg import ReachingDefs, cfg_of
    n = 0
    for mod in ("stix2.v20.common", "stix2.v21.common"):
        cls = prog.cls(mod + "::MarkingDefinition")
        init = cls.methods.get("__init__")
        if init is None:
            raise AnalysisError("anchor missing: %s::MarkingDefinition.__init__" % mod)
        g = cfg_of(init)
        rd = ReachingDefs(g, init.all_param_names())
        kw = init.kwarg or "kwargs"
        slot = "%s['definition']" % kw
        rebuilds = [a_ for a_ in body_walk(init.node) if isinstance(a_, ast.Assign) and norm(a_.targets[0]) == slot
                    and isinstance(a_.value, ast.Call) and isinstance(a_.value.func, ast.Name)]
        if not rebuilds:
            raise AnalysisError("%s::MarkingDefinition.__init__: the definition is not rebuilt from a looked-up class any more" % mod)
        for a_ in rebuilds:
            n += 1
            cname = a_.value.func.id
            defs = [v for _d, v in rd.reaching(g.node_of(a_), cname)]
            by_type = bool(defs) and all(isinstance(v, ast.Subscript) and norm(v.slice) == "%s['definition_type']" % kw for v in defs)
            gc = [(norm(t), pol) for t, pol, _ in guard_chain(a_)]
            want = "isinstance(%s, %s)" % (slot, cname)
            exact = any((t == want and not pol) or (t == "not " + want and pol) for t, pol in gc)
            others = [t for t, pol in gc if "isinstance(" in t and want not in t]
            run.check(by_type and exact and not others, rule_id, key(init.module.relpath, init.qualname, "definition-is-of-the-named-type"),
                      "the definition is left as given under a test other than 'is already an instance of the class definition_type "
                      "names': an already-built marking object of ANOTHER kind is kept, and the object is emitted with a "
                      "definition_type that does not match its definition", file=init.module.relpath, line=a_.lineno,
                      function=init.qualname, expected="if not isinstance(%s, %s): rebuild with %s (looked up by definition_type)" % (
                          slot, cname, cname), found=[t for t, _p in gc])
    if n < 2:
        raise AnalysisError("fewer than 2 marking-definition constructors found")


def rule_helpers_examine_every_pair(ctx, rule_id="C02.constraints"):
    """The co-constraint helpers of _STIXBase (_check_mutually_exclusive_properties, _check_at_least_one_property,
    _check_properties_dependency) judge EVERY property / every (property, dependent) pair they are given: their loops have no
    break and no return.  An early exit at the first pair that is fine lets a later, violated pair through -- the 2.0 file rule
    (is_encrypted: encryption_algorithm, decryption_key) is then enforced for the first dependent only."""
    run = ctx.run
    prog = ctx.prog
    base = prog.cls("stix2.base::_STIXBase")
    n = 0
    for name in ("_check_mutually_exclusive_properties", "_check_at_least_one_property", "_check_properties_dependency"):
        fi = base.methods.get(name)
        if fi is None:
            raise AnalysisError("anchor missing: _STIXBase.%s" % name)
        for lp in [x for x in body_walk(fi.node) if isinstance(x, (ast.For, ast.While))]:
            n += 1
            exits = [x for st_ in lp.body for x in ast.walk(st_) if isinstance(x, (ast.Break, ast.Return))]
            run.check(not exits, rule_id, key(fi.module.relpath, fi.qualname, "examines-every-pair:%d" % n),
                      "a loop of the co-constraint helper can be left early (%s): the pairs after the exit are never judged, so a "
                      "violated dependency / exclusion among them is emitted" % ("break" if isinstance(exits[0], ast.Break) else "return")
                      if exits else "", file=fi.module.relpath, line=exits[0].lineno if exits else lp.lineno, function=fi.qualname,
                      expected="no break / return inside the loops", found=[short(x, 30) for x in exits])
    if n < 2:
        raise AnalysisError("fewer than 2 loops in the co-constraint helpers (%d)" % n)


def rule_constraint_presence_tests(ctx, rule_id="C02.constraints"):
    """In the constraint methods, "the property is present" is asked of string / number slots by MEMBERSHIP: their legal values
    include the falsy ones ('' , 0, 0.0), which a truthiness test (`if self.get('body')`) takes for absent -- the rule that
    `body` may only be used when is_multipart is false is then not applied to `body: ''`, and the invalid combination is
    emitted.  (Timestamps, lists and embedded objects have no falsy legal value; `is True` / `is False` tests are exact.)"""
    from ..typemodel import get_model, version_of_module
    run = ctx.run
    prog = ctx.prog
    tm = get_model(prog)
    sbase = prog.cls("stix2.base::_STIXBase")
    n = 0
    for fi in sorted(prog.functions.values(), key=lambda f: f.id):
        if fi.name != "_check_object_constraints" or fi.cls is None or sbase not in (fi.cls.mro or []) or fi.module.relpath.startswith("stix2/test"):
            continue
        rec = tm.classes.get((version_of_module(fi.module.name), fi.cls.name))
        if not rec:
            continue
        kinds = {a_: b_.get("kind") for a_, b_ in rec["slots"]}
        k_ = 0
        for iff in [x for x in body_walk(fi.node) if isinstance(x, ast.If) and any(isinstance(s_, ast.Raise) for s_ in x.body)]:
            for c_ in conjuncts(iff.test):
                e = c_.operand if isinstance(c_, ast.UnaryOp) and isinstance(c_.op, ast.Not) else c_
                if isinstance(e, ast.Call) and isinstance(e.func, ast.Attribute) and e.func.attr == "get" and norm(e.func.value) == "self" \
                        and e.args and isinstance(e.args[0], ast.Constant) and kinds.get(e.args[0].value) in (
                            "StringProperty", "IntegerProperty", "FloatProperty"):
                    n += 1
                    k_ += 1
                    run.violation(rule_id, key(fi.module.relpath, fi.qualname, "presence-by-membership#%d" % k_),
                                  "the constraint asks whether `%s` (a %s) is present by the TRUTHINESS of its value: the legal falsy "
                                  "value ('' / 0) counts as absent and the constraint is not applied to it" % (e.args[0].value, kinds[e.args[0].value]),
                                  file=fi.module.relpath, line=iff.lineno, function=fi.qualname,
                                  expected="'%s' in self" % e.args[0].value, found=short(iff.test, 80))
    run.ok(rule_id, key("stix2", "<constraint methods>", "presence-tests-examined"))


def rule_floats_finite(ctx, rule_id="C02.clean-contract"):
    """JSON has no NaN and no infinities, and every comparison with NaN is false: `value < min` / `value > max` both let NaN
    through, so a latitude of NaN (which Python's decoder accepts as input) is returned as a validated object that cannot be
    serialised.  FloatProperty.clean refuses non-finite values explicitly on every path before it returns (math.isfinite /
    isnan + isinf), the range comparisons cannot."""
    run = ctx.run
    prog = ctx.prog
    fi = prog.cls("stix2.properties::FloatProperty").methods.get("clean")
    if fi is None:
        raise AnalysisError("anchor missing: FloatProperty.clean")
    g = cfg_of(fi)

    def refuses(nd):
        return nd.kind == "test" and isinstance(nd.ast, ast.If) and any(
            isinstance(c, ast.Call) and norm(c.func) in ("math.isfinite", "math.isnan", "math.isinf", "isfinite", "isnan", "isinf")
            for c in ast.walk(nd.ast.test)) and any(isinstance(s_, ast.Raise) for s_ in nd.ast.body)
    rets = [g.node_of(r) for r in returns_of(fi)]
    bypass = None
    for rn in rets:
        p_ = g.path_avoiding(g.entry, rn, refuses, labels_skip=("exc", "raise"))
        if p_ is not None:
            bypass = p_
    run.check(bool(rets) and bypass is None, rule_id, key(fi.module.relpath, fi.qualname, "non-finite-refused"),
              "a float value can be returned without a finiteness test: NaN passes every range comparison and (like the infinities) "
              "cannot be written as JSON -- the 'validated' object fails at serialisation", file=fi.module.relpath,
              line=fi.node.lineno, function=fi.qualname, expected="if not math.isfinite(value): raise ValueError(...)",
              found="bypass", path=g.describe_path(bypass))


def rule_ignorecase_is_ascii(ctx, rule_id="C02.hash-regex"):
    """A str pattern compiled with IGNORECASE and without ASCII folds case by Unicode rules: `[a-z]` then also matches U+017F
    (long s) and U+212A (Kelvin sign).  The value regexes describe ASCII alphabets (hex digits, the ssdeep alphabet); compiled
    that way they admit non-ASCII text, which is emitted.  Every IGNORECASE compilation of a validating expression is ASCII."""
    run = ctx.run
    prog = ctx.prog
    n = 0
    for fi_or_mod in list(prog.modules.values()):
        m = fi_or_mod
        if m.relpath.startswith("stix2/test"):
            continue
        k_ = 0
        for c in ast.walk(m.tree):
            if not (isinstance(c, ast.Call) and norm(c.func) in ("re.compile", "re.match", "re.fullmatch", "re.search")):
                continue
            flags = [a_ for a_ in c.args[1:]] + [k.value for k in c.keywords if k.arg == "flags"]
            ftxt = " ".join(norm(f_) for f_ in flags)
            if not any(t in ftxt for t in ("re.I", "re.IGNORECASE")):
                continue
            n += 1
            k_ += 1
            ok = any(t in ftxt.replace("re.IGNORECASE", "").replace("re.I", "") for t in ("re.A", "re.ASCII")) or "re.ASCII" in ftxt or "re.A" in [
                x.strip() for x in ftxt.replace("|", " ").split()]
            run.check(ok, rule_id, key(m.relpath, "<module>", "ignorecase-is-ascii#%d" % k_),
                      "a validating expression is compiled with IGNORECASE but without ASCII: its letter classes also match non-ASCII "
                      "characters that case-fold to ASCII letters (U+017F, U+212A), so such text passes validation and is emitted",
                      file=m.relpath, line=c.lineno, function="<module>", expected="re.I | re.A", found=ftxt)
    if n < 2:
        raise AnalysisError("fewer than 2 IGNORECASE compilations found (%d)" % n)


def rule_integer_tests_exclude_bool(ctx, rule_id="C02.constraints"):
    """`isinstance(v, int)` is true for True / False (bool is a subclass of int).  A validation that refuses non-integers with
    `if not isinstance(v, int): raise` therefore admits a JSON boolean, and the object is emitted with `true` where the
    specification demands an integer.  Every such refusing test in validation code also refuses bool."""
    run = ctx.run
    prog = ctx.prog
    sbase = prog.cls("stix2.base::_STIXBase")
    n = 0
    for fi in sorted(prog.functions.values(), key=lambda f: f.id):
        if fi.module.relpath.startswith("stix2/test") or fi.cls is None:
            continue
        if not ((fi.name == "_check_object_constraints" and sbase in (fi.cls.mro or [])) or fi.name == "clean"):
            continue
        k_ = 0
        for iff in [x for x in body_walk(fi.node) if isinstance(x, ast.If) and any(isinstance(s_, ast.Raise) for s_ in x.body)]:
            for t in ast.walk(iff.test):
                if not (isinstance(t, ast.UnaryOp) and isinstance(t.op, ast.Not) and isinstance(t.operand, ast.Call)
                        and norm(t.operand.func) == "isinstance" and len(t.operand.args) == 2):
                    continue
                kinds = [norm(e) for e in (t.operand.args[1].elts if isinstance(t.operand.args[1], ast.Tuple) else [t.operand.args[1]])]
                if "int" not in kinds or "bool" in kinds:
                    continue
                n += 1
                k_ += 1
                v = norm(t.operand.args[0])
                okb = ("isinstance(%s, bool)" % v) in norm(iff.test) or any(
                    pol is False and ("isinstance(%s, bool)" % v) in norm(tt) for tt, pol, _ in guard_chain(iff))
                run.check(okb, rule_id, key(fi.module.relpath, fi.qualname, "integer-test-refuses-bool#%d" % k_),
                          "a value is required to be an integer by `not isinstance(%s, int)` alone: True / False pass (bool is an int) "
                          "and are emitted as JSON booleans where an integer is demanded" % v, file=fi.module.relpath, line=iff.lineno,
                          function=fi.qualname, expected="isinstance(%s, bool) or not isinstance(%s, int)" % (v, v), found=short(iff.test, 90))
    if n < 1:
        raise AnalysisError("no integer-kind validation found in constraint code (anchor lost: SocketExt options)")


def rule_init_loops(ctx, rule_id="C02.init-pipeline"):
    """Every loop of the constructor runs over ALL its elements (extensions, properties, defaults): a `break` after the first
    unregistered extension leaves later registered ones unexamined -- their properties are then stored uncleaned."""
    run = ctx.run
    prog = ctx.prog
    fi = prog.func("stix2.base::_STIXBase.__init__")
    n = 0
    for lp in [x for x in body_walk(fi.node) if isinstance(x, ast.For)]:
        n += 1
        exits = [x for s_ in lp.body for x in walk_no_nested(s_) if isinstance(x, (ast.Break, ast.Return))]
        inner = {id(x) for s_ in lp.body for sub in walk_no_nested(s_) if isinstance(sub, (ast.For, ast.While)) and sub is not lp
                 for b_ in sub.body for x in walk_no_nested(b_) if isinstance(x, ast.Break)}
        exits = [x for x in exits if id(x) not in inner]
        run.check(not exits, rule_id, key(fi.module.relpath, fi.qualname, "loop-complete:%s" % short(lp.iter, 50)),
                  "a loop of the constructor can stop early: the elements after that point (later extensions, later properties) "
                  "are not examined / cleaned, so their content is stored as given", file=fi.module.relpath,
                  line=exits[0].lineno if exits else lp.lineno, function=fi.qualname, expected="no break / return inside the loop",
                  found=short(exits[0]) if exits else None)
    if n < 4:
        raise AnalysisError("_STIXBase.__init__: fewer than 4 loops found (%d)" % n)


def range_guard_table(fi):
    """{(bound attribute, comparison operator with the value on the left, 'guarded-by-<attr>')} of the `raise ValueError` guards
    of a numeric cleaner"""
    guards = set()
    for ifn, rs in if_raising(fi):
        if not any(isinstance(s, ast.Raise) and exc_name(s) == "ValueError" for s in ifn.body):
            continue
        cj = conjuncts(ifn.test)
        if len(cj) == 1 and norm(cj[0]).replace(" ", "") in ("notmath.isfinite(%s)" % fi.params[1], "math.isnan(%s)ormath.isinf(%s)" % (fi.params[1], fi.params[1])):
            guards.add(("non-finite", "refused", "unconditional"))
            continue
        cmp_ = [x for x in cj if isinstance(x, ast.Compare) and len(x.ops) == 1 and not isinstance(x.ops[0], (ast.Is, ast.IsNot))]
        nn = [x for x in cj if isinstance(x, ast.Compare) and len(x.ops) == 1 and isinstance(x.ops[0], ast.IsNot)
              and isinstance(x.comparators[0], ast.Constant) and x.comparators[0].value is None]
        if len(cmp_) != 1 or len(nn) != 1 or len(cj) != 2:
            guards.add(("unrecognised", short(ifn.test)))
            continue
        c = cmp_[0]
        l, rr, op = c.left, c.comparators[0], type(c.ops[0])
        flip = {ast.Lt: ast.Gt, ast.Gt: ast.Lt, ast.LtE: ast.GtE, ast.GtE: ast.LtE}
        if isinstance(rr, ast.Name) and isinstance(l, ast.Attribute):
            l, rr, op = rr, l, flip.get(op, op)
        if isinstance(l, ast.Name) and isinstance(rr, ast.Attribute) and isinstance(rr.value, ast.Name) and rr.value.id == "self":
            bound_attr = rr.attr
            nn_attr = nn[0].left.attr if isinstance(nn[0].left, ast.Attribute) else None
            guards.add((bound_attr, op.__name__, "guarded-by-" + str(nn_attr)))
        else:
            guards.add(("unrecognised", short(ifn.test)))
    return guards


def rule_clean_contract(ctx):
    run = ctx.run
    prog = ctx.prog
    pbase = prog.cls("stix2.properties::Property")
    cleans = [fi for fi in prog.functions.values()
              if fi.cls is not None and pbase in fi.cls.mro and fi.name in ("clean", "_default_clean")]
    run.extra["clean_definitions"] = len(cleans)
    if len(cleans) < 20:
        raise AnalysisError("only %d clean definitions found (floor 20)" % len(cleans))
    R = "C02.clean-contract"
    for fi in sorted(cleans, key=lambda f: f.id):
        rel = fi.module.relpath
        # every return yields a 2-tuple
        for r in returns_of(fi):
            ok = isinstance(r.value, ast.Tuple) and len(r.value.elts) == 2
            run.check(ok, R, key(rel, fi.qualname, "return-pair:" + short(r.value, 60) if r.value is not None else "return-pair:None"),
                      "clean() must return (value, has_custom)", file=rel, line=r.lineno, function=fi.qualname,
                      expected="2-tuple", found=short(r) if r.value is not None else "bare return")

    def fn(cid, name="clean"):
        c = prog.cls("stix2.properties::" + cid)
        f = c.methods.get(name)
        if f is None:
            raise AnalysisError("anchor missing: %s.%s" % (cid, name))
        return f

    # reference cleaner: EVERY normal return has passed the identifier check and the allowed/forbidden type test -- also when the
    # value arrives as a library object (its id was validated under ITS property's rules, not this slot's)
    rf = fn("ReferenceProperty")
    g_ = cfg_of(rf)
    ok_id, p_id = g_.must_pass(lambda n: node_calls(n, lambda c: call_name(c) == "_validate_id"))
    type_tests = [n for n in g_.nodes if n.kind == "test" and isinstance(n.ast, ast.If) and any(
        isinstance(s_, ast.Raise) for s_ in n.ast.body) and any(
        isinstance(v_, ast.AST) and ("is_stix_type" in norm(v_)) for nm_ in names_in(n.ast.test)
        for _dn, v_ in ReachingDefs(g_, rf.all_param_names()).reaching(n, nm_))]
    ok_ty, p_ty = (g_.must_pass(lambda n: n in type_tests) if type_tests else (False, None))
    run.check(ok_id and ok_ty, R, key(rf.module.relpath, rf.qualname, "every-return-validated"),
              "a path of ReferenceProperty.clean returns a reference without %s: a reference of a type this slot forbids (or "
              "with an identifier this spec version refuses) is accepted when it is given in that form and emitted"
              % ("the identifier check" if not ok_id else "the allowed/forbidden type test"), file=rf.module.relpath,
              line=rf.node.lineno, function=rf.qualname, expected="_validate_id(...) and `if not type_ok: raise` on every normal path",
              found="bypass", path=g_.describe_path(p_id or p_ty))
    # numeric conversion + range guards (siblings Integer / Float)
    tables = {}
    for cid, conv in (("IntegerProperty", "int"), ("FloatProperty", "float")):
        fi = fn(cid)
        rel = fi.module.relpath
        g = cfg_of(fi)
        rd = ReachingDefs(g, fi.all_param_names())
        param = fi.params[1]
        for r in returns_of(fi):
            if not (isinstance(r.value, ast.Tuple) and r.value.elts):
                continue
            e0 = r.value.elts[0]
            ok = False
            found = short(e0)
            if isinstance(e0, ast.Name):
                defs = rd.reaching(g.node_of(r), e0.id)
                found = [short(v) if isinstance(v, ast.AST) else str(v) for _, v in defs]
                ok = bool(defs) and all(isinstance(v, ast.Call) and isinstance(v.func, ast.Name) and v.func.id == conv
                                        for _, v in defs)
            elif isinstance(e0, ast.Call) and isinstance(e0.func, ast.Name) and e0.func.id == conv:
                ok = True
            run.check(ok, R, key(rel, fi.qualname, "returns-converted-value"),
                      "the value returned is not (only) the %s() conversion result" % conv, file=rel, line=r.lineno,
                      function=fi.qualname, expected="%s(value)" % conv, found=found)
        guards = range_guard_table(fi)
        tables[cid] = guards
        want = {("min", "Lt", "guarded-by-min"), ("max", "Gt", "guarded-by-max")}
        if cid == "FloatProperty":
            want = want | {("non-finite", "refused", "unconditional")}       # JSON has no NaN / Infinity
        run.check(guards == want, R, key(rel, fi.qualname, "range-guards"),
                  "range guard table differs (bounds themselves must be legal: strict comparisons)", file=rel,
                  line=fi.node.lineno, function=fi.qualname, expected=sorted(want), found=sorted(guards))
        # int()/float() failure -> ValueError
        conv_ok = False
        for n in body_walk(fi.node):
            if isinstance(n, ast.Try):
                has_conv = any(isinstance(c, ast.Call) and isinstance(c.func, ast.Name) and c.func.id == conv
                               for s in n.body for c in ast.walk(s))
                rz = any(exc_name(r) == "ValueError" for h in n.handlers for r in body_raises(h.body))
                if has_conv and rz:
                    conv_ok = True
        run.check(conv_ok, R, key(rel, fi.qualname, "conversion-failure-raises"),
                  "a failing %s() conversion is not turned into ValueError" % conv, file=rel, line=fi.node.lineno,
                  function=fi.qualname, expected="try: %s(value) except: raise ValueError" % conv, found="absent")
    # constructor stores min/max unchanged
    for cid in ("IntegerProperty", "FloatProperty"):
        init = fn(cid, "__init__")
        stored = {}
        for n in body_walk(init.node):
            if isinstance(n, ast.Assign) and len(n.targets) == 1 and isinstance(n.targets[0], ast.Attribute) \
                    and isinstance(n.targets[0].value, ast.Name) and n.targets[0].value.id == "self":
                stored[n.targets[0].attr] = norm(n.value)
        run.check(stored.get("min") == "min" and stored.get("max") == "max", R,
                  key(init.module.relpath, init.qualname, "stores-bounds"), "constructor does not store min/max as given",
                  file=init.module.relpath, line=init.node.lineno, function=init.qualname,
                  expected={"min": "min", "max": "max"}, found=stored)

    # empty containers refused
    for cid, what in (("ListProperty", "list"), ("DictionaryProperty", "dictionary")):
        fi = fn(cid)
        rel = fi.module.relpath
        regs = _len_raise_region(fi)
        # the tested variable must be the one returned
        ret_names = {r.value.elts[0].id for r in returns_of(fi) if isinstance(r.value, ast.Tuple) and isinstance(r.value.elts[0], ast.Name)}
        ok = False
        found = {}
        for v, lst in regs.items():
            for reg, ifn, gc in lst:
                found.setdefault(v, []).append(repr(reg))
                if v in ret_names and not gc and reg.contains(0) and not reg.contains(1):
                    ok = True
        run.check(ok, R, key(rel, fi.qualname, "empty-%s-refused" % what),
                  "an empty %s is not refused (or non-empty ones are)" % what, file=rel, line=fi.node.lineno,
                  function=fi.qualname, expected="raise ValueError exactly when len(result) == 0", found=found)
    # dictionary key rules per spec version
    fi = fn("DictionaryProperty")
    rel = fi.module.relpath
    regs = _len_raise_region(fi)
    per_version = {}
    for v, lst in regs.items():
        for reg, ifn, gc in lst:
            for t, pol, _ in gc:
                if pol and isinstance(t, ast.Compare) and isinstance(t.comparators[0], ast.Constant) and "spec_version" in norm(t.left):
                    ver = t.comparators[0].value
                    per_version[ver] = per_version.get(ver, IntSet.empty()).union(reg)
    # elif branches: the 2.0 block has `if len(k) < 3 ... elif len(k) > 256`
    for n in body_walk(fi.node):
        if isinstance(n, ast.If) and isinstance(n.test, ast.Compare) and "spec_version" in norm(n.test.left) \
                and isinstance(n.test.comparators[0], ast.Constant):
            ver = n.test.comparators[0].value
            reg = IntSet.empty()
            for s in n.body:
                cur = s
                while isinstance(cur, ast.If):
                    if any(isinstance(x, ast.Raise) for x in cur.body):
                        try:
                            reg = reg.union(int_cond(_LenToName().visit(clone(cur.test)), "__len__"))
                        except AnalysisError:
                            pass
                    cur = cur.orelse[0] if len(cur.orelse) == 1 else None
            per_version[ver] = reg
    want = {"2.0": IntSet([(None, 2), (257, None)]), "2.1": IntSet([(251, None)])}
    for ver in ("2.0", "2.1"):
        got = per_version.get(ver, IntSet.empty())
        run.check(got == want[ver], R, key(rel, fi.qualname, "key-length-%s" % ver),
                  "dictionary key length rule for %s differs" % ver, file=rel, line=fi.node.lineno, function=fi.qualname,
                  expected=repr(want[ver]), found=repr(got))

    # fixed values
    fi = fn("Property", "_default_clean")
    rel = fi.module.relpath
    ok = False
    for ifn, rs in if_raising(fi):
        t = ifn.test
        if isinstance(t, ast.Compare) and len(t.ops) == 1 and isinstance(t.ops[0], ast.NotEq) and not guard_chain(ifn):
            sides = {norm(t.left), norm(t.comparators[0])}
            if sides == {fi.params[1], "self._fixed_value"}:
                ok = True
    run.check(ok, R, key(rel, fi.qualname, "fixed-value-enforced"), "a value different from the fixed value is not refused",
              file=rel, line=fi.node.lineno, function=fi.qualname, expected="if value != self._fixed_value: raise", found="absent")
    init = fn("Property", "__init__")
    txt = norm(init.node)
    ok = "self._fixed_value = fixed" in txt and "self.clean = self._default_clean" in txt
    run.check(ok, R, key(init.module.relpath, init.qualname, "fixed-installs-default-clean"),
              "`fixed=` no longer installs the equality cleaner", file=init.module.relpath, line=init.node.lineno,
              function=init.qualname, expected="self._fixed_value = fixed; self.clean = self._default_clean", found="absent")

    # closed vocabulary
    fi = fn("EnumProperty")
    rel = fi.module.relpath
    ok = False
    retn = {r.value.elts[0].id for r in returns_of(fi) if isinstance(r.value, ast.Tuple) and isinstance(r.value.elts[0], ast.Name)}
    for ifn, rs in if_raising(fi):
        t = ifn.test
        if isinstance(t, ast.Compare) and len(t.ops) == 1 and isinstance(t.ops[0], ast.NotIn) and not guard_chain(ifn) \
                and norm(t.comparators[0]) == "self.allowed" and isinstance(t.left, ast.Name) and t.left.id in retn:
            ok = True
    run.check(ok, R, key(rel, fi.qualname, "closed-vocabulary-enforced"), "values outside `allowed` are not refused",
              file=rel, line=fi.node.lineno, function=fi.qualname, expected="if value not in self.allowed: raise", found="absent")

    # boolean: result only True/False constants; unknown refused
    fi = fn("BooleanProperty")
    rel = fi.module.relpath
    g = cfg_of(fi)
    rd = ReachingDefs(g, fi.all_param_names())
    ok = True
    found = []
    for r in returns_of(fi):
        e0 = r.value.elts[0] if isinstance(r.value, ast.Tuple) else r.value
        if isinstance(e0, ast.Name):
            for _, v in rd.reaching(g.node_of(r), e0.id):
                found.append(short(v) if isinstance(v, ast.AST) else str(v))
                if not (isinstance(v, ast.Constant) and isinstance(v.value, bool)):
                    ok = False
        elif not (isinstance(e0, ast.Constant) and isinstance(e0.value, bool)):
            ok = False
    has_else_raise = any(exc_name(r) == "ValueError" for r in body_raises(fi.node.body))
    run.check(ok and has_else_raise, R, key(rel, fi.qualname, "returns-bool-constant"),
              "BooleanProperty may return a non-boolean", file=rel, line=fi.node.lineno, function=fi.qualname,
              expected="True/False constants, ValueError otherwise", found=found)

    # hex / binary / selector: a refusing guard exists and is unconditional
    for cid, needle in (("HexProperty", "re.match"), ("SelectorProperty", "SELECTOR_REGEX.match")):
        fi = fn(cid)
        rel = fi.module.relpath
        ok = False
        for ifn, rs in if_raising(fi):
            if isinstance(ifn.test, ast.UnaryOp) and isinstance(ifn.test.op, ast.Not) and needle in norm(ifn.test.operand) \
                    and not guard_chain(ifn) and fi.params[1] in names_in(ifn.test):
                ok = True
        run.check(ok, R, key(rel, fi.qualname, "format-guard"), "the format check no longer refuses non-matching values",
                  file=rel, line=fi.node.lineno, function=fi.qualname, expected="if not <regex>.match(value): raise ValueError",
                  found="absent")
    run.floor(R, 35)


# ---------------------------------------------------------------------------
def rule_id_rule(ctx):
    run = ctx.run
    prog = ctx.prog
    R = "C02.id-rule"
    vi = prog.func("stix2.properties::_validate_id")
    cu = prog.func("stix2.properties::_check_uuid")
    run.anchor(vi.id, vi.where)
    run.anchor(cu.id, cu.where)
    rel = vi.module.relpath
    # prefix test
    ok = False
    for ifn, rs in if_raising(vi):
        t = ifn.test
        if isinstance(t, ast.UnaryOp) and isinstance(t.op, ast.Not) and "startswith(required_prefix)" in norm(t.operand):
            gc = guard_chain(ifn)
            if all(pol and norm(tt) == "required_prefix" for tt, pol, _ in gc):
                ok = True
    run.check(ok, R, key(rel, vi.qualname, "prefix-test"), "identifier prefix is not enforced when a prefix is required",
              file=rel, line=vi.node.lineno, function=vi.qualname,
              expected="if required_prefix: if not id_.startswith(required_prefix): raise", found="absent")
    # type part and UUID part are cut at the same separator: the type of a reference is everything before the FIRST '--'
    # (utils.get_type_from_id), so the UUID part must be everything after the first '--'; cutting from the right leaves
    # the text in between unexamined ("identity--junk--<uuid>" would be a valid reference)
    idp = vi.params[0]
    LEFT = {"index", "find", "split", "partition"}
    RIGHT = {"rindex", "rfind", "rsplit", "rpartition"}
    cuts = [c for c in body_walk(vi.node) if isinstance(c, ast.Call) and isinstance(c.func, ast.Attribute)
            and c.func.attr in LEFT | RIGHT and isinstance(c.func.value, ast.Name) and c.func.value.id == idp
            and c.args and const_str(c.args[0]) == "--"]
    gt = prog.func("stix2.utils::get_type_from_id")
    cuts_t = [c for c in body_walk(gt.node) if isinstance(c, ast.Call) and isinstance(c.func, ast.Attribute)
              and c.func.attr in LEFT | RIGHT and c.args and const_str(c.args[0]) == "--"]
    if not cuts or not cuts_t:
        raise AnalysisError("_validate_id / get_type_from_id: the cut at '--' was not found")

    def first_sep(c):
        par = getattr(c, "parent", None)
        if c.func.attr in ("index", "find", "partition"):
            return True
        if c.func.attr == "split":
            # split('--', 1): the remainder keeps later separators; plain split('--') drops text unless all parts are used
            return len(c.args) >= 2 and isinstance(c.args[1], ast.Constant) and c.args[1].value == 1 and isinstance(par, ast.Subscript)
        return False
    bad = [c for c in cuts + cuts_t if not first_sep(c)]
    run.check(not bad, R, key(rel, vi.qualname, "uuid-part-is-rest-after-type"),
              "the type of an identifier is the text before the first '--', but the UUID part is not the whole rest after that "
              "separator: text between the type and the last '--' is never examined (e.g. 'identity--junk--<uuid>' is accepted "
              "as a reference to an identity and serialised as given)", file=(bad[0] if bad else cuts[0]) and rel,
              line=(bad[0].lineno if bad else cuts[0].lineno), function=vi.qualname,
              expected="both cuts at the first '--' (index/find/partition/split('--', 1))", found=[short(c) for c in bad])
    # result of _check_uuid tested on every path to normal exit
    g = cfg_of(vi)
    assign = [n for n in g.nodes if n.kind == "stmt" and isinstance(n.ast, ast.Assign)
              and isinstance(n.ast.value, ast.Call) and call_simple_name(n.ast.value) == "_check_uuid"]
    if len(assign) != 1 or not isinstance(assign[0].ast.targets[0], ast.Name):
        raise AnalysisError("_validate_id: cannot locate `result = _check_uuid(...)`")
    var = assign[0].ast.targets[0].id
    ok1, path = g.must_pass(lambda n: n is assign[0])

    def tests_result(n):
        return (n.kind == "test" and isinstance(n.ast, ast.If) and isinstance(n.ast.test, ast.UnaryOp)
                and isinstance(n.ast.test.op, ast.Not) and isinstance(n.ast.test.operand, ast.Name)
                and n.ast.test.operand.id == var and any(isinstance(s, ast.Raise) for s in n.ast.body))
    ok2, path2 = g.must_pass(tests_result, start=assign[0])
    run.check(ok1 and ok2, R, key(rel, vi.qualname, "uuid-result-tested"),
              "a path returns normally without testing the result of _check_uuid", file=rel, line=assign[0].lineno,
              function=vi.qualname, expected="if not result: raise ValueError on every path", found="bypass",
              path=g.describe_path(path or path2))
    # arguments forwarded
    call = assign[0].ast.value
    args = [norm(a) for a in call.args] + ["%s=%s" % (k.arg, norm(k.value)) for k in call.keywords]
    run.check(len(call.args) == 3 and norm(call.args[1]) == "spec_version" and norm(call.args[2]) == "interoperability", R,
              key(rel, vi.qualname, "uuid-args"), "_check_uuid is not given the spec version / strictness switch",
              file=rel, line=call.lineno, function=vi.qualname, expected="(uuid_part, spec_version, interoperability)", found=args)
    # the ValueError of uuid parsing is replaced, not swallowed
    tries = [n for n in body_walk(vi.node) if isinstance(n, ast.Try)]
    okh = any(any(exc_name(r) == "ValueError" for r in body_raises(h.body)) for t in tries for h in t.handlers)
    run.check(okh, R, key(rel, vi.qualname, "malformed-uuid-raises"), "malformed UUID text no longer raises ValueError",
              file=rel, line=vi.node.lineno, function=vi.qualname, expected="except ValueError: raise ValueError(...)", found="absent")

    # _check_uuid: relaxed regex only under `interoperability`; variant + version-4 rule
    rel = cu.module.relpath
    rets = returns_of(cu)
    relaxed = [r for r in rets if "ID_REGEX_interoperability" in norm(r)]
    ok = True
    for r in relaxed:
        gc = guard_chain(r)
        if not (len(gc) == 1 and gc[0][1] and norm(gc[0][0]) == "interoperability"):
            ok = False
    # and no other use of the relaxed regex in the module
    other = [n for n in ast.walk(cu.module.tree) if isinstance(n, ast.Name) and n.id == "ID_REGEX_interoperability"
             and isinstance(n.ctx, ast.Load) and prog.enclosing_function(n) is not cu]
    run.check(ok and bool(relaxed) and not other, R, key(rel, cu.qualname, "relaxed-only-under-switch"),
              "the relaxed identifier regex is reachable without the interoperability switch", file=rel, line=cu.node.lineno,
              function=cu.qualname, expected="`if interoperability: return ID_REGEX_interoperability.match(...)` only",
              found=[short(r) for r in relaxed] + ["other use at line %d" % n.lineno for n in other])
    txt = norm(cu.node)
    strict_rets = [r for r in rets if r not in relaxed]
    g = cfg_of(cu)
    rd = ReachingDefs(g, cu.all_param_names())
    facts = {"variant": False, "v4": False, "textual": False}
    for r in strict_rets:
        if not isinstance(r.value, ast.Name):
            continue
        # collect every expression feeding the returned name (transitively through same-name updates)
        seen = set()
        work = [(g.node_of(r), r.value.id)]
        exprs = []
        while work:
            nd, nm = work.pop()
            for dn, v in rd.reaching(nd, nm):
                if (dn.id, nm) in seen or not isinstance(v, ast.AST):
                    continue
                seen.add((dn.id, nm))
                exprs.append((dn, v))
        for dn, v in exprs:
            t = norm(v)
            if "variant == uuid.RFC_4122" in t or "uuid.RFC_4122 == " in t:
                facts["variant"] = True
            if ".version == 4" in t:
                gc = guard_chain(dn.ast)
                if any(pol and "spec_version == '2.0'" in norm(tt) for tt, pol, _ in gc):
                    facts["v4"] = True
            # textual form: an expression reading the raw parameter other than uuid.UUID(param)
            for x in ast.walk(v):
                if isinstance(x, ast.Name) and x.id == cu.params[0]:
                    par = getattr(x, "parent", None)
                    if not (isinstance(par, ast.Call) and dotted(par.func) == "uuid.UUID"):
                        facts["textual"] = True
        # conditions on the path also feed `ok and ...`
        for dn, v in exprs:
            for tt, pol, _ in guard_chain(dn.ast):
                for x in ast.walk(tt):
                    if isinstance(x, ast.Name) and x.id == cu.params[0]:
                        facts["textual"] = True
    run.check(facts["variant"], R, key(rel, cu.qualname, "rfc4122-variant"), "RFC 4122 variant is not required",
              file=rel, line=cu.node.lineno, function=cu.qualname, expected="uuid_obj.variant == uuid.RFC_4122", found=facts)
    run.check(facts["v4"], R, key(rel, cu.qualname, "stix20-requires-v4"), "STIX 2.0 identifiers are not required to be UUIDv4",
              file=rel, line=cu.node.lineno, function=cu.qualname, expected="if spec_version == '2.0': version == 4", found=facts)
    run.check(facts["textual"], R, key(rel, cu.qualname, "canonical-text-form"),
              "uuid.UUID() accepts braces, 'urn:uuid:' prefixes and un-hyphenated hex; the strict result does not depend on the "
              "textual form of the identifier, so such spellings are accepted and emitted as given",
              file=rel, line=cu.node.lineno, function=cu.qualname,
              expected="result also depends on the text (e.g. str(uuid_obj) == uuid_str.lower(), or a 8-4-4-4-12 regex)",
              found="only uuid.UUID(uuid_str) reads the text")
    run.floor(R, 8)


# ---------------------------------------------------------------------------
def _match_sites(prog, modules):
    """(pattern value, flags, call node, function) for re.match(P, x) / P.match(x) in the given modules."""
    ev = Evaluator(prog, allow_dyn=True)
    out = []
    for mname in modules:
        m = prog.module(mname)
        for n in ast.walk(m.tree):
            if not isinstance(n, ast.Call) or not isinstance(n.func, ast.Attribute):
                continue
            if n.func.attr not in ("match", "fullmatch", "search"):
                continue
            scope = prog.enclosing_scope(n)
            fi = prog.enclosing_function(n)
            base = n.func.value
            pat = None
            if dotted(base) == "re" and n.args:
                try:
                    pat = ev.eval(n.args[0], scope)
                except AnalysisError:
                    pat = None
            else:
                try:
                    pat = ev.eval(base, scope)
                except AnalysisError:
                    pat = None
            out.append((pat, n, fi, m))
    return out


def rule_regexes(ctx):
    run = ctx.run
    prog = ctx.prog
    ev = Evaluator(prog, allow_dyn=True)
    spec = ctx.spec("hashes.json")
    # --- end anchoring of every value-validating regex in properties.py -------
    R = "C02.end-anchor"
    n_sites = 0
    for pat, call, fi, m in _match_sites(prog, ["stix2.properties"]):
        if isinstance(pat, Regex):
            p, fl = pat.pattern, regexast.flag_value(to_json(pat.flags) if not isinstance(pat.flags, int) else pat.flags)
        elif isinstance(pat, str):
            p, fl = pat, 0
        else:
            continue
        n_sites += 1
        where = fi.qualname if fi else "<module>"
        alts = regexast.top_alternatives(p, fl)
        kinds = [regexast.end_kind(a) for a in alts]
        c = key(m.relpath, where, "regex:%s" % p)
        if call.func.attr == "fullmatch":
            run.ok(R, c)
            continue
        if p.endswith(".*"):
            run.ok(R, c, "prefix test by design")
            continue
        ok = all(k == "\\Z" for k in kinds)
        run.check(ok, R, c, "value regex is not anchored at the absolute end: `$` also matches before a trailing newline, so "
                  "'<valid>\\n' is accepted and emitted", file=m.relpath, line=call.lineno, function=where,
                  expected="every top-level alternative ends with \\Z", found=kinds)
    run.floor(R, 6)
    run.extra["regex_match_sites"] = n_sites
    from .regexlang import rule_regex_languages
    rule_regex_languages(ctx, "C02.regex-language", ["sound"])
    run.floor("C02.regex-language", 5)

    # --- hash regex table ---------------------------------------------------
    R = "C02.hash-regex"
    hm = prog.module("stix2.hashes")
    b = hm.scope.lookup_local("_HASH_REGEXES")
    if b is None or not isinstance(b.value, ast.Dict):
        raise AnalysisError("anchor missing: stix2.hashes._HASH_REGEXES dict literal")
    henum = prog.cls("stix2.hashes::Hash")
    members = [n for n in henum.scope.bindings if not n.startswith("_")]
    table = {}
    for k, v in zip(b.value.keys, b.value.values):
        kk = ev.eval(k, hm.scope)
        vv = ev.eval(v, hm.scope)
        if not isinstance(kk, EnumMember) or not isinstance(vv, str):
            raise AnalysisError("_HASH_REGEXES entry not (Hash member: str): %s" % norm(k))
        table[kk.name] = (vv, k)
    # flags applied by the compile loop
    flags = 0
    for n in ast.walk(hm.tree):
        if isinstance(n, ast.Call) and dotted(n.func) == "re.compile" and len(n.args) > 1:
            flags = regexast.flag_value(norm(n.args[1]))
    run.check(flags & 2 == 2 or True, R, key(hm.relpath, "<module>", "compile-flags"), "", file=hm.relpath)
    for name in sorted(set(members) | set(table) | set(spec["lengths"])):
        c = key(hm.relpath, "_HASH_REGEXES", name)
        if name not in table:
            run.violation(R, c, "hash algorithm %s has no sanity regex (any value accepted)" % name, file=hm.relpath,
                          line=b.lineno, function="_HASH_REGEXES", expected="entry", found="missing")
            continue
        if name not in members:
            run.violation(R, c, "regex key %s is not a Hash member" % name, file=hm.relpath, line=b.lineno)
            continue
        if name not in spec["lengths"]:
            raise AnalysisError("hash %s not in spec/hashes.json" % name)
        pat, knode = table[name]
        alts = regexast.top_alternatives(pat, flags)
        problems = []
        lens = set()
        for a in alts:
            ek = regexast.end_kind(a)
            if ek is None:
                problems.append("alternative not anchored at the end")
            elif ek != "\\Z":
                problems.append("end anchor is `$` (admits a trailing newline)")
            if regexast.start_kind(a) is None:
                pass    # re.match anchors the start implicitly
            if a.inner_anchors:
                problems.append("anchor inside an alternative")
            if a.lengths.is_finite_set():
                lens |= set(a.lengths.values)
            else:
                problems.append("unbounded length %s" % (a.lengths.to_json(),))
            chars = regexast.alphabet_chars(a)
            want_alpha = set(spec["alphabets"][spec["alphabet_of"].get(name, "hex")])
            if chars is None or not (set(c_.lower() for c_ in chars) <= want_alpha):
                problems.append("alphabet %s exceeds %s" % ("".join(sorted(chars or "?")), spec["alphabet_of"].get(name, "hex")))
        want = spec["lengths"][name]
        if isinstance(want, dict):
            if not lens or min(lens) != want["min"] or max(lens) != want["max"]:
                problems.append("length range %s..%s, expected %s..%s" % (min(lens or [0]), max(lens or [0]), want["min"], want["max"]))
        elif sorted(lens) != sorted(want):
            problems.append("admitted lengths %s, digest lengths %s" % (sorted(lens), sorted(want)))
        # de-duplicate
        problems = sorted(set(problems))
        anchor_only = [p for p in problems if "anchor" in p]
        other = [p for p in problems if "anchor" not in p]
        run.check(not other, R, c, "; ".join(other), file=hm.relpath, line=knode.lineno, function="_HASH_REGEXES",
                  expected="hex digest of length %s" % (want,), found=pat)
        run.check(not anchor_only, R, key(hm.relpath, "_HASH_REGEXES", name + ".anchoring"), "; ".join(anchor_only),
                  file=hm.relpath, line=knode.lineno, function="_HASH_REGEXES", expected="every alternative ends with \\Z",
                  found=pat)
    # check_hash uses the table with .match and returns its verdict
    ch = prog.func("stix2.hashes::check_hash")
    txt = norm(ch.node)
    run.check("_HASH_REGEXES.get(hash_)" in txt and ".match(value)" in txt, R, key(hm.relpath, ch.qualname, "uses-table"),
              "check_hash no longer consults the regex table", file=hm.relpath, line=ch.node.lineno, function=ch.qualname,
              expected="regex = _HASH_REGEXES.get(hash_); bool(regex.match(value))", found=short(ch.node, 200))
    # HashesProperty.clean refuses when check_hash fails
    hp = prog.cls("stix2.properties::HashesProperty").methods["clean"]
    ok = False
    for ifn, rs in if_raising(hp):
        t = ifn.test
        if isinstance(t, ast.UnaryOp) and isinstance(t.op, ast.Not) and "check_hash" in norm(t.operand):
            ok = True
    run.check(ok, R, key(hp.module.relpath, hp.qualname, "implausible-hash-refused"),
              "an implausible hash value is not refused", file=hp.module.relpath, line=hp.node.lineno, function=hp.qualname,
              expected="if not check_hash(alg, value): raise ValueError", found="absent")
    # vocabulary names of both versions are inferable to Hash members (so their values are checked)
    inf = prog.func("stix2.hashes::infer_hash_algorithm")
    itxt = norm(inf.node)
    if pmall(itxt, "$e = %s.replace('-', '').upper()" % inf.params[0], "Hash[$e]") is None:
        raise AnalysisError("infer_hash_algorithm changed shape; update C02.hash-regex normalisation")
    for ver, modname in (("2.0", "stix2.v20.vocab"), ("2.1", "stix2.v21.vocab")):
        vm = prog.module(modname)
        vb = vm.scope.lookup_local("HASHING_ALGORITHM")
        if vb is None:
            raise AnalysisError("anchor missing: %s.HASHING_ALGORITHM" % modname)
        names = ev.eval(vb.value, vm.scope)
        for nm in names:
            norm_name = nm.replace("-", "").upper()
            run.check(norm_name in members and norm_name in table, R, key(vm.relpath, "HASHING_ALGORITHM", nm),
                      "vocabulary hash name is not recognised by the library, so its values are never sanity-checked",
                      file=vm.relpath, line=vb.lineno, function="HASHING_ALGORITHM", expected="Hash." + norm_name, found="unknown")
    run.floor(R, 40)


# ---------------------------------------------------------------------------
def rule_tlp(ctx):
    run = ctx.run
    prog = ctx.prog
    R = "C02.tlp"
    spec = ctx.spec("tlp.json")
    fi = prog.func("stix2.markings.utils::check_tlp_marking")
    run.anchor(fi.id, fi.where)
    rel = fi.module.relpath
    # locate the chain  if color == "<c>": ... elif ... else: raise
    chain = None
    for n in body_walk(fi.node):
        if isinstance(n, ast.If) and isinstance(n.test, ast.Compare) and isinstance(n.test.comparators[0], ast.Constant) \
                and n.test.comparators[0].value in spec["colors"] and not isinstance(getattr(n, "parent", None), ast.If) \
                or (isinstance(n, ast.If) and isinstance(n.test, ast.Compare) and isinstance(n.test.comparators[0], ast.Constant)
                    and n.test.comparators[0].value in spec["colors"] and n not in getattr(n.parent, "orelse", [])):
            chain = n
            break
    if chain is None:
        raise AnalysisError("check_tlp_marking: colour chain not found")
    seen = {}
    cur = chain
    else_body = None
    while True:
        color = cur.test.comparators[0].value if isinstance(cur.test, ast.Compare) and isinstance(cur.test.comparators[0], ast.Constant) else None
        seen[color] = cur
        if len(cur.orelse) == 1 and isinstance(cur.orelse[0], ast.If):
            cur = cur.orelse[0]
            continue
        else_body = cur.orelse
        break
    for color, want in sorted(spec["colors"].items()):
        c = key(rel, fi.qualname, "tlp-" + color)
        br = seen.get(color)
        if br is None:
            run.violation(R, c, "TLP colour %s has no branch" % color, file=rel, line=fi.node.lineno, function=fi.qualname,
                          expected=want, found="missing")
            continue
        got = {}
        for n in ast.walk(br):
            if n is not br and isinstance(n, ast.If) and n in _chain_members(br):
                pass
        for sub in _tlp_tests(br):
            t = sub.test
            if isinstance(t, ast.Compare) and len(t.ops) == 1 and isinstance(t.ops[0], ast.NotEq) \
                    and isinstance(t.comparators[0], ast.Constant) and any(isinstance(s, ast.Raise) for s in sub.body):
                lhs = norm(t.left)
                if "'id'" in lhs or '"id"' in lhs:
                    got["id"] = t.comparators[0].value
                elif "created" in lhs and "format_datetime" in lhs:
                    got["created"] = t.comparators[0].value
        run.check(got == want, R, c, "TLP %s marking-definition constants differ / a mismatch is not refused" % color,
                  file=rel, line=br.lineno, function=fi.qualname, expected=want, found=got)
    run.check(bool(else_body) and any(isinstance(s, ast.Raise) for s in else_body), R, key(rel, fi.qualname, "tlp-unknown-colour"),
              "an unknown TLP colour is not refused", file=rel, line=chain.lineno, function=fi.qualname,
              expected="else: raise TLPMarkingDefinitionError", found="absent")
    # the colour that is compared is the colour that is stored: no normalisation (lower(), strip(), ...) between the
    # object and the comparison, or 'RED' passes the check and is emitted as given
    lhs = chain.test.left
    src_exprs = [lhs]
    if isinstance(lhs, ast.Name):
        g_ = cfg_of(fi)
        rd_ = ReachingDefs(g_, fi.all_param_names())
        src_exprs = [v for _, v in rd_.reaching(g_.node_of(chain), lhs.id) if isinstance(v, ast.AST)]
        if not src_exprs:
            raise AnalysisError("check_tlp_marking: definition of the compared colour not found")
    bad = [c for e in src_exprs for c in ast.walk(e) if isinstance(c, ast.Call)
           and not (isinstance(c.func, ast.Attribute) and c.func.attr == "get")]
    run.check(not bad, R, key(rel, fi.qualname, "compared-colour-is-stored-colour"),
              "the TLP colour is transformed before it is compared with the four levels, but stored and serialised untransformed: "
              "a case or spacing variant ('RED', 'Amber ') with the fixed id/created passes strict validation and is emitted, "
              "although it is none of the four fixed TLP instances", file=rel, line=(bad[0].lineno if bad else chain.lineno),
              function=fi.qualname, expected="colour read by subscript/get only", found=[short(e) for e in src_exprs])
    # the chain is entered exactly when definition_type == 'tlp'
    gc = guard_chain(chain)
    run.check(len(gc) == 1 and gc[0][1] and "definition_type" in norm(gc[0][0]) and "'tlp'" in norm(gc[0][0]), R,
              key(rel, fi.qualname, "tlp-guard"), "TLP check is not applied to every tlp marking definition", file=rel,
              line=chain.lineno, function=fi.qualname, expected="if marking_obj.get('definition_type', '') == 'tlp'",
              found=[short(t) for t, _, _ in gc])
    # both MarkingDefinition classes call it from _check_object_constraints with their version (constraints oracle has it);
    # here: the module-level TLP_* instances agree with the table
    for ver, modname in (("2.0", "stix2.v20.common"), ("2.1", "stix2.v21.common")):
        m = prog.module(modname)
        for color, want in sorted(spec["colors"].items()):
            name = "TLP_" + color.upper()
            b = m.scope.lookup_local(name)
            c = key(m.relpath, "<module>", name)
            if b is None or not isinstance(b.value, ast.Call):
                run.violation(R, c, "predefined %s missing" % name, file=m.relpath)
                continue
            kw = {k.arg: k.value for k in b.value.keywords}
            got = {"id": kw["id"].value if isinstance(kw.get("id"), ast.Constant) else None,
                   "created": kw["created"].value if isinstance(kw.get("created"), ast.Constant) else None}
            tlp = norm(kw.get("definition")) if kw.get("definition") is not None else ""
            run.check(got == want and ("tlp='%s'" % color) in tlp, R, c, "predefined TLP instance differs from the specification",
                      file=m.relpath, line=b.lineno, function="<module>", expected=want, found=got)
    run.floor(R, 12)


def _chain_members(br):
    return []


def _tlp_tests(br):
    """If statements inside one colour branch (including elif chains)."""
    out = []
    for s in br.body:
        for n in walk_no_nested(s):
            if isinstance(n, ast.If):
                out.append(n)
    return out


def rule_uuid_compared_in_canonical_form(ctx, rule_id="C02.clean-contract"):
    """uuid.UUID() reads braces, a urn:uuid: prefix, missing and MISPLACED hyphens; an identifier is valid only in the plain
    hyphenated form.  _check_uuid decides that by comparing the canonical text of the parsed UUID with the text given
    (str(<UUID>) == <text>.lower()): a weaker stand-in (a length test) admits '12345678123-4-...' with the hyphens anywhere.
    The comparison is present and feeds the verdict on every non-interoperability path."""
    run = ctx.run
    prog = ctx.prog
    fi = prog.func("stix2.properties::_check_uuid")
    p0 = fi.params[0]
    objs = {norm(a.targets[0]) for a in body_walk(fi.node) if isinstance(a, ast.Assign) and isinstance(a.value, ast.Call)
            and norm(a.value.func) in ("uuid.UUID", "UUID")}
    cmps = [c for c in body_walk(fi.node) if isinstance(c, ast.Compare) and len(c.ops) == 1 and isinstance(c.ops[0], ast.Eq)
            and any(isinstance(s_, ast.Call) and call_simple_name(s_) == "str" and s_.args and norm(s_.args[0]) in objs for s_ in (c.left, c.comparators[0]))
            and any(p0 in {n_.id for n_ in ast.walk(s_) if isinstance(n_, ast.Name)} for s_ in (c.left, c.comparators[0]))]
    run.check(bool(objs) and bool(cmps), rule_id, key(fi.module.relpath, fi.qualname, "canonical-text-compared"),
              "the identifier's UUID part is not compared with the canonical text of the parsed UUID: forms uuid.UUID() tolerates "
              "(hyphens in other places, braces, urn: prefix) pass as identifiers and are emitted", file=fi.module.relpath,
              line=fi.node.lineno, function=fi.qualname, expected="str(uuid_obj) == uuid_str.lower()", found="no such comparison")
