"""C20 — confidence-scale conversions are total, monotone and round-trip.

Decided completely: the ten functions are finite decision tables; they are
extracted with sa.dectable and the five obligations per scale are discharged
by exact interval algebra over the integers.
"""
import ast

from ..dectable import IntSet, int_table, label_lookup_table, label_loop_table, label_table, normalise_scale_function, sym_int_table
from ..loader import AnalysisError
from ..report import key

MOD = "stix2.confidence.scales"
ERRS = ("ValueError",)


def run(ctx):
    run = ctx.run
    prog = ctx.prog
    spec = ctx.spec("scales.json")["scales"]
    m = prog.module(MOD)
    run.level = "proof"
    run.explanation = (
        "Each value_to_* function is reduced (syntactically, sa/dectable.py) to an ordered list of integer regions with "
        "first-match semantics and each *_to_value function to a label->value|raise map; five obligations per scale "
        "(total partition of [0,100]; refusal outside; monotone single pass through the labels; label->value->label round "
        "trip incl. refusal of unknown / value-less labels; equality with STIX 2.1 Appendix A) are decided by exact "
        "interval algebra. No code is executed. Decides the whole property for integer arguments."
    )
    run.trusted_base = ["CPython ast module", "Python chained-comparison semantics as encoded in sa/dectable.py",
                        "hand transcription of STIX 2.1 Appendix A in spec/scales.json"]
    run.assumptions = ["arguments are Python ints (the property quantifies over integers) and str labels",
                       "the ten functions are the public conversion API of stix2.confidence.scales"]
    obligations = 0
    discharged = 0
    tables = {}
    for sname, sc in sorted(spec.items()):
        fv = prog.func("%s::%s" % (MOD, sc["from_value"]))
        tv = prog.func("%s::%s" % (MOD, sc["to_value"]))
        run.anchor(fv.id, fv.where)
        run.anchor(tv.id, tv.where)
        if len(fv.params) != 1 or len(tv.params) != 1:
            raise AnalysisError("scale function signature changed: %s / %s" % (fv.id, tv.id))
        # the comparison-chain form is read directly; anything else (arithmetic on the value, table lookups) goes through
        # the symbolic reader -- both give exact regions, neither executes the code
        from ..tableeval import Evaluator as _Ev
        _ev = _Ev(prog, allow_dyn=True)

        def resolve_seq(name, _scope=fv.scope):
            try:
                v = _ev.eval(ast.Name(id=name, ctx=ast.Load()), _scope)
            except AnalysisError:
                return None
            from ..tableeval import Dyn

            def closed(x):
                if isinstance(x, Dyn):
                    return False
                if isinstance(x, (list, tuple)):
                    return all(closed(y) for y in x)
                if isinstance(x, dict):
                    return all(closed(k_) and closed(v_) for k_, v_ in x.items())
                return True
            # a table with a part the evaluator could not compute is NOT known (fail closed, never a guessed shape)
            return v if isinstance(v, (list, tuple, dict)) and closed(v) else None
        def resolve_const(name, _scope=fv.scope):
            try:
                v = _ev.eval(ast.Name(id=name, ctx=ast.Load()), _scope)
            except Exception:
                return None
            return v if isinstance(v, (str, int)) and not isinstance(v, bool) else None
        # named constants and loops over constant tables are read through (substituted / unrolled), never executed
        fv_node = normalise_scale_function(fv.node, resolve_const, resolve_seq)
        tv_node = normalise_scale_function(tv.node, resolve_const, resolve_seq)
        try:
            rows = int_table(fv_node, fv.params[0])
            # self-check of the two readers against each other (same function, two independent derivations)
            rows2 = sym_int_table(fv_node, fv.params[0], resolve_seq)

            def by_outcome(rs):
                d = {}
                for r, oc, _ln, _raw in rs:
                    d[oc] = d.get(oc, IntSet.empty()).union(r)
                return {k: v.to_json() for k, v in d.items() if not v.is_empty()}
            if by_outcome(rows) != by_outcome(rows2):
                raise AnalysisError("dectable: the chain reader and the symbolic reader disagree on %s" % fv.id)
        except AnalysisError as e:
            if "disagree" in str(e):
                raise
            rows = sym_int_table(fv_node, fv.params[0], resolve_seq)
        # labels are matched EXACTLY: the label argument is only compared (==, in), used as a lookup key, type-tested, or
        # quoted in the error message.  Any conversion on the way (int(), str(), .strip(), .lower(), float(), arithmetic)
        # makes strings that are not labels ('05', ' 7', '+3', other objects) acceptable -- decided before the table is read
        lp = tv.params[0]
        conv = []
        for x in ast.walk(tv_node):
            if not (isinstance(x, ast.Name) and x.id == lp and isinstance(x.ctx, ast.Load)):
                continue
            par = getattr(x, "parent", None)
            in_raise = False
            q = par
            while q is not None and not isinstance(q, ast.FunctionDef):
                if isinstance(q, ast.Raise):
                    in_raise = True
                q = getattr(q, "parent", None)
            if in_raise:
                continue
            if isinstance(par, ast.Compare):
                # equality / membership only: `is` compares object IDENTITY -- true for interned literals, false for an equal
                # label built at run time (decoded from JSON, sliced, joined)
                if any(isinstance(o_, (ast.Is, ast.IsNot)) for o_ in par.ops) and not all(
                        isinstance(c_, ast.Constant) and c_.value is None for c_ in [par.left] + par.comparators if c_ is not x):
                    conv.append(par)
                continue
            if isinstance(par, ast.Subscript) and par.slice is x:
                continue
            if isinstance(par, ast.Call) and isinstance(par.func, ast.Name) and par.func.id == "isinstance" and par.args and par.args[0] is x:
                continue
            if isinstance(par, ast.Call) and isinstance(par.func, ast.Attribute) and par.func.attr == "get" and par.args and par.args[0] is x \
                    and isinstance(par.func.value, ast.Name):
                continue
            conv.append(par if par is not None else x)
        obligations += 1
        if run.check(not conv, "C20.exact-labels", key(m.relpath, sc["to_value"], "label-compared-as-given"),
                     "the label is converted before it is matched: text that is not a label of the scale (or another kind of "
                     "object) is accepted instead of refused", file=m.relpath, line=conv[0].lineno if conv else tv.node.lineno,
                     function=sc["to_value"], expected="label only compared / looked up as given",
                     found=[ast.unparse(c)[:80] for c in conv]):
            discharged += 1
        else:
            continue
        try:
            ltab, ldefault = label_table(tv_node, tv.params[0])
        except AnalysisError:
            from ..tableeval import Evaluator
            ev = Evaluator(prog, allow_dyn=True)

            def resolve(name, _scope=tv.scope):
                b = prog.lookup(_scope, name)
                try:
                    v = ev.eval(ast.Name(id=name, ctx=ast.Load()), _scope)
                except AnalysisError:
                    return None
                return v if isinstance(v, dict) else None
            try:
                ltab, ldefault = label_lookup_table(tv_node, tv.params[0], resolve)
            except AnalysisError:
                ltab, ldefault = label_loop_table(tv_node, tv.params[0], resolve_seq)
        tables[sname] = {"from_value": [{"region": r.to_json(), "outcome": list(oc)} for r, oc, ln, _ in rows],
                         "to_value": {k: list(v) for k, v in ltab.items()}, "to_value_else": list(ldefault)}
        base = key(m.relpath, sc["from_value"], "")
        dom = IntSet([(0, 100)])

        # 1. total: effective 'return' regions partition [0,100]
        obligations += 1
        ret_union = IntSet.empty()
        overlap = False
        for r, oc, ln, raw in rows:
            if oc[0] == "return" and oc[1] is not None:
                ret_union = ret_union.union(r)
        missing = dom.minus(ret_union)
        ok1 = missing.is_empty()
        if run.check(ok1, "C20.total", key(m.relpath, sc["from_value"], "total-on-0..100"),
                     "integers in [0,100] without a label: %s" % missing, file=m.relpath, line=fv.node.lineno,
                     function=sc["from_value"], expected="every integer 0..100 mapped to a label", found="unmapped: %s" % missing):
            discharged += 1

        # 2. refuses outside
        obligations += 1
        outside = dom.complement()
        bad = IntSet.empty()
        for r, oc, ln, raw in rows:
            if not (oc[0] == "raise" and oc[1] in ERRS):
                bad = bad.union(r.intersect(outside))
        if run.check(bad.is_empty(), "C20.refuse-outside", key(m.relpath, sc["from_value"], "refuses-outside-0..100"),
                     "values outside [0,100] not refused with ValueError: %s" % bad, file=m.relpath, line=fv.node.lineno,
                     function=sc["from_value"], expected="ValueError for (-inf,-1] and [101,+inf)", found="accepted: %s" % bad):
            discharged += 1

        # 3. monotone: label sequence in increasing value order visits each label once, in scale order
        obligations += 1
        pieces = []
        for r, oc, ln, raw in rows:
            if oc[0] == "return":
                for lo, hi in r.intersect(dom).ivs:
                    pieces.append((lo, hi, oc[1]))
        pieces.sort()
        seq = []
        for lo, hi, lab in pieces:
            if not seq or seq[-1] != lab:
                seq.append(lab)
        want_seq = [row[0] for row in sc["rows"]]
        ok3 = len(seq) == len(set(seq)) and seq == want_seq
        if run.check(ok3, "C20.monotone", key(m.relpath, sc["from_value"], "monotone-label-order"),
                     "label sequence over increasing value", file=m.relpath, line=fv.node.lineno, function=sc["from_value"],
                     expected=want_seq, found=seq):
            discharged += 1

        # 4. round trip label -> value -> label ; unknown labels refused ; value-less labels refused
        obligations += 1
        problems = []
        for lab, oc in sorted(ltab.items()):
            if oc[0] == "return":
                v = oc[1]
                if not isinstance(v, int) or isinstance(v, bool):
                    problems.append("%r maps to non-integer %r" % (lab, v))
                    continue
                back = None
                for r, roc, ln, raw in rows:
                    if r.contains(v):
                        back = roc
                        break
                if back != ("return", lab):
                    problems.append("%r -> %r -> %r" % (lab, v, back))
        if not (ldefault[0] == "raise" and ldefault[1] in ERRS):
            problems.append("unknown labels are not refused with ValueError (else -> %r)" % (ldefault,))
        for lab in sc["no_value_labels"]:
            oc = ltab.get(lab, ldefault)
            if not (oc[0] == "raise" and oc[1] in ERRS):
                problems.append("label without a value %r is not refused" % lab)
        # every label the forward table can produce must be convertible back
        for lab in seq:
            if lab not in ltab or ltab[lab][0] != "return":
                problems.append("label %r produced by %s has no value in %s" % (lab, sc["from_value"], sc["to_value"]))
        if run.check(not problems, "C20.round-trip", key(m.relpath, sc["to_value"], "label-value-label"),
                     "; ".join(problems), file=m.relpath, line=tv.node.lineno, function=sc["to_value"],
                     expected="to_value(L)=v and from_value(v)=L for every label; unknown labels raise ValueError",
                     found=problems):
            discharged += 1

        # 5. specification
        obligations += 1
        problems = []
        for lab, lo, hi, val in sc["rows"]:
            reg = IntSet.empty()
            for r, oc, ln, raw in rows:
                if oc == ("return", lab):
                    reg = reg.union(r)
            if reg != IntSet([(lo, hi)]):
                problems.append("%r: region %s, specification [%d,%d]" % (lab, reg, lo, hi))
            got = ltab.get(lab)
            if got != ("return", val):
                problems.append("%r: value %r, specification %r" % (lab, got, val))
        extra = set(ltab) - {r[0] for r in sc["rows"]} - set(sc["no_value_labels"])
        if extra:
            problems.append("labels not in the specification: %s" % sorted(extra))
        if run.check(not problems, "C20.specification", key(m.relpath, sname, "appendix-A-table"),
                     "; ".join(problems), file=m.relpath, line=fv.node.lineno, function=sc["from_value"],
                     expected="ranges/values of STIX 2.1 Appendix A", found=problems):
            discharged += 1
    # the module must not define further conversion functions that escape the oracle
    known = {sc["to_value"] for sc in spec.values()} | {sc["from_value"] for sc in spec.values()}
    for fi in prog.functions.values():
        if fi.module is m and fi.parent_func is None and fi.cls is None and fi.name not in known and not fi.name.startswith("_"):
            raise AnalysisError("unknown public function %s in scales.py: extend spec/scales.json" % fi.name)
    run.obligations = obligations
    run.discharged = discharged
    run.extra["tables"] = tables
    run.extra["functions"] = len(known)
    run.extra["exhaustive"] = True
    run.floor("C20.exact-labels", 5)
    run.floor("C20.total", 5)
    run.floor("C20.specification", 5)
    from .hidden_state import rule_no_hidden_state
    ctx.do(rule_no_hidden_state, "C20.history-independence")
    from .pitfalls import rule_loops_not_cut_short
    ctx.do(rule_loops_not_cut_short, "C20.loops-complete")
    from .pitfalls import rule_definite_assignment
    ctx.do(rule_definite_assignment, "C20.definite-assignment")
