"""Shared rule: history independence -- no hidden state in the code a property is anchored in.

Every property quantifies over all inputs *and all histories*: the answer to a call may depend on its arguments and on the
state the API documents (registries, the content of a store), never on which calls happened before.  On the pinned tree
the package holds exactly three pieces of such state (table ALLOWED below, one reason each).  A memoising decorator, a
module-level container written from a function, a lazily initialised module global, a class-level container written from a
method, an instance attribute assigned outside the constructor, or a mutable default argument that is mutated is NEW state:
in this library every candidate for caching either consults a registry that can change, or accepts / returns mutable or
metadata-carrying objects whose equality is coarser than their behaviour (STIXdatetime compares equal across precisions;
model objects are mutable), so a cache keyed on Python equality is unsound by construction.  This is a who-may-hold-state
rule: the owner table is frozen, a new owner is reported with the construct that introduces it.
"""
import ast
import json
import os

from ..astutil import short
from ..loader import AnalysisError, body_walk, norm
from ..report import key

CACHE_DECORATORS = ("lru_cache", "cache", "cached_property", "memoize", "memoized", "cachedmethod", "cached")
MUTATORS = ("append", "add", "update", "setdefault", "pop", "popitem", "clear", "extend", "insert", "remove", "discard",
            "appendleft", "__setitem__", "__delitem__")

# (relpath, function qualname, state) -> reason
ALLOWED = {
    ("stix2/datastore/memory.py", "_ObjectFamily.add", "self.latest_version"):
        "the newest-version pointer of a family IS documented store content; it is updated by the mutator add()",
    ("stix2/equivalence/pattern/__init__.py", "_get_pattern_normalizer", "global _pattern_normalizer"):
        "lazily built chain of stateless transformer objects (no input-dependent content)",
    ("stix2/registry.py", "_collect_stix2_mappings", "STIX2_OBJ_MAPS"):
        "initialisation of the type registries, the documented process-wide state of the library",
}


# documented mutators: methods whose PURPOSE is to change the state of their object (one line each)
INSTANCE_MUTATORS_OK = {
    ("stix2.datastore.filters::FilterSet.add", "self._filters"): "FilterSet.add: the documented way to grow a filter set",
    ("stix2.datastore.filters::FilterSet.remove", "self._filters"): "FilterSet.remove",
    ("stix2.datastore.memory::_ObjectFamily.add", "self.all_versions"): "store content",
    ("stix2.datastore::CompositeDataSource.add_data_source", "self.data_sources"): "documented membership change",
    ("stix2.datastore::CompositeDataSource.remove_data_source", "self.data_sources"): "documented membership change",
    ("stix2.datastore::DataStoreMixin.add", "self.sink"): "delegates to the sink's add()",
    ("stix2.environment::ObjectFactory.set_default_created", "self._defaults"): "documented setter",
    ("stix2.environment::ObjectFactory.set_default_creator", "self._defaults"): "documented setter",
    ("stix2.environment::ObjectFactory.set_default_external_refs", "self._defaults"): "documented setter",
    ("stix2.environment::ObjectFactory.set_default_object_marking_refs", "self._defaults"): "documented setter",
    ("stix2.patterns::ObjectPath.merge", "self.property_path"): "documented in-place merge of two paths",
}


def anchor_modules(ctx, prop):
    """relpaths of the modules the property is anchored in (properties.jsonl) plus those its rule instances lie in"""
    here = os.path.dirname(os.path.dirname(os.path.dirname(os.path.abspath(__file__))))
    files = set()
    with open(os.path.join(here, "properties.jsonl")) as f:
        for line in f:
            p = json.loads(line)
            if p["id"] == prop:
                for a in p["anchors"]["files"]:
                    files.add(a)
    for inst in ctx.run.instances:
        part = inst.construct.split("::")[0]
        if part.endswith(".py"):
            files.add(part)
    out = []
    for m in ctx.prog.modules.values():
        if m.relpath.startswith("stix2/test"):
            continue
        if any(m.relpath == a or (a.endswith("/") and m.relpath.startswith(a)) for a in files):
            out.append(m)
    return sorted(out, key=lambda m: m.name)


def _module_level_names(m):
    names = set()
    for s in m.tree.body:
        if isinstance(s, ast.Assign):
            for t in s.targets:
                if isinstance(t, ast.Name):
                    names.add(t.id)
        elif isinstance(s, ast.AnnAssign) and isinstance(s.target, ast.Name):
            names.add(s.target.id)
    return names


def find_state(prog, m):
    """[(function info, state text, node, kind)] state-introducing constructs in module m"""
    out = []
    modnames = _module_level_names(m)
    # long-lived classes only: a class defined inside a builder function is an object under construction there
    classnames = {c.name for c in prog.classes.values() if c.module is m and getattr(c, "parent_func", None) is None}
    for fi in sorted((f for f in prog.functions.values() if f.module is m), key=lambda f: f.id):
        node = fi.node
        for d in getattr(node, "decorator_list", []):
            t = norm(d.func if isinstance(d, ast.Call) else d)
            if t.split(".")[-1] in CACHE_DECORATORS:
                out.append((fi, "@" + t, d, "memoising decorator"))
        # mutable default argument that the body mutates
        args = getattr(node, "args", None)
        if args is not None:
            defaults = list(zip([a.arg for a in args.args][-len(args.defaults):] if args.defaults else [], args.defaults))
            defaults += [(a.arg, d_) for a, d_ in zip(args.kwonlyargs, args.kw_defaults) if d_ is not None]
            for pname, dv in defaults:
                if isinstance(dv, (ast.Dict, ast.List, ast.Set)) or (isinstance(dv, ast.Call) and norm(dv.func).split(".")[-1] in (
                        "dict", "list", "set", "OrderedDict", "defaultdict")):
                    for x in body_walk(node):
                        if (isinstance(x, ast.Call) and isinstance(x.func, ast.Attribute) and x.func.attr in MUTATORS
                                and isinstance(x.func.value, ast.Name) and x.func.value.id == pname) or (
                                isinstance(x, ast.Assign) and any(isinstance(t, ast.Subscript) and isinstance(t.value, ast.Name)
                                                                   and t.value.id == pname for t in x.targets)):
                            out.append((fi, "default %s=%s" % (pname, norm(dv)), x, "mutable default argument that is mutated"))
                            break
            # a default that CONSTRUCTS an object is evaluated once: every call that omits the argument gets the same instance
            # (Environment(factory=ObjectFactory()): set_default_creator on one environment changes what all others create)
            for pname, dv in defaults:
                if isinstance(dv, ast.Call) and norm(dv.func).split(".")[-1] not in (
                        "dict", "list", "set", "OrderedDict", "defaultdict", "frozenset", "tuple", "object", "int", "str", "float", "bool"):
                    cal = prog.deref(prog.resolve_expr(fi.scope, dv.func)) if isinstance(dv.func, (ast.Name, ast.Attribute)) else None
                    if hasattr(cal, "methods"):       # a class of the package
                        out.append((fi, "default %s=%s" % (pname, norm(dv)), dv, "one object constructed as a default argument is shared by every call"))
        local_names = set(fi.all_param_names())
        for x in body_walk(node):
            if isinstance(x, (ast.Assign, ast.AnnAssign)):
                for t in (x.targets if isinstance(x, ast.Assign) else [x.target]):
                    if isinstance(t, ast.Name):
                        local_names.add(t.id)
        # names that denote the CLASS inside a method: the classmethod parameter, and locals bound to self.__class__ / type(self)
        class_aliases = set()
        if fi.cls is not None:
            if "cls" in fi.params[:1]:
                class_aliases.add("cls")
            for x in body_walk(node):
                if isinstance(x, ast.Assign) and len(x.targets) == 1 and isinstance(x.targets[0], ast.Name) \
                        and norm(x.value) in ("self.__class__", "type(self)"):
                    class_aliases.add(x.targets[0].id)
        globals_declared = set()
        for x in body_walk(node):
            if isinstance(x, ast.Global):
                for nme in x.names:
                    globals_declared.add(nme)
                    out.append((fi, "global %s" % nme, x, "module global assigned from a function"))
        for x in body_walk(node):
            targets = []
            if isinstance(x, ast.Assign):
                targets = x.targets
            elif isinstance(x, (ast.AugAssign, ast.AnnAssign)):
                targets = [x.target]
            for t in targets:
                base = t
                while isinstance(base, (ast.Subscript, ast.Attribute)) and not (
                        isinstance(base, ast.Attribute) and isinstance(base.value, ast.Name) and base.value.id in ("self", "cls")):
                    if isinstance(base, ast.Attribute) and isinstance(base.value, ast.Name):
                        break
                    base = base.value
                # module-level container written:  NAME[...] = v
                if isinstance(t, ast.Subscript):
                    root = t
                    while isinstance(root, ast.Subscript):
                        root = root.value
                    if isinstance(root, ast.Name) and root.id in modnames and root.id not in (local_names - globals_declared):
                        out.append((fi, root.id, x, "module-level container written from a function"))
                    if isinstance(root, ast.Attribute) and isinstance(root.value, ast.Name) and (
                            root.value.id in classnames or (root.value.id == "cls" and fi.cls is not None and "cls" in fi.params[:1])) \
                            and fi.name not in ("__init_subclass__",):
                        out.append((fi, norm(root), x, "class-level container written from a method"))
                    if isinstance(root, ast.Attribute) and isinstance(root.value, ast.Name) and root.value.id == "self" \
                            and fi.cls is not None and fi.name not in ("__init__", "__new__") \
                            and (fi.id, norm(root)) not in INSTANCE_MUTATORS_OK and not _is_cache_like(root.attr) \
                            and not any(getattr(k_, "name", None) == "Property" for k_ in (fi.cls.mro or [])):
                        out.append((fi, norm(root), x, "container held on the instance filled by a method"))
                    if isinstance(root, ast.Attribute) and isinstance(root.value, ast.Name) and root.value.id == "self" \
                            and fi.cls is not None and (_is_cache_like(root.attr) or (fi.name not in ("__init__", "__new__") and any(
                                getattr(k_, "name", None) == "Property" for k_ in (fi.cls.mro or [])))):
                        out.append((fi, norm(root), x, "instance cache written"))
                # instance attribute assigned outside the constructor
                if isinstance(t, ast.Attribute) and isinstance(t.value, ast.Name) and t.value.id == "self" and fi.cls is not None \
                        and fi.name not in ("__init__", "__new__", "__setattr__", "__setstate__"):
                    out.append((fi, "self." + t.attr, x, "instance attribute assigned outside the constructor"))
                if isinstance(t, ast.Attribute) and isinstance(t.value, ast.Name) and (
                        t.value.id in classnames or t.value.id in class_aliases) \
                        and fi.name not in ("__init_subclass__",):
                    out.append((fi, "%s.%s" % ("cls" if t.value.id in class_aliases else t.value.id, t.attr), x, "class attribute assigned from a method"))
                if isinstance(t, ast.Attribute) and fi.cls is not None and norm(t.value) in ("self.__class__", "type(self)"):
                    out.append((fi, "cls.%s" % t.attr, x, "class attribute assigned from a method"))
                if isinstance(t, ast.Attribute) and isinstance(t.value, ast.Name) and t.value.id == fi.name and fi.cls is None:
                    out.append((fi, norm(t), x, "function attribute used as storage"))
            if isinstance(x, ast.Call) and isinstance(x.func, ast.Attribute) and x.func.attr in MUTATORS:
                recv = x.func.value
                root = recv
                while isinstance(root, ast.Subscript):
                    root = root.value
                # any object: a container held on self and filled by a method that is not a documented mutator is memory of
                # earlier calls (a per-pattern constant pool, a per-source index, ...)
                if isinstance(root, ast.Attribute) and isinstance(root.value, ast.Name) and root.value.id == "self" \
                        and fi.cls is not None and fi.name not in ("__init__", "__new__") \
                        and (fi.id, norm(root)) not in INSTANCE_MUTATORS_OK \
                        and not any(getattr(k_, "name", None) == "Property" for k_ in (fi.cls.mro or [])):
                    out.append((fi, norm(root), x, "container held on the instance filled by a method"))
                # a property object (validator) is shared by every instance of its type and lives as long as the process:
                # a container on it that a method fills is memory of earlier inputs
                if isinstance(root, ast.Attribute) and isinstance(root.value, ast.Name) and root.value.id == "self" \
                        and fi.cls is not None and fi.name not in ("__init__", "__new__") \
                        and any(getattr(k_, "name", None) == "Property" for k_ in (fi.cls.mro or [])):
                    out.append((fi, norm(root), x, "container of a shared property object mutated by a method"))
                if isinstance(root, ast.Name) and root.id in modnames and root.id not in (local_names - globals_declared):
                    out.append((fi, root.id, x, "module-level container mutated from a function"))
                if isinstance(root, ast.Attribute) and isinstance(root.value, ast.Name) and (
                        root.value.id in classnames or (root.value.id == "cls" and fi.cls is not None and "cls" in fi.params[:1])):
                    out.append((fi, norm(root), x, "class-level container mutated from a method"))
        # a container defined in the CLASS BODY, mutated through `self.<name>`: unless the method first rebinds the name on the
        # instance to a fresh object (self._properties = copy.deepcopy(self._properties)), the mutation lands in the class --
        # every later instance of the type sees it (v20 MarkingDefinition swaps the `created` validator for millisecond precision
        # that way; on the shared dictionary every later marking definition would be truncated)
        if fi.cls is not None:
            out.extend(_class_container_through_self(prog, fi))
    return out


_FRESH_CALLS = ("deepcopy", "copy", "dict", "list", "set", "OrderedDict", "defaultdict", "ChainMap")


def _class_level_containers(cls):
    names = set()
    for k_ in [cls] + [b for b in (cls.mro or []) if hasattr(b, "node")]:
        for st in getattr(k_.node, "body", []):
            if isinstance(st, ast.Assign) and len(st.targets) == 1 and isinstance(st.targets[0], ast.Name):
                v = st.value
                if isinstance(v, (ast.Dict, ast.List, ast.Set)) or (isinstance(v, ast.Call) and norm(v.func).split(".")[-1] in (
                        "dict", "list", "set", "OrderedDict", "defaultdict")):
                    names.add(st.targets[0].id)
    return names


def _class_container_through_self(prog, fi):
    from ..cfg import cfg_of
    out = []
    names = _class_level_containers(fi.cls)
    if not names:
        return out
    muts = []
    for x in body_walk(fi.node):
        root = None
        if isinstance(x, ast.Call) and isinstance(x.func, ast.Attribute) and x.func.attr in MUTATORS:
            root = x.func.value
        elif isinstance(x, (ast.Assign, ast.AugAssign, ast.Delete)):
            for t in (x.targets if not isinstance(x, ast.AugAssign) else [x.target]):
                if isinstance(t, ast.Subscript):
                    root = t.value
        while isinstance(root, ast.Subscript):
            root = root.value
        if isinstance(root, ast.Attribute) and isinstance(root.value, ast.Name) and root.value.id == "self" and root.attr in names:
            muts.append((x, root.attr))
    if not muts:
        return out
    g = cfg_of(fi)
    dom = g.dominators()
    for x, attr in muts:
        fresh = []
        for a_ in body_walk(fi.node):
            if isinstance(a_, ast.Assign) and any(isinstance(t, ast.Attribute) and isinstance(t.value, ast.Name) and t.value.id == "self"
                                                  and t.attr == attr for t in a_.targets):
                v = a_.value
                if isinstance(v, (ast.Dict, ast.List, ast.Set, ast.DictComp, ast.ListComp, ast.SetComp)) or (
                        isinstance(v, ast.Call) and norm(v.func).split(".")[-1] in _FRESH_CALLS):
                    fresh.append(a_)
        mn = g.stmt_node_containing(x)
        if not any(g.node_of(a_) is not None and mn is not None and g.node_of(a_) in dom[mn] for a_ in fresh):
            out.append((fi, "self.%s" % attr, x, "container of the CLASS mutated through self without a fresh instance copy"))
    return out


def _is_cache_like(attr):
    a = attr.lower()
    return any(k in a for k in ("cache", "memo", "_seen", "_known", "_resolved", "_index"))


def rule_no_hidden_state(ctx, rule_id):
    run = ctx.run
    prog = ctx.prog
    prop = rule_id.split(".")[0]
    mods = anchor_modules(ctx, prop)
    if not mods:
        raise AnalysisError("history independence: no anchored module found for %s" % prop)
    n = 0
    seen = set()
    for m in mods:
        found = find_state(prog, m)
        by_fn = {}
        for fi, state, node, kind in found:
            by_fn.setdefault((fi.qualname, state), (fi, node, kind))
        for (qual, state), (fi, node, kind) in sorted(by_fn.items()):
            k = (m.relpath, qual, state)
            if k in seen:
                continue
            seen.add(k)
            n += 1
            if k in ALLOWED:
                run.ok(rule_id, key(m.relpath, qual, "state:%s" % state), ALLOWED[k])
                continue
            run.violation(rule_id, key(m.relpath, qual, "state:%s" % state),
                          "new hidden state (%s): what this code answers now depends on which calls happened before, not only on "
                          "its arguments and the documented state (registries, store content). A memo keyed on Python equality "
                          "is unsound here: registries change, model objects are mutable, STIXdatetime values compare equal "
                          "across precisions" % kind, file=m.relpath, line=getattr(node, "lineno", fi.node.lineno),
                          function=qual, expected="no state besides the %d frozen owners (sa/rules/hidden_state.py ALLOWED)" % len(ALLOWED),
                          found=short(node, 140))
        # a module with no state at all still counts as examined
        run.ok(rule_id, key(m.relpath, "<module>", "examined-for-hidden-state"))
    run.extra["modules_examined_for_hidden_state"] = len(mods)
    return n
