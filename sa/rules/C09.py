"""C09 — pattern equivalence is a total, sound equivalence relation (structural clauses).

Decides totality and symmetry preconditions: every AST class / operator the
visitor can produce has a handler in every dispatch table of its category; the
special-value canonicalisers only apply string operations to string constants;
every two-argument comparator is antisymmetric (mirror check by symbolic
execution over its atomic conditions); the normalisation pipeline has the
documented shape; both entry points use the same normaliser and decider; set
literals and numeric constants are compared order-/kind-insensitively.
Soundness w.r.t. the matching semantics and transitivity are NOT decided.
"""
import ast

from ..astutil import call_simple_name, dotted, guard_chain, names_in, pm, pmall, returns_of, short
from ..cfg import cfg_of
from ..forward import flow_of
from ..loader import AnalysisError, ClassInfo, External, FunctionInfo, body_walk, norm, walk_no_nested
from ..mirror import check_antisymmetric
from ..report import key
from ..tableeval import ClassRef, Evaluator

PROP = "C09"
PV = "stix2.pattern_visitor"
PAT = "stix2.patterns"
EQ = "stix2.equivalence.pattern"
CC = EQ + ".compare.comparison"
CO = EQ + ".compare.observation"
TC = EQ + ".transform.comparison"
TO = EQ + ".transform.observation"
SP = EQ + ".transform.specials"


def rule_path_steps_disjoint(ctx):
    """Object paths are compared step by step on "raw values" (object_path_to_raw_values): key steps become strings, index
    steps become ints.  The wildcard index step `[*]` must become something that is NOT a string, or it is indistinguishable
    from a key step spelled '*': `[a:b[*] = 1]` (any element of list b) and `[a:b.'*' = 1]` (entry '*' of dictionary b) are
    then reported equivalent -- unsound.  In the index branch of the function every yielded value is an int conversion, a value
    known to be an int, or a module-level sentinel; never a value its own guard compares with a string."""
    run = ctx.run
    prog = ctx.prog
    R = "C09.type-guard"
    fi = prog.func("stix2.equivalence.pattern.compare.comparison::object_path_to_raw_values")
    branches = [x for x in body_walk(fi.node) if isinstance(x, ast.If) and "isinstance(" in norm(x.test) and "ListObjectPathComponent" in norm(x.test)]
    if len(branches) != 1:
        raise AnalysisError("object_path_to_raw_values: the index-step branch was not found")
    ys = [y for st_ in branches[0].body for y in ast.walk(st_) if isinstance(y, ast.Yield)]
    if len(ys) < 2:
        raise AnalysisError("object_path_to_raw_values: fewer than 2 yields in the index-step branch")
    modnames = {t.id for st_ in fi.module.tree.body if isinstance(st_, ast.Assign) for t in st_.targets if isinstance(t, ast.Name)}
    bad = []
    for y in ys[1:]:            # the first is the key the index applies to
        v = y.value
        if isinstance(v, ast.Call) and norm(v.func) == "int":
            continue
        if isinstance(v, ast.Name) and v.id in modnames:
            continue
        txt = norm(v)
        str_tests = [norm(t) for t, pol, _ in guard_chain(y, stop=branches[0]) if pol and any(
            isinstance(c_, ast.Constant) and isinstance(c_.value, str) for c_ in ast.walk(t)) and txt in norm(t)]
        int_only = [norm(t) for t, pol, _ in guard_chain(y, stop=branches[0]) if pol and norm(t) == "isinstance(%s, int)" % txt]
        if str_tests or not int_only:
            bad.append("%s under %s" % (txt, str_tests or "no int test"))
    run.check(not bad, R, key(fi.module.relpath, fi.qualname, "index-and-key-steps-disjoint"),
              "an index step can be turned into a STRING raw value (the wildcard '*'): it compares equal to a key step with that "
              "spelling, so [a:b[*] = 1] and [a:b.'*' = 1] -- different meanings -- are reported equivalent", file=fi.module.relpath,
              line=ys[1].lineno, function=fi.qualname, expected="ints for numeric steps, a non-string sentinel for [*]", found=bad)


def run(ctx):
    run = ctx.run
    run.explanation = (
        "Set inclusion producers ⊆ handlers between the class names the parse-tree visitor instantiates (string literals of "
        "self.instantiate(...)), the operator strings of the comparison subclasses, and every dispatch table / isinstance chain "
        "of the equivalence code (transform(), _dupe_ast x2, _DISPATCH_NAME_MAP, the type-order tuples, comparator tables, "
        "operator order); dominance of a string-constant test over string operations in specials.py; antisymmetry of the 15 "
        "comparators by symbolic execution with both argument orders over all consistent truth assignments of their atomic "
        "conditions; sub-sequence shape of the two normalisation pipelines; same normaliser/comparator/decision in both entry "
        "points. Soundness and transitivity of the relation are not decided."
    )
    run.trusted_base = ["CPython ast", "sa/mirror.py symbolic executor and its domain constraints (total orders, disjoint classes)"]
    run.assumptions = ["callback comparators passed to iter_lex_cmp/iter_in are themselves in the checked comparator set"]
    ctx.do(rule_producers_handlers)
    ctx.do(rule_type_guard)
    ctx.do(rule_value_operators_only)
    ctx.do(rule_comparator_mirror)
    ctx.do(rule_pipeline)
    ctx.do(rule_same_decider)
    ctx.do(rule_sets_and_numbers)
    ctx.do(rule_copy_complete)
    ctx.do(rule_mask_arithmetic)
    ctx.do(rule_absorption_same_connective)
    ctx.do(rule_repeats_does_not_distribute)
    ctx.do(rule_followedby_containment_consumes)
    ctx.do(rule_changed_flag)
    ctx.do(rule_flag_returned)
    ctx.do(rule_lexicographic_chains)
    ctx.do(rule_address_parsers_guarded)
    ctx.do(rule_distribution_recurses)
    ctx.do(rule_distinct_bindings)
    from .pitfalls import rule_groupby_sorted, rule_single_use_iterators
    ctx.do(rule_groupby_sorted, "C09.iterator-pitfalls", ("stix2.equivalence.pattern",))
    ctx.do(rule_single_use_iterators, "C09.iterator-pitfalls", ("stix2.equivalence.pattern",))
    ctx.do(rule_path_steps_disjoint)
    # what the equivalence test compares is the model the parser builds: every operand of a chain is seen by the constructor
    from . import C10
    ctx.do(C10.rule_nodes_built_by_constructors, rule_id="C09.type-guard")
    # ... and a float constant is a number: two literals beyond the double range must not both become inf (and compare equal)
    ctx.do(C10.rule_float_constant_finite, "C09.sets-and-numbers")
    from .pitfalls import rule_index_deletion_descending

    def _deletions(ctx_):
        if rule_index_deletion_descending(ctx_, "C09.iterator-pitfalls", ("stix2.equivalence",)) < 2:
            raise AnalysisError("fewer than 2 delete-by-position loops in the absorption transformers: anchors lost")
    ctx.do(_deletions)
    from .pitfalls import rule_loop_flags_monotone
    ctx.do(rule_loop_flags_monotone, "C09.changed-accumulates", ("stix2.equivalence",))
    from .hidden_state import rule_no_hidden_state
    ctx.do(rule_no_hidden_state, "C09.history-independence")
    from .pitfalls import rule_loops_not_cut_short
    ctx.do(rule_loops_not_cut_short, "C09.loops-complete")
    from .pitfalls import rule_definite_assignment
    ctx.do(rule_definite_assignment, "C09.definite-assignment")


def producers(prog):
    """class names instantiated by the visitor -> ClassInfo, with call sites"""
    vis = prog.cls(PV + "::STIXPatternVisitorForSTIX2")
    patmod = prog.module(PAT)
    out = {}
    n_sites = 0
    for f in vis.methods.values():
        for c in body_walk(f.node):
            if isinstance(c, ast.Call) and isinstance(c.func, ast.Attribute) and c.func.attr == "instantiate" and c.args:
                a0 = c.args[0]
                if not (isinstance(a0, ast.Constant) and isinstance(a0.value, str)):
                    raise AnalysisError("visitor: instantiate() with a non-literal class name at line %d" % c.lineno)
                n_sites += 1
                d = prog.lookup(patmod.scope, a0.value)
                out.setdefault(a0.value, (d, []))[1].append((f, c))
    return out, n_sites


def class_tuple(prog, modname, name):
    ev = Evaluator(prog)
    m = prog.module(modname)
    b = m.scope.lookup_local(name)
    if b is None:
        raise AnalysisError("anchor missing: %s.%s" % (modname, name))
    v = ev.eval(b.value, m.scope)
    return v, b, m


def isinstance_classes(prog, fi, var=None):
    """classes named in isinstance(<var>, X) tests of the top-level if/elif chain(s) of fi"""
    out = []
    for n in body_walk(fi.node):
        if isinstance(n, ast.Call) and call_simple_name(n) == "isinstance" and len(n.args) == 2:
            if var is not None and norm(n.args[0]) != var:
                continue
            ts = n.args[1].elts if isinstance(n.args[1], ast.Tuple) else [n.args[1]]
            for t in ts:
                d = prog.deref(prog.resolve_expr(fi.scope, t))
                if isinstance(d, ClassInfo):
                    out.append(d)
    return out


def rule_producers_handlers(ctx):
    run = ctx.run
    prog = ctx.prog
    R = "C09.producers-handlers"
    prods, n_sites = producers(prog)
    run.extra["instantiate_sites"] = n_sites
    run.extra["producible_classes"] = sorted(prods)
    P = lambda n: prog.cls("%s::%s" % (PAT, n))   # noqa: E731
    obs_base = [P("ObservationExpression"), P("_CompoundObservationExpression"), P("QualifiedObservationExpression")]
    cmp_base = [P("_ComparisonExpression"), P("_BooleanExpression")]
    const_base = P("_Constant")
    qual_base = P("_ExpressionQualifier")
    paren = P("ParentheticalExpression")
    cats = {"observation": [], "comparison": [], "constant": [], "qualifier": [], "path": [], "paren": []}
    for name, (d, sites) in sorted(prods.items()):
        c = key(prog.module(PV).relpath, "STIXPatternVisitorForSTIX2", "instantiate:%s" % name)
        if not isinstance(d, ClassInfo):
            run.violation(R, c, "the visitor instantiates %r, which is not a class of stix2.patterns (KeyError in get_class)" % name,
                          file=sites[0][0].module.relpath, line=sites[0][1].lineno, function=sites[0][0].qualname,
                          expected="class of stix2.patterns", found=None)
            continue
        run.ok(R, c)
        if d is paren:
            cats["paren"].append(d)
        elif any(b in d.mro for b in obs_base):
            cats["observation"].append(d)
        elif any(b in d.mro for b in cmp_base):
            cats["comparison"].append(d)
        elif const_base in d.mro:
            cats["constant"].append(d)
        elif qual_base in d.mro:
            cats["qualifier"].append(d)
        else:
            cats["path"].append(d)

    def need(ok, what, where_f, cls, detail):
        rel = where_f.module.relpath if hasattr(where_f, "module") else where_f
        run.check(ok, R, key(rel, what, cls.name), "%s %s: %s — the equivalence test fails with TypeError/ValueError for "
                  "patterns using it" % (cls.name, "is producible by the parser but has no handler in", detail),
                  file=rel, line=getattr(getattr(where_f, "node", None), "lineno", None), function=what,
                  expected="%s handled" % cls.name, found="no entry")

    # observation classes
    ot = prog.cls(TO + "::ObservationExpressionTransformer").methods["transform"]
    ot_classes = isinstance_classes(prog, ot, "ast")
    od = prog.func(TO + "::_dupe_ast")
    od_classes = isinstance_classes(prog, od, "ast")
    order, ob, om = class_tuple(prog, CO, "_OBSERVATION_EXPRESSION_TYPE_ORDER")
    order_cls = [x.cls for x in order if isinstance(x, ClassRef)]
    disp = prog.cls(TO + "::ObservationExpressionTransformer").scope.lookup_local("_DISPATCH_NAME_MAP")
    ev = Evaluator(prog)
    disp_v = ev.eval(disp.value, prog.cls(TO + "::ObservationExpressionTransformer").scope)
    disp_cls = [k.cls for k in disp_v if isinstance(k, ClassRef)]
    for c in cats["observation"]:
        need(any(b in c.mro for b in ot_classes), "ObservationExpressionTransformer.transform", ot, c, "isinstance chain of transform()")
        need(any(b in c.mro for b in od_classes), "observation._dupe_ast", od, c, "_dupe_ast (DNF distribution)")
        need(c in order_cls, "_OBSERVATION_EXPRESSION_TYPE_ORDER", om.relpath, c, "type order used by observation_expression_cmp (exact type lookup)")
        need(c in disp_cls, "_DISPATCH_NAME_MAP", ot, c, "transformer dispatch map (exact type lookup; falls to transform_default silently)")
    for c in cats["paren"]:
        need(c in ot_classes, "ObservationExpressionTransformer.transform", ot, c, "parenthetical nodes must be dropped by transform()")
    # comparison classes
    ct = prog.cls(TC + "::ComparisonExpressionTransformer").methods["transform"]
    ct_classes = isinstance_classes(prog, ct, "ast")
    cd = prog.func(TC + "::_dupe_ast")
    cd_classes = isinstance_classes(prog, cd, "ast")
    for c in cats["comparison"]:
        need(any(b in c.mro for b in ct_classes), "ComparisonExpressionTransformer.transform", ct, c, "isinstance chain of transform()")
        need(any(b in c.mro for b in cd_classes), "comparison._dupe_ast", cd, c, "_dupe_ast (DNF distribution)")
    need(paren in ct_classes, "ComparisonExpressionTransformer.transform", ct, paren, "parenthetical nodes must be dropped by transform()")
    # constants
    corder, cb, cm = class_tuple(prog, CC, "_CONSTANT_TYPE_ORDER")
    corder_cls = [x.cls for x in corder if isinstance(x, ClassRef)]
    ccomp, ccb, _ = class_tuple(prog, CC, "_CONSTANT_COMPARATORS")
    ccomp_cls = [k.cls for k in ccomp if isinstance(k, ClassRef)]
    cc = prog.func(CC + "::constant_cmp")
    numeric = set(isinstance_classes(prog, cc))
    for c in cats["constant"]:
        if c in numeric:
            run.ok(R, key(cm.relpath, "constant_cmp", c.name), "numeric branch")
            continue
        need(c in corder_cls, "_CONSTANT_TYPE_ORDER", cm.relpath, c, "constant type order (exact type lookup: ValueError from .index)")
        need(c in ccomp_cls, "_CONSTANT_COMPARATORS", cm.relpath, c, "constant comparator table")
    # qualifiers
    qorder, qb, qm = class_tuple(prog, CO, "_QUALIFIER_TYPE_ORDER")
    qorder_cls = [x.cls for x in qorder if isinstance(x, ClassRef)]
    qcomp, _, _ = class_tuple(prog, CO, "_QUALIFIER_COMPARATORS")
    qcomp_cls = [k.cls for k in qcomp if isinstance(k, ClassRef)]
    for c in cats["qualifier"]:
        need(c in qorder_cls, "_QUALIFIER_TYPE_ORDER", qm.relpath, c, "qualifier type order")
        need(c in qcomp_cls, "_QUALIFIER_COMPARATORS", qm.relpath, c, "qualifier comparator table")
    # operator strings
    oporder, opb, opm = class_tuple(prog, CC, "_COMPARISON_OP_ORDER")
    base_init = P("_ComparisonExpression").methods["__init__"]
    ops = {}
    for c in prog.subclasses(P("_ComparisonExpression"), strict=True):
        init = c.methods.get("__init__")
        if init is None:
            continue
        for call in body_walk(init.node):
            if isinstance(call, ast.Call) and isinstance(call.func, ast.Attribute) and call.func.attr == "__init__" and call.args \
                    and isinstance(call.args[0], ast.Constant):
                ops[c.name] = call.args[0].value
    # operators assigned inside the base constructor ('IN' for '=' with a list)
    for n in body_walk(base_init.node):
        if isinstance(n, ast.Assign) and norm(n.targets[0]) == "self.operator" and isinstance(n.value, ast.Constant):
            ops["_ComparisonExpression(%s)" % n.value.value] = n.value.value
    run.extra["operators"] = ops
    for cname, op in sorted(ops.items()):
        run.check(op in oporder, R, key(opm.relpath, "_COMPARISON_OP_ORDER", "%s:%s" % (cname, op)),
                  "operator %r of %s is missing from the operator order: comparison_operator_cmp raises ValueError when two "
                  "comparisons on the same path are ordered" % (op, cname), file=opm.relpath, line=opb.lineno,
                  function="_COMPARISON_OP_ORDER", expected="member", found=list(oporder))
    run.floor(R, 60)


def _implies_atom(test, is_atom):
    """does the boolean expression imply an atom satisfying is_atom?  (every disjunct of its DNF contains one)"""
    def dnf(e):
        if isinstance(e, ast.BoolOp) and isinstance(e.op, ast.Or):
            out = []
            for v in e.values:
                out += dnf(v)
            return out
        if isinstance(e, ast.BoolOp) and isinstance(e.op, ast.And):
            acc = [[]]
            for v in e.values:
                acc = [a + b for a in acc for b in dnf(v)]
            return acc
        return [[e]]
    return all(any(is_atom(a) for a in conj) for conj in dnf(test))


def rule_type_guard(ctx):
    run = ctx.run
    prog = ctx.prog
    R = "C09.type-guard"
    for fname in ("ipv4_addr", "ipv6_addr", "windows_reg_key"):
        fi = prog.func("%s::%s" % (SP, fname))
        rel = fi.module.relpath
        p = fi.params[0]
        g = cfg_of(fi)
        # string operations on <p>.rhs.value (directly or through a local bound to it)
        aliases = {"%s.rhs.value" % p}
        for n in body_walk(fi.node):
            if isinstance(n, ast.Assign) and isinstance(n.targets[0], ast.Name) and norm(n.value) == "%s.rhs.value" % p:
                aliases.add(n.targets[0].id)
        uses = []
        for n in body_walk(fi.node):
            if isinstance(n, ast.Attribute) and norm(n.value) in aliases and isinstance(getattr(n, "parent", None), ast.Call) \
                    and n.parent.func is n and n.attr in ("find", "lower", "upper", "split", "startswith", "endswith", "strip", "index", "replace"):
                uses.append(n)
            if isinstance(n, ast.Subscript) and norm(n.value) in aliases and isinstance(n.slice, ast.Slice):
                uses.append(n)
        if not uses:
            run.info(R, key(rel, fi.qualname, "string-ops-on-constant"), "no string operation on the constant")
            continue

        def is_guard(n):
            if n.kind != "test" or not isinstance(n.ast, ast.If):
                return False
            t = norm(n.ast.test)
            return ("isinstance(%s.rhs, StringConstant)" % p) in t or ("isinstance(%s.rhs.value, str)" % p) in t \
                or any(("isinstance(%s, str)" % a) in t for a in aliases)
        bad = None
        for u in uses:
            sn = g.stmt_node_containing(u)
            # the use must only be reachable through the true branch of a string test
            guards = [n for n in g.nodes if is_guard(n)]
            ok = False
            for gn in guards:
                # the guard's test must be positive on the path: use inside its body, or guard is `if not ...: return`
                inside = any(u is x or u in list(ast.walk(x)) for s in gn.ast.body for x in [s])
                # the test must IMPLY the string test: in `isinstance(..) and A or B` the B alternative is unguarded
                if inside and not _implies_atom(gn.ast.test, lambda a_: "isinstance(" in norm(a_) and (
                        "StringConstant" in norm(a_) or ", str)" in norm(a_))):
                    inside = False
                neg_exit = isinstance(gn.ast.test, ast.UnaryOp) and isinstance(gn.ast.test.op, ast.Not) and gn.ast.body \
                    and isinstance(gn.ast.body[-1], (ast.Return, ast.Raise)) and gn in g.dominators()[sn]
                conj = isinstance(gn.ast.test, ast.BoolOp) and isinstance(gn.ast.test.op, ast.And) and inside
                if (inside and not (isinstance(gn.ast.test, ast.UnaryOp) and isinstance(gn.ast.test.op, ast.Not))) or neg_exit or conj:
                    ok = True
            if not ok:
                bad = u
                break
        run.check(bad is None, R, key(rel, fi.qualname, "string-ops-on-constant"),
                  "string operations are applied to the comparison constant without testing that it is a string constant: "
                  "[%s:value = 1] or ... IN (...) makes the equivalence test fail with AttributeError" % fname.replace("_addr", "-addr"),
                  file=rel, line=bad.lineno if bad is not None else fi.node.lineno, function=fi.qualname,
                  expected="isinstance(comp_expr.rhs, StringConstant) dominating the use", found=short(bad) if bad is not None else None)


def rule_value_operators_only(ctx):
    """The special-value canonicalisations (CIDR masking, inet_aton normalisation, lower-casing registry keys) rewrite the
    constant as a VALUE.  Under MATCHES the constant is a regular expression and under LIKE a template: rewriting '127.1' to
    '127.0.0.1' or '\\S' to '\\s' changes what they match -- two patterns of different meaning compare equivalent.  The
    dispatch must exclude both operators."""
    run = ctx.run
    prog = ctx.prog
    R = "C09.value-operators-only"
    fi = prog.cls(TC + "::SpecialValueCanonicalization").methods.get("transform_comparison")
    if fi is None:
        raise AnalysisError("anchor missing: SpecialValueCanonicalization.transform_comparison")
    p = fi.params[1]
    calls = [c for c in body_walk(fi.node) if isinstance(c, ast.Call) and call_simple_name(c) in ("windows_reg_key", "ipv4_addr", "ipv6_addr")]
    if len(calls) < 3:
        raise AnalysisError("SpecialValueCanonicalization: dispatch to the three special functions not found")
    g = cfg_of(fi)
    dom = g.dominators()

    def excludes(n):
        if n.kind != "test" or not isinstance(n.ast, ast.If):
            return False
        t = norm(n.ast.test)
        # ... and the four order operators: strings are ordered as TEXT, and the canonical text ('1.2.3.4' for '1.2.3.4/32',
        # a lower-cased registry key) sorts differently from the text as written
        return ("%s.operator" % p) in t and all(("'%s'" % o_) in t for o_ in ("MATCHES", "LIKE", "<", ">", "<=", ">="))
    bad = []
    for c in calls:
        sn = g.stmt_node_containing(c)
        guards = [n for n in g.nodes if excludes(n) and n in dom[sn]]
        ok = False
        for gn in guards:
            pos_in = " in " in norm(gn.ast.test) and " not in " not in norm(gn.ast.test)
            in_body = any(c is x or c in list(ast.walk(x)) for x in gn.ast.body)
            exits = gn.ast.body and isinstance(gn.ast.body[-1], (ast.Return, ast.Raise))
            # `if op in (MATCHES, LIKE): return` before the dispatch, or the dispatch inside `if op not in (...)`
            if (pos_in and exits and not in_body) or (not pos_in and in_body):
                ok = True
        if not ok:
            bad.append(c)
    run.check(not bad, R, key(fi.module.relpath, fi.qualname, "only-under-value-operators"),
              "special-value canonicalisation is applied whatever the operator: [ipv4-addr:value MATCHES '127.1'] is reported "
              "equivalent to MATCHES '127.0.0.1' (the first regex matches 127.1.2.3, the second does not); a registry-key regex "
              "'^hklm.\\\\S+$' is lower-cased into '^hklm.\\\\s+$'", file=fi.module.relpath, line=fi.node.lineno, function=fi.qualname,
              expected="if ast.operator in ('MATCHES', 'LIKE', '<', '>', '<=', '>='): return ast, False   (before the dispatch)", found=[short(c) for c in bad])


COMPARATORS = [
    (EQ + ".compare::generic_cmp", None),
    (CC + "::generic_constant_cmp", None), (CC + "::bool_cmp", None), (CC + "::hex_cmp", None), (CC + "::bin_cmp", None),
    (CC + "::list_cmp", None), (CC + "::object_path_component_cmp", {0: ["int", "str"], 1: ["int", "str"]}),
    (CC + "::object_path_cmp", None), (CC + "::comparison_operator_cmp", None), (CC + "::constant_cmp", None),
    (CC + "::simple_comparison_expression_cmp", None), (CC + "::comparison_expression_cmp", None),
    (CO + "::repeats_cmp", None), (CO + "::within_cmp", None), (CO + "::startstop_cmp", None),
    (CO + "::observation_expression_cmp", None),
]


def rule_comparator_mirror(ctx):
    run = ctx.run
    prog = ctx.prog
    R = "C09.comparator-mirror"
    names = {fid.split("::")[1] for fid, _ in COMPARATORS} | {"iter_lex_cmp"}
    patmod = prog.module(PAT)

    def excl(c1, c2):
        def classes(n):
            n = n.strip("()")
            return [prog.lookup(patmod.scope, x.strip()) for x in n.split(",")]
        A = [x for x in classes(c1) if isinstance(x, ClassInfo)]
        B = [x for x in classes(c2) if isinstance(x, ClassInfo)]
        if not A or not B:
            return {c1, c2} == {"int", "str"}
        for x in A:
            for y in B:
                if x in y.mro or y in x.mro:
                    return False
                if any(x in k.mro and y in k.mro for k in prog.classes.values()):
                    return False
        return True
    total_cases = 0
    for fid, dom in COMPARATORS:
        fi = prog.func(fid)
        run.anchor(fid, fi.where)
        if len(fi.params) != 2:
            raise AnalysisError("comparator %s no longer takes two arguments" % fid)
        domains = {fi.params[i]: v for i, v in (dom or {}).items()}
        res, n = check_antisymmetric(fi.node, fi.params[0], fi.params[1], names, exclusive=excl, domains=domains)
        total_cases += n
        c = key(fi.module.relpath, fi.qualname, "antisymmetric")
        if not res:
            run.ok(R, c, "%d cases" % n)
        else:
            a, r1, r2 = res[0]
            run.violation(R, c, "the comparator is not antisymmetric: for the case below f(a, b) and f(b, a) are not opposite, so "
                          "equivalence is not symmetric / sorting is inconsistent", file=fi.module.relpath, line=fi.node.lineno,
                          function=fi.qualname, expected="f(a, b) == -f(b, a) for every consistent case",
                          found={"case": {k: v for k, v in a.items()}, "f(a,b)": repr(r1), "f(b,a)": repr(r2), "counterexamples": len(res)})
    # iter_lex_cmp: decision table on the exhaustion flags
    il = prog.func(EQ + ".compare::iter_lex_cmp")
    t = norm(il.node)
    t = norm(il.node)
    s1, s2, cb = il.params[0], il.params[1], il.params[2]
    bnd = pmall(t, "$i1 = iter(%s)" % s1, "$i2 = iter(%s)" % s2, "$v1 = next($i1)", "$v2 = next($i2)")
    chain = [n for n in body_walk(il.node) if isinstance(n, ast.If) and isinstance(n.test, ast.BoolOp) and isinstance(n.test.op, ast.And)
             and len(n.test.values) == 2 and all(isinstance(v, ast.Name) for v in n.test.values)]
    ok = False
    if chain and bnd:
        c0 = chain[0]
        x1, x2 = c0.test.values[0].id, c0.test.values[1].id
        # x1 / x2 are the exhaustion flags of the first / second iterator
        fl1 = pmall(t, "try:\n            %s = next(%s)\n        except StopIteration:\n            %s = True" % (bnd["v1"], bnd["i1"], x1))
        fl2 = pmall(t, "try:\n            %s = next(%s)\n        except StopIteration:\n            %s = True" % (bnd["v2"], bnd["i2"], x2))
        txt = norm(c0)
        ok = fl1 is not None and fl2 is not None and pm(norm(c0.body[0]), "$res = 0") is not None
        # shorter sequence first: first exhausted -> -1 ; second exhausted -> 1 ; else element comparison in argument order
        e1 = c0.orelse[0] if c0.orelse else None
        ok = ok and e1 is not None and norm(e1.test) == x1 and pm(norm(e1.body[0]), "$res = -1") is not None
        e2 = e1.orelse[0] if e1 is not None and e1.orelse else None
        ok = ok and e2 is not None and norm(e2.test) == x2 and pm(norm(e2.body[0]), "$res = 1") is not None
        ok = ok and ("%s(%s, %s)" % (cb, bnd["v1"], bnd["v2"])) in txt
    run.check(ok, R, key(il.module.relpath, il.qualname, "lexicographic-mirror"), "iter_lex_cmp is not the antisymmetric lexicographic "
              "comparison", file=il.module.relpath, line=il.node.lineno, function=il.qualname,
              expected="both exhausted 0; first exhausted -1; second exhausted 1; else cmp(val1, val2)", found=short(il.node, 200))
    run.extra["mirror_cases_enumerated"] = total_cases
    run.floor(R, 16)


def _pipeline_classes(prog, fi, call):
    """ordered class names of the transformer instances passed to a ChainTransformer(...) call"""
    fl = flow_of(fi)
    out = []
    for a in call.args:
        node = a
        seen = 0
        while isinstance(node, ast.Name) and seen < 5:
            defs = fl.rd.reaching(fl.node_for(call), node.id)
            vals = [v for _, v in defs if isinstance(v, ast.AST)]
            if len(vals) != 1:
                break
            node = vals[0]
            seen += 1
        if isinstance(node, ast.Call):
            d = prog.deref(prog.resolve_expr(fi.scope, node.func))
            name = d.name if isinstance(d, ClassInfo) else norm(node.func)
            if name in ("SettleTransformer",) and node.args:
                inner = node.args[0]
                sub = None
                if isinstance(inner, ast.Name):
                    defs = [v for _, v in fl.rd.reaching(fl.node_for(call), inner.id) if isinstance(v, ast.AST)]
                    if len(defs) == 1 and isinstance(defs[0], ast.Call):
                        sub = _pipeline_classes(prog, fi, defs[0])
                out.append(("settle", tuple(sub or ())))
            elif name == "ChainTransformer":
                out.extend(_pipeline_classes(prog, fi, node))
            else:
                mod = d.module.name.rsplit(".", 1)[-1] if isinstance(d, ClassInfo) else "?"
                out.append("%s.%s" % (mod, name))
        else:
            out.append(norm(a))
    return out


def _subsequence(want, got):
    it = iter(got)
    return all(any(w == g for g in it) for w in want)


def rule_pipeline(ctx):
    run = ctx.run
    prog = ctx.prog
    R = "C09.pipeline"
    for fid, mod, special in ((EQ + "::_get_pattern_normalizer", "observation", "observation.NormalizeComparisonExpressionsTransformer"),
                              (TO + "::NormalizeComparisonExpressionsTransformer.__init__", "comparison", "comparison.SpecialValueCanonicalization")):
        fi = prog.func(fid)
        rel = fi.module.relpath
        chains = [c for c in body_walk(fi.node) if isinstance(c, ast.Call) and call_simple_name(c) == "ChainTransformer"]
        if not chains:
            raise AnalysisError("%s: no ChainTransformer" % fid)
        top = max(chains, key=lambda c: c.lineno)
        got = _pipeline_classes(prog, fi, top)
        simplify = ("%s.FlattenTransformer" % mod, "%s.OrderDedupeTransformer" % mod, "%s.AbsorptionTransformer" % mod)
        settles = [x for x in got if isinstance(x, tuple) and x[0] == "settle"]
        ok_settle = len(settles) >= 2 and all(_subsequence(simplify, list(s[1])) for s in settles)
        flat = [x if not isinstance(x, tuple) else "settle" for x in got]
        want = [special, "settle", "%s.DNFTransformer" % mod, "settle"]
        ok_seq = _subsequence(want, flat)
        run.check(ok_settle and ok_seq, R, key(rel, fi.qualname, "pipeline-shape"),
                  "the normalisation pipeline lost a pass or its order: required (as a sub-sequence) special-value canonicalisation, "
                  "settle(flatten, order/dedupe, absorb), DNF, settle(...) again", file=rel, line=top.lineno, function=fi.qualname,
                  expected=want + [list(simplify)], found=[x if not isinstance(x, tuple) else ["settle", list(x[1])] for x in got])
    # SettleTransformer iterates to a fixed point; ChainTransformer applies every pass in order
    st = prog.cls(EQ + ".transform::SettleTransformer").methods["transform"]
    t = norm(st.node)
    run.check("while this_changed" in t and t.count("self.__transformer.transform(ast)") == 2, R,
              key(st.module.relpath, st.qualname, "fixed-point"), "SettleTransformer no longer repeats until nothing changes",
              file=st.module.relpath, line=st.node.lineno, function=st.qualname, expected="while this_changed: transform again", found="changed")
    ch = prog.cls(EQ + ".transform::ChainTransformer").methods["transform"]
    t = norm(ch.node)
    ap = ch.params[1]
    run.check(pmall(t, "for $t in self.__transformers", "%s, $c = $t.transform(%s)" % (ap, ap), "return (%s, $ch)" % ap) is not None, R,
              key(ch.module.relpath, ch.qualname, "applies-all-in-order"), "ChainTransformer no longer threads the AST through every pass",
              file=ch.module.relpath, line=ch.node.lineno, function=ch.qualname, expected="ast, changed = t.transform(ast) for each", found="changed")


def rule_same_decider(ctx):
    run = ctx.run
    prog = ctx.prog
    R = "C09.same-decider"
    facts = {}
    for fname in ("equivalent_patterns", "find_equivalent_patterns"):
        fi = prog.func("%s::%s" % (EQ, fname))
        calls = [c for c in body_walk(fi.node) if isinstance(c, ast.Call)]
        norms = [c for c in calls if call_simple_name(c) == "_get_pattern_normalizer"]
        cmps = [call_simple_name(c) for c in calls if (call_simple_name(c) or "").endswith("_cmp")]
        creates = [c for c in calls if call_simple_name(c) == "create_pattern_object"]
        ver_ok = all(any(k.arg == "version" and norm(k.value) == "stix_version" for k in c.keywords) for c in creates)
        decide = [n for n in body_walk(fi.node) if isinstance(n, ast.Compare) and norm(n.comparators[0]) == "0" and isinstance(n.ops[0], ast.Eq)
                  and isinstance(n.left, ast.Name) and "observation_expression_cmp" in flow_of(fi).prov(n.left).calls]
        # both patterns go through the normaliser before comparison
        fl = flow_of(fi)
        cmp_calls = [c for c in calls if call_simple_name(c) == "observation_expression_cmp"]
        normed = all(all("transform" in fl.prov(a).calls and "_get_pattern_normalizer" in fl.prov(a).calls for a in c.args[:2]) for c in cmp_calls)
        facts[fname] = {"normalizer": len(norms) == 1, "comparator": sorted(set(cmps)), "version-forwarded": ver_ok and bool(creates),
                        "decides-on-==0": len(decide) == 1, "both-normalised": normed and bool(cmp_calls)}
    a, b = facts["equivalent_patterns"], facts["find_equivalent_patterns"]
    fi = prog.func(EQ + "::equivalent_patterns")
    run.check(a == b and a["normalizer"] and a["comparator"] == ["observation_expression_cmp"] and a["version-forwarded"]
              and a["decides-on-==0"] and a["both-normalised"], R, key(fi.module.relpath, "equivalent_patterns/find_equivalent_patterns", "same-decision"),
              "the pairwise test and the search do not decide equivalence the same way (same normaliser, same comparator, == 0, "
              "version forwarded, both operands normalised)", file=fi.module.relpath, line=fi.node.lineno, function=fi.qualname,
              expected=a, found=b)
    # the search yields exactly the members for which the decision holds
    ff = prog.func(EQ + "::find_equivalent_patterns")
    ys = [n for n in body_walk(ff.node) if isinstance(n, ast.Yield)]
    ok = len(ys) == 1 and any(pol and pm(norm(t), "$r == 0") is not None for t, pol, _ in guard_chain(ys[0]))
    lp = next((p for p in _parents(ys[0]) if isinstance(p, ast.For)), None) if ys else None
    ok = ok and lp is not None and norm(lp.iter) == ff.params[1] and norm(ys[0].value) == norm(lp.target)
    run.check(ok, R, key(ff.module.relpath, ff.qualname, "yields-exactly-equivalents"), "the search does not yield exactly the members "
              "that compare equal", file=ff.module.relpath, line=ff.node.lineno, function=ff.qualname,
              expected="for p in patterns: if cmp(...) == 0: yield p", found=short(ff.node, 200))


def rule_distribution_recurses(ctx):
    """Distributing AND / FOLLOWEDBY over OR creates NEW and/followedby nodes out of operands taken from different OR groups;
    such a node can itself have an OR operand (`[a] AND ([b] OR ([c] FOLLOWEDBY ([d] OR [e])))`), which no earlier, bottom-up
    pass has seen in that position.  The observation-level DNF step therefore transforms each node it creates again before
    it puts them under the resulting OR; without that, nested patterns are no longer recognised as equivalent to their
    distributed forms (a documented rewrite)."""
    run = ctx.run
    prog = ctx.prog
    R = "C09.changed-accumulates"
    from ..cfg import ReachingDefs, cfg_of
    cls = prog.cls("stix2.equivalence.pattern.transform.observation::DNFTransformer")
    fi = next((m for n_, m in cls.methods.items() if n_.endswith("__transform")), None)
    if fi is None:
        raise AnalysisError("anchor missing: observation DNFTransformer.__transform")
    g = cfg_of(fi)
    rd = ReachingDefs(g, fi.all_param_names())
    mk = [c for c in body_walk(fi.node) if isinstance(c, ast.Call) and call_simple_name(c) == "OrObservationExpression" and c.args]
    if not mk:
        raise AnalysisError("observation DNFTransformer: the resulting OR is not built here any more (rule out of date)")
    for c in mk:
        st_ = c
        while not isinstance(st_, ast.stmt):
            st_ = st_.parent
        arg = c.args[0]
        vals = [arg]
        if isinstance(arg, ast.Name):
            vals = [v for _d, v in rd.reaching(g.node_of(st_), arg.id)]
        ok = bool(vals) and all(isinstance(v, ast.AST) and any(
            isinstance(x, ast.Call) and isinstance(x.func, ast.Attribute) and x.func.attr == "transform" and norm(x.func.value) == "self"
            for x in ast.walk(v)) for v in vals)
        run.check(ok, R, key(fi.module.relpath, fi.qualname, "new-nodes-transformed-again"),
                  "the and / followedby nodes created by the distribution are put under the resulting OR without being transformed "
                  "again: an OR operand inside them stays undistributed, so nested patterns are not brought to the normal form",
                  file=fi.module.relpath, line=c.lineno, function=fi.qualname,
                  expected="[self.transform(child)[0] for child in <new nodes>]", found=[short(v, 80) if isinstance(v, ast.AST) else str(v) for v in vals])


def rule_address_parsers_guarded(ctx):
    """The special-value canonicalisation hands string constants of the pattern to the platform's address parsers.  They refuse
    text that is not an address with OSError -- and text with an embedded NUL character with ValueError.  "On syntactically
    valid patterns the equivalence test never fails": both are caught at every call (the constant then simply is not
    canonicalised)."""
    from ..astutil import in_try_catching
    run = ctx.run
    prog = ctx.prog
    R = "C09.type-guard"
    n = 0
    for fi in sorted(prog.functions.values(), key=lambda f: f.id):
        if not fi.module.name.startswith("stix2.equivalence.pattern.transform"):
            continue
        for c in body_walk(fi.node):
            if isinstance(c, ast.Call) and norm(c.func) in ("socket.inet_aton", "socket.inet_pton"):
                n += 1
                ok = all(in_try_catching(c, names=(e_, "Exception", "BaseException")) is not None for e_ in ("OSError", "ValueError"))
                run.check(ok, R, key(fi.module.relpath, fi.qualname, "address-parser-errors-caught:%s" % norm(c.func)),
                          "%s is not in a try that catches both OSError (not an address) and ValueError (embedded NUL character): a "
                          "valid pattern with such a string constant makes the equivalence test raise" % norm(c.func),
                          file=fi.module.relpath, line=c.lineno, function=fi.qualname, expected="except (OSError, ValueError):", found=short(c, 60))
    if n < 2:
        raise AnalysisError("fewer than 2 address parser calls found (%d)" % n)


def rule_lexicographic_chains(ctx):
    """The comparators of the equivalence test order expressions lexicographically by components: the next component is
    consulted exactly when all earlier ones compared EQUAL (`if result == 0: result = <next comparison>`).  A tie-break taken
    under another condition (negated, `!= 0`, unconditional) lets a later component override an earlier difference -- or never
    look at it -- and two different expressions compare equal: the equivalence test reports them equivalent (unsound)."""
    run = ctx.run
    prog = ctx.prog
    R = "C09.comparator-mirror"
    n = 0
    for fi in sorted(prog.functions.values(), key=lambda f: f.id):
        if not fi.module.name.startswith("stix2.equivalence.pattern.compare") or not fi.name.endswith("_cmp"):
            continue
        asg = [a_ for a_ in body_walk(fi.node) if isinstance(a_, ast.Assign) and len(a_.targets) == 1 and isinstance(a_.targets[0], ast.Name)
               and ((isinstance(a_.value, ast.Call) and call_simple_name(a_.value) and (
                   call_simple_name(a_.value).endswith("_cmp") or call_simple_name(a_.value) == "iter_lex_cmp"))
                   or norm(a_.value) in ("-1", "1"))]
        cmp_vars = {a_.targets[0].id for a_ in asg if isinstance(a_.value, ast.Call)}
        asg = [a_ for a_ in asg if a_.targets[0].id in cmp_vars]
        by_var = {}
        for a_ in asg:
            by_var.setdefault(a_.targets[0].id, []).append(a_)
        for v, lst in sorted(by_var.items()):
            lst.sort(key=lambda x: x.lineno)
            from ..cfg import cfg_of
            g_ = cfg_of(fi)
            for a_ in lst[1:]:
                # a tie-break STEP: some earlier comparison result can flow into it (alternatives in exclusive branches are not)
                n2 = g_.node_of(a_)
                if not any(n2 in g_.reachable_from(g_.node_of(e_)) for e_ in lst if e_.lineno < a_.lineno and g_.node_of(e_) is not None):
                    continue
                n += 1
                gc = [(norm(t), pol) for t, pol, _ in guard_chain(a_)]
                tie = [(t, pol) for t, pol in gc if v in t]
                ok = bool(tie) and all((t == "%s == 0" % v and pol) or (t == "%s != 0" % v and not pol) for t, pol in tie)
                run.check(ok, R, key(fi.module.relpath, fi.qualname, "next-component-only-on-a-tie:%d" % lst.index(a_)),
                          "a later component of the lexicographic comparison is consulted under %s instead of 'all earlier components "
                          "compared equal': an earlier difference is overridden or a later one never seen, so different expressions "
                          "can compare equal" % (tie or "no condition"), file=fi.module.relpath, line=a_.lineno, function=fi.qualname,
                          expected="if %s == 0: %s = <next comparison>" % (v, v), found=gc)
    if n < 4:
        raise AnalysisError("fewer than 4 tie-break steps found in the comparators (%d)" % n)


def rule_flag_returned(ctx):
    """... and what was accumulated is what is RETURNED: a transformer that computes a `changed` flag (it assigns True to it
    somewhere) returns that variable; `return ast, False` tells SettleTransformer / ChainTransformer that nothing happened, the
    fixed-point iteration stops early and the documented rewrites are applied only partly.  (Transformers that never change
    anything -- transform_default, in-place canonicalisation -- legitimately return the constant.)"""
    run = ctx.run
    prog = ctx.prog
    R = "C09.changed-accumulates"
    n = 0
    for fi in sorted(prog.functions.values(), key=lambda f: f.id):
        if not fi.module.name.startswith("stix2.equivalence.pattern.transform"):
            continue
        flags = {norm(a_.targets[0]) for a_ in body_walk(fi.node) if isinstance(a_, ast.Assign) and len(a_.targets) == 1
                 and isinstance(a_.targets[0], ast.Name) and isinstance(a_.value, ast.Constant) and a_.value.value is True}
        # a flag unpacked from a sub-transformer's answer counts as computed as well
        for a_ in body_walk(fi.node):
            if isinstance(a_, ast.Assign) and isinstance(a_.targets[0], ast.Tuple) and len(a_.targets[0].elts) == 2 \
                    and isinstance(a_.targets[0].elts[1], ast.Name) and isinstance(a_.value, ast.Call):
                flags.add(a_.targets[0].elts[1].id)
        if not flags:
            continue
        rets = [r for r in body_walk(fi.node) if isinstance(r, ast.Return) and isinstance(r.value, ast.Tuple) and len(r.value.elts) == 2]
        for r in rets:
            n += 1
            fl_ = r.value.elts[1]
            ok = isinstance(fl_, ast.Name) and fl_.id in flags or (isinstance(fl_, ast.BoolOp) and any(
                isinstance(v_, ast.Name) and v_.id in flags for v_ in fl_.values))
            # an early `return <node>, False` before anything was computed is fine: no flag assignment precedes it
            if not ok and isinstance(fl_, ast.Constant) and not any(getattr(a_, "lineno", 10 ** 9) < r.lineno for a_ in body_walk(fi.node) if (
                    isinstance(a_, ast.Assign) and norm(a_.targets[0]) in flags)):
                ok = True
            run.check(ok, R, key(fi.module.relpath, fi.qualname, "returns-the-accumulated-flag:%d" % (rets.index(r) + 1)),
                      "the transformer computes a changed-flag (%s) but returns %s: the settling loop is told nothing happened and "
                      "stops before the normal form is reached" % (", ".join(sorted(flags)), norm(fl_)), file=fi.module.relpath,
                      line=r.lineno, function=fi.qualname, expected="return <node>, %s" % sorted(flags)[0], found=short(r, 60))
    if n < 10:
        raise AnalysisError("fewer than 10 flag-returning transformer methods found (%d)" % n)


def rule_changed_flag(ctx):
    """Transformers report (ast, changed); SettleTransformer repeats a chain until nothing changed.  Inside a loop over
    sub-transformers / children the flag ACCUMULATES (`if c: changed = True`, `changed = changed or c`): unpacking straight into
    it keeps only the last answer, the chain stops one pass early and documented rewrites are no longer recognised."""
    run = ctx.run
    prog = ctx.prog
    R = "C09.changed-accumulates"
    n = 0
    for fi in sorted(prog.functions.values(), key=lambda f: f.id):
        if not fi.module.name.startswith("stix2.equivalence.pattern.transform") or fi.name not in ("transform", "transform_default") \
                and not fi.name.startswith("transform"):
            continue
        rets = [r for r in returns_of(fi) if isinstance(r.value, ast.Tuple) and len(r.value.elts) == 2 and isinstance(r.value.elts[1], ast.Name)]
        if not rets:
            continue
        flag = rets[0].value.elts[1].id
        for lp in [x for x in body_walk(fi.node) if isinstance(x, (ast.For, ast.While))]:
            for a in [x for s_ in lp.body for x in walk_no_nested(s_) if isinstance(x, ast.Assign)]:
                tg = a.targets[0]
                hits = [t_ for t_ in ([tg] if isinstance(tg, ast.Name) else (tg.elts if isinstance(tg, (ast.Tuple, ast.List)) else []))
                        if isinstance(t_, ast.Name) and t_.id == flag]
                if not hits:
                    continue
                n += 1
                keeps = isinstance(tg, ast.Name) and ((isinstance(a.value, ast.Constant) and a.value.value is True) or (
                    isinstance(a.value, ast.BoolOp) and isinstance(a.value.op, ast.Or) and any(
                        isinstance(v_, ast.Name) and v_.id == flag for v_ in a.value.values)))
                run.check(keeps, R, key(fi.module.relpath, fi.qualname, "flag-in-loop:%s" % short(a, 50)),
                          "the `changed` flag is overwritten inside the loop: only the last sub-transformer's answer survives, "
                          "so the settle loop stops although an earlier step changed the AST -- patterns that need another pass "
                          "are not recognised as equivalent", file=fi.module.relpath, line=a.lineno, function=fi.qualname,
                          expected="%s = %s or <this change> / if <this change>: %s = True" % (flag, flag, flag), found=short(a))
    if n < 3:
        raise AnalysisError("transformers: fewer than 3 flag updates inside loops found (%d)" % n)


def rule_copy_complete(ctx):
    """Transformers rebuild pattern nodes; a rebuilt node must carry every piece of state of the node it replaces.  At
    every construction of a stix2.patterns class inside the equivalence package all constructor parameters are bound: an
    omitted defaulted parameter (negated=False) silently resets that state -- NOT disappears from a distributed copy."""
    from ..callgraph import get_callgraph
    run = ctx.run
    prog = ctx.prog
    R = "C09.copy-complete"
    cg = get_callgraph(prog)
    n = 0
    for fi in sorted(prog.functions.values(), key=lambda f: f.id):
        if not fi.module.name.startswith("stix2.equivalence.pattern"):
            continue
        for call in cg.calls_in(fi):
            d = prog.deref(prog.resolve_expr(fi.scope, call.func)) if isinstance(call.func, (ast.Name, ast.Attribute)) else None
            if not isinstance(d, ClassInfo) or d.module.name != "stix2.patterns":
                continue
            init = next((k.methods["__init__"] for k in d.mro if "__init__" in k.methods), None)
            if init is None:
                continue
            params = [p_ for p_ in init.params if p_ != "self"]
            if any(isinstance(a, ast.Starred) for a in call.args) or any(k.arg is None for k in call.keywords):
                continue
            bound = set(params[:len(call.args)]) | {k.arg for k in call.keywords}
            n += 1
            missing = [p_ for p_ in params if p_ not in bound]
            run.check(not missing, R, key(fi.module.relpath, fi.qualname, "%s(...)" % d.name),
                      "a pattern node is rebuilt without its %s: the copy silently takes the default (negated=False), so e.g. the "
                      "copies made when AND is distributed over OR lose their NOT and two patterns of different meaning "
                      "compare equivalent" % "/".join(missing), file=fi.module.relpath, line=call.lineno, function=fi.qualname,
                      expected="all of %s bound" % params, found=short(call, 120))
    if n < 8:
        raise AnalysisError("equivalence package: fewer than 8 constructions of pattern nodes found (%d)" % n)


def rule_distinct_bindings(ctx):
    """Observation-level AND / FOLLOWEDBY need distinct bindings: (A AND A) is not contained in (A AND B).  Absorption
    `X OR (X AND Y) = X` therefore matches operands as a MULTISET: a container operand that matched one containee operand
    is consumed.  Decided structurally: the match loop of the AND containment test deletes the matched element from a
    private copy of the container; a plain membership test (set semantics) is a violation."""
    run = ctx.run
    prog = ctx.prog
    R = "C09.distinct-bindings"
    cls = prog.cls("stix2.equivalence.pattern.transform.observation::AbsorptionTransformer")
    cands = [f for nm, f in cls.methods.items() if nm.endswith("is_contained_and")]
    if len(cands) != 1:
        raise AnalysisError("observation AbsorptionTransformer: AND containment method not found")
    fi = cands[0]
    rel = fi.module.relpath
    params = [p_ for p_ in fi.params if p_ != "self"]
    if len(params) != 2:
        raise AnalysisError("%s: expected (containee, container) parameters" % fi.qualname)
    container = params[1]
    copies = {norm(a.targets[0]) for a in body_walk(fi.node) if isinstance(a, ast.Assign) and isinstance(a.value, ast.Call)
              and call_simple_name(a.value) in ("list", "copy", "deepcopy") and a.value.args and norm(a.value.args[0]) == container}
    consumed = []
    for x in body_walk(fi.node):
        if isinstance(x, ast.Delete):
            for t in x.targets:
                if isinstance(t, ast.Subscript) and norm(t.value) in copies:
                    consumed.append(x)
        if isinstance(x, ast.Call) and isinstance(x.func, ast.Attribute) and x.func.attr in ("pop", "remove") and norm(x.func.value) in copies:
            consumed.append(x)
    in_match = [x for x in consumed if any(pol and isinstance(t, ast.Compare) and isinstance(t.ops[0], ast.Eq)
                                             and norm(t.comparators[0]) == "0" and "_cmp(" in norm(t.left)
                                             for t, pol, _ in guard_chain(x)) and any(isinstance(p_, ast.For) for p_ in _parents(x))]
    mutates_arg = [x for x in body_walk(fi.node) if (isinstance(x, ast.Delete) and any(
        isinstance(t, ast.Subscript) and norm(t.value) == container for t in x.targets)) or (
        isinstance(x, ast.Call) and isinstance(x.func, ast.Attribute) and x.func.attr in ("pop", "remove", "clear")
        and norm(x.func.value) == container)]
    run.check(bool(in_match) and not mutates_arg, R, key(rel, fi.qualname, "matched-operand-consumed"),
              "AND containment between observation expressions is decided without consuming matched operands (set instead of "
              "multiset semantics): ([a:b=1] AND [a:b=1]) OR ([a:b=1] AND [a:b=2]) absorbs its second disjunct although a "
              "sequence (b=1, b=2) matches only that one -- patterns of different meaning compare equivalent", file=rel,
              line=fi.node.lineno, function=fi.qualname,
              expected="container = list(<container>); ... if <cmp>(ee, er) == 0: del container[i]; break",
              found=[short(x) for x in consumed] or "no deletion from a private copy of the container")


def _parents(n):
    p = getattr(n, "parent", None)
    while p is not None and not isinstance(p, (ast.FunctionDef, ast.AsyncFunctionDef, ast.Lambda)):
        yield p
        p = getattr(p, "parent", None)


def rule_sets_and_numbers(ctx):
    run = ctx.run
    prog = ctx.prog
    R = "C09.sets-and-numbers"
    lc = prog.func(CC + "::list_cmp")
    srt = [c for c in body_walk(lc.node) if isinstance(c, ast.Call) and call_simple_name(c) == "sorted"]
    ok = len(srt) == 2 and all("cmp_to_key(constant_cmp)" in norm(c) for c in srt) and \
        {norm(c.args[0]) for c in srt} == {"%s.value" % lc.params[0], "%s.value" % lc.params[1]}
    fl = flow_of(lc)
    okr = all("sorted" in fl.prov(r.value).calls and "iter_lex_cmp" in fl.prov(r.value).calls for r in returns_of(lc))
    run.check(ok and okr, R, key(lc.module.relpath, lc.qualname, "order-insensitive"), "set literals are compared in written order "
              "(IN ('a','b') would differ from IN ('b','a'))", file=lc.module.relpath, line=lc.node.lineno, function=lc.qualname,
              expected="both operands sorted with constant_cmp before the lexicographic comparison", found=[short(c) for c in srt])
    cc = prog.func(CC + "::constant_cmp")
    first = next((s for s in cc.node.body if isinstance(s, ast.If)), None)
    ok = False
    if first is not None:
        t = norm(first.test)
        ok = t.count("(IntegerConstant, FloatConstant)") == 2 and " and " in t and "generic_constant_cmp" in norm(first.body[0])
    run.check(ok, R, key(cc.module.relpath, cc.qualname, "numeric-kinds-compared-by-value"), "integer and float constants are not "
              "compared by numeric value (1 and 1.0 would differ)", file=cc.module.relpath, line=cc.node.lineno, function=cc.qualname,
              expected="if both numeric: generic_constant_cmp(value1, value2)", found=short(first, 160) if first is not None else None)


def _int_eval(e, env):
    """closed integer expressions over named integers (None: not of that kind)"""
    if isinstance(e, ast.Constant) and isinstance(e.value, int) and not isinstance(e.value, bool):
        return e.value
    if isinstance(e, ast.Name):
        return env.get(e.id)
    if isinstance(e, ast.Call) and call_simple_name(e) == "len" and len(e.args) == 1 and isinstance(e.args[0], ast.Name):
        return env.get("len(%s)" % e.args[0].id)
    if isinstance(e, ast.UnaryOp) and isinstance(e.op, ast.USub):
        v = _int_eval(e.operand, env)
        return None if v is None else -v
    if isinstance(e, ast.BinOp):
        a, b = _int_eval(e.left, env), _int_eval(e.right, env)
        if a is None or b is None:
            return None
        try:
            if isinstance(e.op, ast.Add):
                return a + b
            if isinstance(e.op, ast.Sub):
                return a - b
            if isinstance(e.op, ast.Mult):
                return a * b
            if isinstance(e.op, ast.FloorDiv):
                return a // b
            if isinstance(e.op, ast.Mod):
                return a % b
            if isinstance(e.op, ast.LShift):
                return a << b if 0 <= b < 64 else None
            if isinstance(e.op, ast.RShift):
                return a >> b if 0 <= b < 64 else None
            if isinstance(e.op, ast.BitAnd):
                return a & b
            if isinstance(e.op, ast.BitOr):
                return a | b
        except (ZeroDivisionError, ValueError):
            return None
    return None


def rule_mask_arithmetic(ctx):
    """CIDR canonicalisation keeps the first `prefix` bits of an address and zeroes the rest (_mask_bytes).  Its byte arithmetic
    is a handful of closed integer expressions over (address size, prefix size); they are tabulated over the WHOLE domain --
    both address sizes, every prefix 0..32 / 0..128 -- by constant folding, and three facts are read off the table: the slice
    that is zeroed wholesale never reaches into a byte that holds prefix bits; fully kept + fully zeroed + (one partial byte iff
    the prefix is not a multiple of 8) is the address; the mask of the partial byte keeps exactly prefix mod 8 high bits."""
    run = ctx.run
    prog = ctx.prog
    R = "C09.special-values"
    fi = prog.func("stix2.equivalence.pattern.transform.specials::_mask_bytes")
    rel = fi.module.relpath
    if len(fi.params) != 2:
        raise AnalysisError("_mask_bytes: two parameters expected")
    buf, pre = fi.params
    assigns = [a_ for a_ in body_walk(fi.node) if isinstance(a_, ast.Assign) and isinstance(a_.targets[0], ast.Name)]
    # the slice store that zeroes whole bytes: buf[<start>:] = b"\x00" * <count>
    zs = [a_ for a_ in body_walk(fi.node) if isinstance(a_, ast.Assign) and isinstance(a_.targets[0], ast.Subscript)
          and norm(a_.targets[0].value) == buf and isinstance(a_.targets[0].slice, ast.Slice)]
    ms = [a_ for a_ in body_walk(fi.node) if isinstance(a_, ast.AugAssign) and isinstance(a_.op, ast.BitAnd)
          and isinstance(a_.target, ast.Subscript) and norm(a_.target.value) == buf]
    if len(zs) != 1 or len(ms) != 1 or zs[0].targets[0].slice.lower is None or zs[0].targets[0].slice.upper is not None:
        raise AnalysisError("_mask_bytes: the wholesale zeroing slice / the partial-byte mask were not recognised")
    bad = []
    rows = 0
    for size in (4, 16):
        for p_ in range(0, 8 * size + 1):
            env = {pre: p_, "len(%s)" % buf: size}
            for a_ in assigns:         # straight-line definitions, in source order (the conditional ones are closed as well)
                v = _int_eval(a_.value, env)
                if v is not None:
                    env[a_.targets[0].id] = v
            start = _int_eval(zs[0].targets[0].slice.lower, env)
            idx = _int_eval(ms[0].target.slice, env)
            mask = _int_eval(ms[0].value, env)
            guard_z = [t for t, pol, _ in guard_chain(zs[0]) if pol]
            if start is None or idx is None:
                raise AnalysisError("_mask_bytes: index arithmetic not closed over (size, prefix)")
            rows += 1
            zero_from = min(start, size) if start >= 0 else max(size + start, 0)
            # does the zeroing statement run?  its guards are comparisons of closed expressions
            runs = True
            for t in guard_z:
                if isinstance(t, ast.Compare) and len(t.ops) == 1:
                    l_, r_ = _int_eval(t.left, env), _int_eval(t.comparators[0], env)
                    if l_ is not None and r_ is not None:
                        runs = runs and {ast.Gt: l_ > r_, ast.GtE: l_ >= r_, ast.Lt: l_ < r_, ast.LtE: l_ <= r_, ast.Eq: l_ == r_,
                                         ast.NotEq: l_ != r_}.get(type(t.ops[0]), True)
            first_free_byte = (p_ + 7) // 8            # first byte that holds no prefix bit
            if runs and zero_from < first_free_byte:
                bad.append("/%d of a %d-byte address: bytes from %d are zeroed, but byte %d still holds prefix bits" % (p_, size, zero_from, first_free_byte - 1))
            if (not runs or zero_from > first_free_byte) and first_free_byte < size:
                bad.append("/%d of a %d-byte address: byte %d lies after the prefix and is not zeroed" % (p_, size, first_free_byte))
            if p_ % 8:
                if idx != p_ // 8:
                    bad.append("/%d: the partial byte is taken to be byte %d" % (p_, idx))
                if mask is None or (mask & 0xFF) != ((0xFF << (8 - p_ % 8)) & 0xFF):
                    bad.append("/%d: the partial byte is masked with %s" % (p_, "0x%02x" % (mask & 0xFF) if mask is not None else "?"))
    run.check(not bad, R, key(rel, fi.qualname, "mask-keeps-exactly-the-prefix"),
              "the CIDR mask does not keep exactly the prefix bits: %s%s -- different networks get one canonical value (reported "
              "equivalent), or one network two" % ("; ".join(bad[:3]), " ... (%d rows)" % len(bad) if len(bad) > 3 else ""), file=rel,
              line=fi.node.lineno, function=fi.qualname, expected="all %d (size, prefix) rows" % rows, found="%d rows wrong" % len(bad))


def rule_absorption_same_connective(ctx):
    """Absorption at observation level (A OR (A AND B) = A; likewise for FOLLOWEDBY) drops a disjunct whose operands CONTAIN
    those of another disjunct.  Containment only means implication when both disjuncts are built with the SAME connective: an
    AND does not imply a FOLLOWEDBY over the same operands (no order), so a FOLLOWEDBY must not absorb an AND.  Every call of a
    containment helper is guarded by a test that the two nodes have the same type."""
    run = ctx.run
    prog = ctx.prog
    R = "C09.absorption"
    n = 0
    for fi in sorted(prog.functions.values(), key=lambda f: f.id):
        if fi.module.name != "stix2.equivalence.pattern.transform.observation":
            continue
        for c in body_walk(fi.node):
            if not (isinstance(c, ast.Call) and "is_contained" in (call_simple_name(c) or "") and len(c.args) == 2):
                continue
            roots = []
            for a_ in c.args:
                r_ = a_
                while isinstance(r_, (ast.Attribute, ast.Subscript)):
                    r_ = r_.value
                roots.append(norm(r_))
            n += 1
            same = False
            for t, pol, _ in guard_chain(c):
                for cmp_ in [x for x in ast.walk(t) if isinstance(x, ast.Compare) and len(x.ops) == 1]:
                    l_, r_ = cmp_.left, cmp_.comparators[0]
                    if pol and isinstance(cmp_.ops[0], (ast.Is, ast.Eq)) and all(
                            isinstance(z, ast.Call) and call_simple_name(z) == "type" and z.args for z in (l_, r_)) \
                            and {norm(l_.args[0]), norm(r_.args[0])} == set(roots):
                        same = True
            run.check(same, R, key(fi.module.relpath, fi.qualname, "same-connective:%s" % call_simple_name(c).lstrip("_")),
                      "operand containment is tested between two nodes that are not known to be built with the same connective: a "
                      "FOLLOWEDBY absorbs an AND over the same operands (or the reverse), although the AND matches observations in "
                      "any order -- patterns with different matches are reported equivalent", file=fi.module.relpath, line=c.lineno,
                      function=fi.qualname, expected="type(%s) is type(%s) on the way to the call" % tuple(roots), found=[norm(t) for t, pol, _ in guard_chain(c)][-3:])
    if n < 2:
        raise AnalysisError("fewer than 2 containment tests found in the observation absorption (%d)" % n)


def rule_repeats_does_not_distribute(ctx, R="C09.pipeline"):
    """A qualifier applied to several pieces of an expression is a DISTRIBUTION law.  WITHIN and START/STOP distribute over OR;
    REPEATS n TIMES does not: ([a] OR [b]) REPEATS 2 TIMES matches the observations a, b -- neither ([a] REPEATS 2 TIMES) nor
    ([b] REPEATS 2 TIMES) does.  In the equivalence transformers, every construction of a qualified expression inside a loop /
    comprehension over the operands of another expression (one qualifier, many pieces) stands under a test of the qualifier's
    class that excludes RepeatQualifier.  The pinned tree has no such construction at all (the rule is a who-may-distribute
    rule; its canary adds one)."""
    run = ctx.run
    prog = ctx.prog
    n = 0
    k_ = 0
    mods = [m for m in prog.modules.values() if m.name.startswith("stix2.equivalence.pattern")]
    if len(mods) < 5:
        raise AnalysisError("equivalence modules not found")
    for fi in sorted((f for f in prog.functions.values() if f.module in mods), key=lambda f: f.id):
        for c in body_walk(fi.node):
            if not (isinstance(c, ast.Call) and call_simple_name(c) == "QualifiedObservationExpression"):
                continue
            n += 1
            # is the construction repeated over the operands of something?
            over = None
            p_ = getattr(c, "parent", None)
            while p_ is not None and p_ is not fi.node:
                if isinstance(p_, (ast.ListComp, ast.GeneratorExp, ast.SetComp)):
                    over = next((g_.iter for g_ in p_.generators if "operands" in norm(g_.iter)), over)
                if isinstance(p_, ast.For) and "operands" in norm(p_.iter):
                    over = p_.iter
                p_ = getattr(p_, "parent", None)
            if over is None:
                continue
            k_ += 1
            gc = guard_chain(c)
            excl = any(("RepeatQualifier" in norm(t) and "isinstance" in norm(t)) and
                       ((not pol and not norm(t).startswith("not ")) or (pol and norm(t).startswith("not "))) for t, pol, _ in gc)
            run.check(excl, R, key(fi.module.relpath, fi.qualname, "qualifier-distributed#%d" % k_),
                      "one qualifier is applied to each operand of an expression (a distribution law) without excluding REPEATS: "
                      "(A OR B) REPEATS n TIMES is not (A REPEATS n TIMES) OR (B REPEATS n TIMES) -- two patterns with different "
                      "meaning are normalised to one form and reported equivalent", file=fi.module.relpath, line=c.lineno,
                      function=fi.qualname, expected="only under `not isinstance(<qualifier>, RepeatQualifier)`",
                      found="%s over %s" % (short(c, 70), short(over, 40)))
    if n < 1:
        raise AnalysisError("no construction of a qualified expression found in the equivalence transformers: anchors lost")
    run.ok(R, key("stix2/equivalence/pattern", "<transformers>", "qualifier-constructions-examined"))


def rule_followedby_containment_consumes(ctx, R="C09.distinct-bindings"):
    """A FOLLOWEDBY chain is contained in another when its operands are found there IN ORDER, each at a position of its own:
    a repeated operand ([a] FOLLOWEDBY [a]) needs two occurrences.  In the containment test every comparison of a containee
    operand with a container element is made on a FRESH container element: on the flow graph, no cycle leads from the
    comparison back to itself without passing a next() on the container's iterator -- otherwise a match does not consume its
    element, the next operand is compared with the same one again, and ([a] FB [a]) OR ([a] FB [b]) is absorbed into one."""
    run = ctx.run
    prog = ctx.prog
    cls = prog.cls("stix2.equivalence.pattern.transform.observation::AbsorptionTransformer")
    fi = next((m for nme, m in cls.methods.items() if nme.endswith("is_contained_followedby")), None)
    if fi is None:
        raise AnalysisError("anchor missing: AbsorptionTransformer.__is_contained_followedby")
    g = cfg_of(fi)
    container = fi.params[-1]
    iters = {norm(a.targets[0]) for a in body_walk(fi.node) if isinstance(a, ast.Assign) and isinstance(a.value, ast.Call)
             and call_simple_name(a.value) == "iter" and a.value.args and norm(a.value.args[0]) == container}
    if not iters:
        raise AnalysisError("__is_contained_followedby: the container is not walked through an iterator any more (rule out of date)")

    def has_call(n, pred):
        if n.ast is None:
            return False
        root = n.ast.test if n.kind == "test" and hasattr(n.ast, "test") else n.ast
        if isinstance(root, (ast.For, ast.While, ast.If)) and n.kind != "test":
            return False
        return any(isinstance(c, ast.Call) and pred(c) for c in ast.walk(root))
    cmps = [n for n in g.nodes if has_call(n, lambda c: call_simple_name(c) == "observation_expression_cmp")]
    advances = {n for n in g.nodes if has_call(n, lambda c: call_simple_name(c) == "next" and c.args and norm(c.args[0]) in iters)}
    if not cmps or not advances:
        raise AnalysisError("__is_contained_followedby: comparison (%d) / iterator advance (%d) not found" % (len(cmps), len(advances)))
    bad = None
    for n in cmps:
        if n in advances:
            continue
        for s_, lab in n.succ:
            if lab in ("exc", "raise") or s_ in advances:
                continue
            if s_ is n or g.path_avoiding(s_, n, lambda x: x in advances, labels_skip=("exc", "raise")) is not None:
                bad = n
    run.check(bad is None, R, key(fi.module.relpath, fi.qualname, "a-match-consumes-its-container-element"),
              "a containee operand can be compared with a container element that an earlier operand already matched (a cycle "
              "through the comparison without advancing the container's iterator): a repeated operand is found twice at one "
              "position, and an expression is absorbed by one that does not contain it", file=fi.module.relpath,
              line=bad.ast.lineno if bad is not None else fi.node.lineno, function=fi.qualname,
              expected="next(<container iterator>) between any two comparisons", found="a cycle without it")
