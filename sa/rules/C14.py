"""C14 — a requested spec version is honoured everywhere, never relaxes strictness.

Decides, per resolved call site: arguments named like a callee parameter are
bound to that parameter; the strictness switch `interoperability` only ever
receives the caller's own switch; the `version` argument is forwarded along
every store/source/sink chain down to parse(); the detector only runs when no
version was named.
"""
import ast

from ..astutil import call_simple_name, guard_chain, returns_of, short
from ..cfg import ReachingDefs, cfg_of
from ..callgraph import CHA, EXACT, get_callgraph
from ..forward import flow_of
from ..loader import AnalysisError, FunctionInfo, body_walk, norm
from ..report import key

PROP = "C14"
TRACKED = ("version", "spec_version", "stix_version", "allow_custom", "interoperability", "_composite_filters",
           "encoding", "pretty", "include_optional_defaults")


def run(ctx):
    run = ctx.run
    run.explanation = (
        "Argument-binding check over all exactly resolved call sites of the package for the tracked switch names; provenance "
        "(def-use) of every value bound to an `interoperability` parameter; forwarding completeness of `version` along the "
        "anchored call chains of memory.py / filesystem.py / parsing.py / properties.py; guard of the version detector. "
        "Decides binding and forwarding, not the class returned for every dictionary."
    )
    run.trusted_base = ["CPython ast", "callee resolution of sa/callgraph.py (exact edges only)"]
    run.assumptions = ["Python argument binding semantics"]
    ctx.do(rule_binding)
    ctx.do(rule_strictness)
    ctx.do(rule_forward)
    ctx.do(rule_version_in_scope)
    ctx.do(rule_version_bases)
    # content handed over WITH a version named is stored as parsed under that version: the store keeps every addition (C11's
    # clause) -- an early return for "this modified time is there already" drops the object the named version produced
    from . import C11 as _C11
    ctx.do_as(_C11.rule_all_versions_kept, {"C11.all-versions-kept": "C14.named-version-is-what-is-stored"})
    ctx.do(rule_version_constants)
    ctx.do(rule_only_21_mechanisms)
    ctx.do(rule_detect)
    ctx.do(rule_no_redetection_below_a_version_in_force)
    from .hidden_state import rule_no_hidden_state
    ctx.do(rule_no_hidden_state, "C14.history-independence")
    from .pitfalls import rule_loops_not_cut_short
    ctx.do(rule_loops_not_cut_short, "C14.loops-complete")
    from .pitfalls import rule_definite_assignment
    ctx.do(rule_definite_assignment, "C14.definite-assignment")


def iter_exact_calls(prog, cg, include_cha_unique=False):
    for fi in prog.functions.values():
        for call in cg.calls_in(fi):
            ts = cg.resolve(call, fi)
            for t in ts:
                if t.func is None:
                    continue
                if t.kind == EXACT:
                    yield fi, call, t


def rule_binding(ctx, names=TRACKED, rule_id="C14.binding"):
    run = ctx.run
    prog = ctx.prog
    cg = get_callgraph(prog)
    n = 0
    for fi, call, t in iter_exact_calls(prog, cg):
        b = cg.bind(call, t)
        callee_params = set(t.func.all_param_names())
        for p, e in b.params.items():
            if not isinstance(e, ast.Name):
                continue
            a = e.id
            if a not in names or a not in callee_params:
                continue
            n += 1
            c = key(fi.module.relpath, fi.qualname, "%s:%s" % (short(call, 80), a))
            if p == a:
                run.ok(rule_id, c)
            else:
                run.violation(rule_id, c,
                              "argument `%s` is bound to parameter `%s` of %s (which also has a parameter `%s`): the value is applied "
                              "as a different switch and the intended one keeps its default" % (a, p, t.func.id, a),
                              file=fi.module.relpath, line=call.lineno, function=fi.qualname,
                              expected="%s bound to %s" % (a, a), found="%s bound to %s" % (a, p))
    run.extra["binding_sites"] = n
    run.floor(rule_id, 40)
    st = cg.stats()
    run.extra["call_sites"] = st


def rule_strictness(ctx):
    run = ctx.run
    prog = ctx.prog
    cg = get_callgraph(prog)
    R = "C14.strictness-provenance"
    n = 0
    for fi in prog.functions.values():
        for call in cg.calls_in(fi):
            for t in cg.resolve(call, fi):
                if t.func is None or t.kind not in (EXACT, CHA):
                    continue
                if "interoperability" not in t.func.all_param_names():
                    continue
                b = cg.bind(call, t)
                e = b.params.get("interoperability")
                if e is None:
                    continue
                if t.kind == CHA and not isinstance(e, ast.Name):
                    continue
                n += 1
                pr = flow_of(fi).prov(e)
                okc = all(v is False for v in pr.consts)
                ok = (pr.params <= {"interoperability"}) and not pr.selfattrs - {"interoperability"} and not pr.calls \
                    and not pr.other and okc
                c = key(fi.module.relpath, fi.qualname, "%s:interoperability" % short(call, 80))
                run.check(ok, R, c, "the relaxed-identifier switch of %s receives a value that is not the caller's own "
                          "`interoperability` (naming a version or another option turns relaxed validation on)" % t.func.id,
                          file=fi.module.relpath, line=call.lineno, function=fi.qualname,
                          expected="derived only from the caller's `interoperability` parameter (or False/omitted)", found=repr(pr))
                break
    # calls whose callee cannot be resolved (a class held in an attribute: self.contained(...), self.type(...), cls(...)) name
    # the switch by keyword: the same provenance requirement, decided on the keyword
    m_ = 0
    for fi in sorted(prog.functions.values(), key=lambda f: f.id):
        if fi.module.relpath.startswith("stix2/test"):
            continue
        for call in cg.calls_in(fi):
            kw = [k for k in call.keywords if k.arg == "interoperability"]
            if not kw:
                continue
            if any(t.func is not None and t.kind in (EXACT, CHA) and "interoperability" in t.func.all_param_names() for t in cg.resolve(call, fi)):
                continue          # judged above
            m_ += 1
            pr = flow_of(fi).prov(kw[0].value)
            # kwargs.get('interoperability', False): the caller's own option read from its keyword dictionary
            from_kwargs = isinstance(kw[0].value, ast.Call) and norm(kw[0].value.func).endswith(".get") and kw[0].value.args \
                and isinstance(kw[0].value.args[0], ast.Constant) and kw[0].value.args[0].value == "interoperability"
            ok = from_kwargs or ((pr.params <= {"interoperability"}) and not pr.selfattrs - {"interoperability"} and not pr.calls
                                 and not pr.other and all(v is False for v in pr.consts))
            run.check(ok, R, key(fi.module.relpath, fi.qualname, "keyword:interoperability#%d" % m_),
                      "the relaxed-identifier switch is passed by keyword with a value that is not the caller's own `interoperability`: "
                      "embedded content is validated leniently whatever the caller asked for", file=fi.module.relpath,
                      line=call.lineno, function=fi.qualname, expected="interoperability=interoperability (or False)", found=norm(kw[0].value))
    run.extra["interoperability_sites"] = n + m_
    run.floor(R, 8)


# chains: (caller function id, callee simple name, callee must receive `version` derived from caller's `version` source)
FORWARD = [
    # caller, callee name, expected source of the bound value ("param:version" | "selfattr:spec_version")
    ("stix2.datastore.memory::_add", "_add", "param:version"),
    ("stix2.datastore.memory::_add", "parse", "param:version"),
    ("stix2.datastore.memory::MemoryStore.__init__", "_add", "param:version"),
    ("stix2.datastore.memory::MemoryStore.__init__", "MemorySource", "param:version"),
    ("stix2.datastore.memory::MemoryStore.__init__", "MemorySink", "param:version"),
    ("stix2.datastore.memory::MemorySink.__init__", "_add", "param:version"),
    ("stix2.datastore.memory::MemorySource.__init__", "_add", "param:version"),
    ("stix2.datastore.memory::MemorySink.add", "_add", "param:version"),
    ("stix2.datastore.memory::MemorySource.load_from_file", "_add", "param:version"),
    ("stix2.datastore.filesystem::FileSystemSource.get", "all_versions", "param:version"),
    ("stix2.datastore.filesystem::FileSystemSource.all_versions", "query", "param:version"),
    ("stix2.datastore.filesystem::FileSystemSource.query", "_search_versioned", "param:version"),
    ("stix2.datastore.filesystem::FileSystemSource.query", "_search_unversioned", "param:version"),
    ("stix2.datastore.filesystem::_search_versioned", "_check_object_from_file", "param:version"),
    ("stix2.datastore.filesystem::_search_versioned", "_search_unversioned", "param:version"),
    ("stix2.datastore.filesystem::_search_unversioned", "_check_object_from_file", "param:version"),
    ("stix2.datastore.filesystem::_check_object_from_file", "parse", "param:version"),
    ("stix2.datastore.filesystem::FileSystemSink.add", "add", "param:version"),
    ("stix2.datastore.filesystem::FileSystemSink.add", "parse", "param:version"),
    ("stix2.parsing::parse", "dict_to_stix2", "param:version"),
    ("stix2.parsing::dict_to_stix2", "class_for_type", "param:version"),
    ("stix2.parsing::parse_observable", "class_for_type", "param:version"),
    ("stix2.properties::ObservableProperty.clean", "parse_observable", "selfattr:spec_version"),
]
VERSION_PARAMS = ("version", "stix_version", "spec_version")


def rule_forward(ctx):
    run = ctx.run
    prog = ctx.prog
    cg = get_callgraph(prog)
    R = "C14.forward"
    for caller_id, callee, src in FORWARD:
        fi = prog.func(caller_id)
        run.anchor(caller_id, fi.where)
        calls = [c for c in cg.calls_in(fi) if call_simple_name(c) == callee]
        c0 = key(fi.module.relpath, fi.qualname, "->%s:version" % callee)
        if not calls:
            run.violation(R, c0, "the call %s -> %s that carries the requested version is gone" % (fi.qualname, callee),
                          file=fi.module.relpath, line=fi.node.lineno, function=fi.qualname, expected="call forwarding version",
                          found="no call")
            continue
        for i, call in enumerate(calls):
            c = c0 if len(calls) == 1 else c0 + "#%d" % (i + 1)
            ts = [t for t in cg.resolve(call, fi) if t.func is not None]
            if not ts:
                run.violation(R, c, "cannot resolve callee %s" % callee, file=fi.module.relpath, line=call.lineno)
                continue
            ok_any = False
            found = None
            for t in ts:
                vp = [p for p in VERSION_PARAMS if p in t.func.all_param_names()]
                if not vp:
                    continue
                b = cg.bind(call, t)
                e = b.params.get(vp[0])
                if e is None:
                    found = "omitted (callee default)"
                    continue
                pr = flow_of(fi).prov(e)
                found = repr(pr)
                kind, nm = src.split(":")
                # ... and from NOTHING else: `version or self.version`, `version or '2.1'` make a version nobody named at this
                # call the one in force (a store built with version=V then judges later, version-less additions by V)
                pure = (not pr.calls and not pr.other and not [c_ for c_ in pr.consts if c_ is not None]) or fi.id in DETECTOR_SITES
                if kind == "param" and nm in pr.params and pure and not pr.selfattrs and (pr.params <= {nm} or fi.id in DETECTOR_SITES):
                    ok_any = True
                if kind == "selfattr" and nm in pr.selfattrs and pure and not pr.params and pr.selfattrs <= {nm}:
                    ok_any = True
            run.check(ok_any, R, c, "the requested spec version is not passed on to %s: the content is interpreted by detection or "
                      "the default instead of the named version" % callee, file=fi.module.relpath, line=call.lineno,
                      function=fi.qualname, expected="version argument derived from %s" % src, found=found)
    # parse(): whatever it returns was produced by dict_to_stix2 under the version in force -- also for input that already is a
    # library object (parse(obj, version=V) re-reads the object's content under V); an early `return data` ignores the version
    pf = prog.func("stix2.parsing::parse")
    gp = cfg_of(pf)
    rets_p = [r for r in returns_of(pf)]
    okp = bool(rets_p) and all(flow_of(pf).prov(r.value).calls & {"dict_to_stix2"} for r in rets_p if r.value is not None) \
        and all(r.value is not None for r in rets_p)
    run.check(okp, R, key(pf.module.relpath, pf.qualname, "every-answer-through-dict_to_stix2"),
              "parse() can answer without passing the content through dict_to_stix2: the named version (and its strictness) is "
              "ignored for that input form", file=pf.module.relpath, line=pf.node.lineno, function=pf.qualname,
              expected="return dict_to_stix2(<content>, ..., version) on every path", found=[short(r, 60) for r in rets_p])
    # the stores hand RAW content to _add, which parses each object under the named version; content parsed beforehand (as a
    # whole, e.g. as a bundle) reaches _add as finished objects and is stored as it is
    lf = prog.cls("stix2.datastore.memory::MemorySource").methods["load_from_file"]
    gl = cfg_of(lf)
    rdl = ReachingDefs(gl, lf.all_param_names())
    for c in [c for c in body_walk(lf.node) if isinstance(c, ast.Call) and call_simple_name(c) == "_add" and len(c.args) > 1]:
        st_ = c
        while not isinstance(st_, ast.stmt):
            st_ = st_.parent
        a1 = c.args[1]
        vals = [v for _d, v in rdl.reaching(gl.node_of(st_), a1.id)] if isinstance(a1, ast.Name) else [a1]
        okr = bool(vals) and all(isinstance(v, ast.Call) and norm(v.func) in ("json.load", "json.loads") for v in vals)
        run.check(okr, R, key(lf.module.relpath, lf.qualname, "raw-content-reaches-_add"),
                  "what load_from_file hands to _add is not (only) the decoded file content: content parsed beforehand is stored as "
                  "the objects that parse produced -- for a bundle, members detected one by one whatever version was named",
                  file=lf.module.relpath, line=c.lineno, function=lf.qualname, expected="_add(self, json.load(f), ...)",
                  found=[short(v, 60) if isinstance(v, ast.AST) else str(v) for v in vals])
    # frozen exception (reason): STIXObjectProperty.clean -> parse passes no version; bundle members are detected
    # individually and a 2.0 bundle refuses 2.1 members explicitly.
    so = prog.cls("stix2.properties::STIXObjectProperty").methods["clean"]
    guard = any("spec_version" in norm(t) and "'2.0'" in norm(t) for n in body_walk(so.node) if isinstance(n, ast.If)
                for t in [n.test] if any(isinstance(x, ast.Raise) for x in n.body))
    run.check(guard, R, key(so.module.relpath, so.qualname, "v20-bundle-refuses-v21-members"),
              "a 2.0 bundle no longer refuses members of another version (the reason parse() may detect per member)",
              file=so.module.relpath, line=so.node.lineno, function=so.qualname,
              expected="if 'spec_version' in member and self.spec_version == '2.0': raise", found="absent")
    run.floor(R, 20)


# version constants bound in version-agnostic code without a guard on the version in force: (caller, callee) -> reason
VERSION_CONSTANT_OK = {
    ("stix2.versioning::new_version", "stix2.utils::is_sco"):
        "asks 'is this a STIX 2.1 cyber-observable' -- a question about that version (the locked-property rule exists only there)",
}


def rule_version_constants(ctx, rule_id="C14.version-constants"):
    """Code outside the v20 / v21 packages serves both versions.  A literal '2.0' / '2.1' bound to a version parameter there
    applies that version's rules to every object -- unless the call sits under a test of the version in force (isinstance of
    the version base class, a spec_version comparison)."""
    run = ctx.run
    prog = ctx.prog
    cg = get_callgraph(prog)
    n = 0
    for fi in sorted(prog.functions.values(), key=lambda f: f.id):
        if fi.module.relpath.startswith("stix2/test") or module_version(fi.module) is not None or "workbench" in fi.module.name:
            continue
        for call in cg.calls_in(fi):
            ts = [t for t in cg.resolve(call, fi) if t.func is not None and t.kind in (EXACT, CHA)]
            if len(ts) != 1:
                continue
            t = ts[0]
            vp = [p for p in VERSION_PARAMS if p in t.func.all_param_names()]
            if not vp:
                continue
            e = cg.bind(call, t).params.get(vp[0])
            if not (isinstance(e, ast.Constant) and e.value in ("2.0", "2.1")):
                continue
            n += 1
            c = key(fi.module.relpath, fi.qualname, "%s:%s" % (short(call, 60), e.value))
            if (fi.id, t.func.id) in VERSION_CONSTANT_OK:
                run.ok(rule_id, c, VERSION_CONSTANT_OK[(fi.id, t.func.id)])
                continue
            guarded = any(_version_test(norm(tt)) for tt, _pol, _ in guard_chain(call))
            run.check(guarded, rule_id, c,
                      "%s serves both spec versions but applies the %s rules (%s) to every object: a %s object is then judged by "
                      "the other version's rules (e.g. a STIX 2.0 object with an unknown property and a 'toplevel-property-extension' "
                      "entry passes a strict parse with version='2.0')" % (fi.qualname, e.value, t.func.id, "2.0" if e.value == "2.1" else "2.1"),
                      file=fi.module.relpath, line=call.lineno, function=fi.qualname,
                      expected="a guard on the version in force (isinstance(self, _STIXBase20/21), spec_version ==)", found=short(call))
    if n < 2:
        raise AnalysisError("fewer than 2 version constants in version-agnostic code found (%d)" % n)


ONLY_21 = ("extension-definition--", "toplevel-property-extension", "property-extension", "new-sdo", "new-sco", "new-sro")
ONLY_21_OK = {
    "stix2.custom::_custom_extension_builder":
        "acts on the `extension_type` attribute the USER's class defines: the 2.1 notion is invoked by the caller, not inferred "
        "from content",
}


def _version_test(txt):
    """is the (normalised) test text a test of the VERSION IN FORCE?  isinstance against a version marker class, or a comparison
    of a version-valued expression (a name / attribute / .get('spec_version') called version, spec_version, stix_version) with
    version constants.  A membership test of the STRING 'spec_version' in a property table is not one: the 2.0 bundle has a
    spec_version property."""
    try:
        tree = ast.parse(txt, mode="eval").body
    except SyntaxError:
        return any(m in txt for m in ("_STIXBase20", "_STIXBase21"))

    def version_valued(e):
        if isinstance(e, ast.Name):
            return e.id in ("version", "spec_version", "stix_version", "ver")
        if isinstance(e, ast.Attribute):
            return e.attr in ("version", "spec_version", "stix_version", "_spec_version")
        if isinstance(e, ast.Call) and isinstance(e.func, ast.Attribute) and e.func.attr == "get" and e.args \
                and isinstance(e.args[0], ast.Constant) and e.args[0].value == "spec_version":
            return True
        if isinstance(e, ast.Subscript) and isinstance(e.slice, ast.Constant) and e.slice.value == "spec_version":
            return True
        if isinstance(e, ast.Call) and getattr(e.func, "id", getattr(e.func, "attr", "")) in ("detect_spec_version", "_get_stix_version"):
            return True
        return False

    def version_consts(e):
        if isinstance(e, ast.Constant):
            return e.value in ("2.0", "2.1")
        if isinstance(e, (ast.Tuple, ast.List, ast.Set)):
            return bool(e.elts) and all(version_consts(x) for x in e.elts)
        return isinstance(e, ast.Name) and e.id in ("DEFAULT_VERSION",)
    for x in ast.walk(tree):
        if isinstance(x, ast.Call) and getattr(x.func, "id", "") == "isinstance" and len(x.args) == 2 and any(
                m in ast.unparse(x.args[1]) for m in ("_STIXBase20", "_STIXBase21")):
            return True
        if isinstance(x, ast.Compare) and len(x.ops) == 1:
            l_, r_ = x.left, x.comparators[0]
            if (version_valued(l_) and (version_consts(r_) or version_valued(r_))) or (version_valued(r_) and version_consts(l_)):
                return True
    return False


def rule_only_21_mechanisms(ctx, rule_id="C14.version-constants"):
    """Extension definitions (keys `extension-definition--<id>`, the extension types new-sdo / new-sco / new-sro /
    property-extension / toplevel-property-extension) exist in STIX 2.1 only.  Code that serves both versions and DECIDES
    something by them must do so under a test of the version in force; otherwise content handled as 2.0 -- because the caller
    named version='2.0', or because the object is a 2.0 object -- gets 2.1's escape hatches: an unknown extension key is kept
    uncleaned by a strict 2.0 constructor, an unknown type with a 'new-sdo' entry passes a strict parse with version='2.0'."""
    run = ctx.run
    prog = ctx.prog
    n = 0
    for fi in sorted(prog.functions.values(), key=lambda f: f.id):
        if fi.module.relpath.startswith("stix2/test") or module_version(fi.module) is not None or "workbench" in fi.module.name:
            continue
        k_ = 0
        for iff in [x for x in body_walk(fi.node) if isinstance(x, (ast.If, ast.IfExp))]:
            marks = sorted({c_.value for c_ in ast.walk(iff.test) if isinstance(c_, ast.Constant) and c_.value in ONLY_21})
            if not marks:
                continue
            n += 1
            k_ += 1
            c = key(fi.module.relpath, fi.qualname, "2.1-only-mechanism-under-a-version-test#%d" % k_)
            if fi.id in ONLY_21_OK:
                run.ok(rule_id, c, ONLY_21_OK[fi.id])
                continue
            guarded = _version_test(norm(iff.test)) or any(_version_test(norm(tt)) for tt, _pol, _ in guard_chain(iff))
            if not guarded:
                # the decision sits in a loop over a collection that an earlier version test EMPTIES for the other version:
                #     if version == "2.0" or ...: xs = {}        for k, v in xs.items(): if <2.1-only test> ...
                lp = getattr(iff, "parent", None)
                while lp is not None and not isinstance(lp, (ast.For, ast.FunctionDef)):
                    lp = getattr(lp, "parent", None)
                if isinstance(lp, ast.For):
                    coll = lp.iter
                    while isinstance(coll, ast.Call) and isinstance(coll.func, ast.Attribute) and coll.func.attr in ("items", "keys", "values"):
                        coll = coll.func.value
                    if isinstance(coll, ast.Name):
                        for e_ in body_walk(fi.node):
                            if isinstance(e_, ast.If) and e_.lineno < lp.lineno and any(
                                    _version_test(norm(d_)) and ("== '2.0'" in norm(d_) or "!= '2.1'" in norm(d_) or (
                                        "_STIXBase20" in norm(d_) and not norm(d_).startswith("not "))) for d_ in (e_.test.values if isinstance(e_.test, ast.BoolOp) and isinstance(
                                        e_.test.op, ast.Or) else [e_.test])) and any(
                                    isinstance(a_, ast.Assign) and norm(a_.targets[0]) == coll.id and isinstance(a_.value, (ast.Dict, ast.List, ast.Tuple))
                                    and not (a_.value.keys if isinstance(a_.value, ast.Dict) else a_.value.elts) for a_ in e_.body):
                                guarded = True
            run.check(guarded, rule_id, c,
                      "%s serves both spec versions and decides by a STIX 2.1-only mechanism (%s) without a test of the version in "
                      "force: content handled as STIX 2.0 gets the 2.1 escape hatch" % (fi.qualname, ", ".join(marks)),
                      file=fi.module.relpath, line=iff.lineno, function=fi.qualname,
                      expected="a guard on the version in force around the test", found=short(iff.test, 100))
    if n < 4:
        raise AnalysisError("fewer than 4 decisions by 2.1-only mechanisms found in version-agnostic code (%d)" % n)


def rule_detect(ctx):
    run = ctx.run
    prog = ctx.prog
    R = "C14.detect"
    for fid in ("stix2.parsing::dict_to_stix2", "stix2.parsing::parse_observable"):
        fi = prog.func(fid)
        calls = [c for c in body_walk(fi.node) if isinstance(c, ast.Call) and call_simple_name(c) == "detect_spec_version"]
        ok = bool(calls)
        found = []
        for c in calls:
            gc = guard_chain(c)
            found.append([norm(t) for t, p, _ in gc])
            if not (len(gc) == 1 and gc[0][1] and norm(gc[0][0]) == "not version"):
                ok = False
            st = c
            while not isinstance(st, ast.stmt):
                st = st.parent
            if not (isinstance(st, ast.Assign) and norm(st.targets[0]) == "version"):
                ok = False
        run.check(ok, R, key(fi.module.relpath, fi.qualname, "detect-only-without-version"),
                  "the version detector can override (or is not used in place of) a named version", file=fi.module.relpath,
                  line=fi.node.lineno, function=fi.qualname, expected="if not version: version = detect_spec_version(...)",
                  found=found)
        # the class lookup uses `version`
        look = [c for c in body_walk(fi.node) if isinstance(c, ast.Call) and call_simple_name(c) == "class_for_type"]
        okl = bool(look) and all(len(c.args) >= 2 and norm(c.args[1]) == "version" for c in look)
        run.check(okl, R, key(fi.module.relpath, fi.qualname, "lookup-uses-version"), "class lookup ignores the version",
                  file=fi.module.relpath, line=fi.node.lineno, function=fi.qualname,
                  expected="class_for_type(type, version, category)", found=[short(c) for c in look])


# call sites where a version is in scope and deliberately not passed on: (caller id, callee id) -> reason
VERSION_NOT_FORWARDED_OK = {
    # (empty: the one former exemption -- STIXObjectProperty.clean -> parse(), "bundle members are detected individually" --
    # turned out to hide a genuine violation: parse(bundle, version=V) applies V to the wrapper only.  It is a recorded
    # known finding now, see known_findings.json.)
}


def scope_version(prog, fi):
    """where the spec version in force comes from at this function: its own parameter, the property object's attribute,
    or the version package the code lives in"""
    ps = [p for p in fi.all_param_names() if p in VERSION_PARAMS]
    if ps:
        return "param", ps[0]
    if fi.cls is not None:
        for k in fi.cls.mro:
            init = k.methods.get("__init__")
            if init is None:
                continue
            for n in body_walk(init.node):
                if isinstance(n, ast.Assign) and isinstance(n.targets[0], ast.Attribute) and norm(n.targets[0]) == "self.spec_version":
                    return "selfattr", "spec_version"
    return module_version(fi.module)


def module_version(mod):
    parts = mod.name.split(".")
    if "v20" in parts:
        return "module", "2.0"
    if "v21" in parts:
        return "module", "2.1"
    return None


# functions that may REPLACE an absent version by the detected one (and only then): everything else hands on exactly what it got
DETECTOR_SITES = ("stix2.parsing::dict_to_stix2", "stix2.parsing::parse_observable", "stix2.versioning::new_version",
                  "stix2.versioning::_get_stix_version")


def rule_version_in_scope(ctx, rule_id="C14.version-in-scope", only_callees=None, only_modules=None):
    """Generalisation of the frozen chains above: at EVERY resolved call site where the caller knows the spec version in
    force and the callee takes one, the callee's version parameter is bound to it.  An omitted argument silently means
    "the library default" (2.1) or "detect"."""
    run = ctx.run
    prog = ctx.prog
    cg = get_callgraph(prog)
    from ..tableeval import Evaluator
    default = Evaluator(prog, allow_dyn=True).eval(prog.module("stix2.version").scope.lookup_local("DEFAULT_VERSION").value,
                                                    prog.module("stix2.version").scope)
    n = 0
    ordinal = {}
    for fi in sorted(prog.functions.values(), key=lambda f: f.id):
        if "/test/" in fi.module.relpath or fi.module.relpath.startswith("stix2/test"):
            continue
        if only_modules is not None and not fi.module.name.startswith(tuple(only_modules)):
            continue
        sv = scope_version(prog, fi)
        if sv is None:
            continue
        for call in cg.calls_in(fi):
            ts = [t for t in cg.resolve(call, fi) if t.func is not None and t.kind in (EXACT, CHA)]
            if len(ts) != 1:
                continue
            t = ts[0]
            vp = [p for p in VERSION_PARAMS if p in t.func.all_param_names()]
            if not vp:
                continue
            if only_callees is not None and t.func.id not in only_callees:
                continue
            n += 1
            # the construct is named by caller, callee and the ordinal of the call among the caller's calls to that callee
            # (not by the call's text: local names and keyword order are free to change)
            k_ = ordinal.get((fi.id, t.func.id), 0)
            ordinal[(fi.id, t.func.id)] = k_ + 1
            c = key(fi.module.relpath, fi.qualname, "->%s%s:%s" % (t.func.id, "#%d" % (k_ + 1) if k_ else "", vp[0]))
            b = cg.bind(call, t)
            e = b.params.get(vp[0])
            if e is None:
                why = VERSION_NOT_FORWARDED_OK.get((fi.id, t.func.id))
                if why or (sv == ("module", default)):
                    run.ok(rule_id, c)
                    continue
                run.violation(rule_id, c, "%s knows the spec version in force (%s %s) but calls %s without it: the callee falls back "
                              "to the library default (%s) / detection, so content of the other version is judged by the wrong "
                              "rules" % (fi.qualname, sv[0], sv[1], t.func.id, default), file=fi.module.relpath, line=call.lineno,
                              function=fi.qualname, expected="%s=<the version in force>" % vp[0], found="omitted")
                continue
            if sv[0] == "module":
                ok = isinstance(e, ast.Constant) and e.value == sv[1]
                if not ok:
                    pr = flow_of(fi).prov(e)
                    ok = bool(pr.params & set(VERSION_PARAMS))
                found = norm(e)
            else:
                pr = flow_of(fi).prov(e)
                ok = (sv[1] in pr.params) if sv[0] == "param" else (sv[1] in pr.selfattrs)
                # handed on as received: a function that computes a version of its own (detects it once for a whole bundle,
                # falls back to a default) and passes THAT down names a version the caller never named
                if ok and sv[0] == "param" and fi.id not in DETECTOR_SITES and (pr.calls or (pr.params - {sv[1]})):
                    ok = False
                # ... and never mixed with a hard-coded version on some path
                if ok and any(isinstance(c_, str) and c_ in ("2.0", "2.1") for c_ in pr.consts):
                    ok = False
                found = repr(pr)
            run.check(ok, rule_id, c, "the version handed to %s is not the version in force at this call site" % t.func.id,
                      file=fi.module.relpath, line=call.lineno, function=fi.qualname, expected="%s %s" % sv, found=found)
    # class bodies of the version packages: property tables are built there
    from ..loader import ClassInfo, FunctionInfo
    for mod in sorted(prog.modules.values(), key=lambda m: m.name):
        if only_modules is not None:
            continue
        mv = module_version(mod)
        if mv is None or mod.relpath.startswith("stix2/test"):
            continue
        for cls in [k for k in prog.classes.values() if k.module is mod]:
            for node in cls.node.body:
                if isinstance(node, (ast.FunctionDef, ast.AsyncFunctionDef, ast.ClassDef)):
                    continue
                for call in [x for x in ast.walk(node) if isinstance(x, ast.Call)]:
                    d = prog.deref(prog.resolve_expr(cls.scope if hasattr(cls, "scope") else mod.scope, call.func)) \
                        if isinstance(call.func, (ast.Name, ast.Attribute)) else None
                    target = None
                    if isinstance(d, ClassInfo):
                        for k in d.mro:
                            if "__init__" in k.methods:
                                target = k.methods["__init__"]
                                break
                    elif isinstance(d, FunctionInfo):
                        target = d
                    if target is None:
                        continue
                    vp = [p for p in VERSION_PARAMS if p in target.all_param_names()]
                    if not vp:
                        continue
                    if only_callees is not None and target.id not in only_callees:
                        continue
                    n += 1
                    kw = {k.arg: k.value for k in call.keywords if k.arg}
                    e = kw.get(vp[0])
                    if e is None:
                        # positional binding
                        params = [p for p in target.params if p != "self"]
                        if vp[0] in params and params.index(vp[0]) < len(call.args):
                            e = call.args[params.index(vp[0])]
                    c = key(mod.relpath, cls.qualname, "%s:%s" % (short(call, 70), vp[0]))
                    if e is None:
                        run.check(mv[1] == default, rule_id, c, "a STIX %s class builds %s without naming its spec version: the "
                                  "property validates by the library default (%s) rules" % (mv[1], short(call.func), default),
                                  file=mod.relpath, line=call.lineno, function=cls.qualname,
                                  expected="%s='%s'" % (vp[0], mv[1]), found="omitted")
                    else:
                        run.check(isinstance(e, ast.Constant) and e.value == mv[1], rule_id, c,
                                  "a STIX %s class builds a property for another spec version" % mv[1], file=mod.relpath,
                                  line=call.lineno, function=cls.qualname, expected="%s='%s'" % (vp[0], mv[1]), found=norm(e))
    if only_callees is None and only_modules is None:
        run.extra["version_in_scope_sites"] = n
        run.floor(rule_id, 300)
    elif only_modules is not None:
        run.floor(rule_id, 20)


def rule_version_bases(ctx, rule_id="C14.version-in-scope"):
    """Which version's rules apply to a library object is decided by its CLASS: isinstance(obj, _STIXBase20 / _STIXBase21)
    (versioning, the toplevel-extension mechanism, marking precision).  Every object class defined under stix2/v20 has the 2.0
    marker base in its resolved MRO and every one under stix2/v21 the 2.1 marker -- an import of the version-neutral base of
    the same name (`from ..base import _RelationshipObject` instead of `from .base import ...`) silently takes it away."""
    run = ctx.run
    prog = ctx.prog
    n = 0
    sbase = prog.cls("stix2.base::_STIXBase")
    for ver, marker in (("v20", "stix2.v20.base::_STIXBase20"), ("v21", "stix2.v21.base::_STIXBase21")):
        mk = prog.cls(marker)
        for c in sorted(prog.classes.values(), key=lambda c_: c_.id):
            if not c.module.name.startswith("stix2.%s." % ver) or getattr(c, "parent_func", None) is not None:
                continue
            mro = c.mro or []
            if sbase not in mro or c is mk:
                continue
            if c.module.name.endswith(".base"):
                continue
            n += 1
            run.check(mk in mro, rule_id, key(c.module.relpath, c.name, "version-marker-base"),
                      "a class of stix2/%s does not derive from %s: the library decides by isinstance() which version's rules an "
                      "object is under -- this one is versioned with the other version's timestamp granularity, and is not "
                      "recognised as %s content" % (ver, marker.split("::")[1], "2.0" if ver == "v20" else "2.1"), file=c.module.relpath,
                      line=c.node.lineno, function=c.name, expected="%s in the MRO" % marker.split("::")[1],
                      found=[getattr(b, "id", str(b)) for b in mro][:6])
    if n < 100:
        raise AnalysisError("fewer than 100 versioned object classes found (%d)" % n)
    return n


def rule_no_redetection_below_a_version_in_force(ctx, R="C14.version-in-scope"):
    """Detection by content is the FALLBACK for "no version named" and happens once, where the version parameter is defaulted.
    A helper that is called from a function with a version in force, takes no version itself and asks detect_spec_version()
    about the content decides by what the content CLAIMS (a 'spec_version' key) instead of by what it is being read as:
    content read as 2.0 that carries "spec_version": "2.1" gets the 2.1-only treatment (the new-object extension escape).
    For every call from a function with a `version` parameter to a package function without one: the callee does not consult
    the detector (followed through one level of such helpers)."""
    run = ctx.run
    prog = ctx.prog
    n = 0
    k_ = 0

    def detects(fn, depth=0):
        for c in body_walk(fn.node):
            if isinstance(c, ast.Call) and call_simple_name(c) == "detect_spec_version":
                return c
            if depth < 1 and isinstance(c, ast.Call) and isinstance(c.func, (ast.Name, ast.Attribute)):
                d = prog.deref(prog.resolve_expr(fn.scope, c.func))
                if isinstance(d, FunctionInfo) and d is not fn and "version" not in d.all_param_names() and d.name != "detect_spec_version":
                    hit = detects(d, depth + 1)
                    if hit is not None:
                        return hit
        return None
    for fi in sorted(prog.functions.values(), key=lambda f: f.id):
        if fi.module.relpath.startswith("stix2/test") or fi.module.name.startswith(("stix2.workbench", "stix2.equivalence")):
            continue
        if "version" not in fi.all_param_names():
            continue
        for c in body_walk(fi.node):
            if not (isinstance(c, ast.Call) and isinstance(c.func, (ast.Name, ast.Attribute))):
                continue
            d = prog.deref(prog.resolve_expr(fi.scope, c.func))
            if not isinstance(d, FunctionInfo) or d is fi or d.name == "detect_spec_version" or "version" in d.all_param_names():
                continue
            if d.module.relpath.startswith("stix2/test"):
                continue
            n += 1
            hit = detects(d)
            if hit is not None:
                k_ += 1
                run.violation(R, key(fi.module.relpath, fi.qualname, "helper-redetects-version#%d" % k_),
                              "%s() is called where a version is in force but takes none and asks detect_spec_version() about the "
                              "content: it decides by the version the content claims, not by the one it is read as -- content read "
                              "as 2.0 that carries a 'spec_version' key gets 2.1-only treatment" % d.name, file=fi.module.relpath,
                              line=c.lineno, function=fi.qualname, expected="the helper takes the version in force as a parameter",
                              found="%s -> %s" % (short(c, 60), short(hit, 60)))
    run.extra["versionless_helper_calls_examined"] = n
    if n < 10:
        raise AnalysisError("fewer than 10 calls from versioned functions to version-less package functions (%d): resolution lost" % n)
    run.ok(R, key("stix2", "<versioned functions>", "no-redetection-in-helpers"))
