"""C05 — new versions are strictly newer, identity-preserving and exact.

Decides the shape of new_version()/revoke()/_fudge_modified(): the ordered
must-pass-through pipeline, the unmodifiable and SCO-locked property sets, the
agreement between the timestamp fudge granularity and the serialisation
precision stated in the tables, the strictness/direction of the comparisons,
and that the wall clock is reached only through get_timestamp.  Arithmetic over
all clock readings and chains of versions is not decided.
"""
import ast

from ..astutil import body_raises, call_simple_name, dotted, exc_name, guard_chain, names_in, pm, pmall, returns_of, short
from ..cfg import cfg_of, node_calls, own_exprs
from ..forward import flow_of
from ..loader import AnalysisError, External, FunctionInfo, body_walk, norm, walk_no_nested
from ..report import key
from ..tableeval import Evaluator
from ..typemodel import get_model

PROP = "C05"
V = "stix2.versioning"


def run(ctx):
    run = ctx.run
    run.explanation = (
        "CFG must-pass-through and dominance ordering of the stages of new_version() (versionable check, revoked refusal, deep "
        "copy before update, unmodifiable refusal, exactly one of strict compare of a supplied `modified` / clock + fudge, "
        "None filtering), evaluated constants (unmodifiable set, SCO lock under UUIDv5), table<->code agreement of the fudge "
        "granularity with the `modified` precision of every versionable class of both versions, comparison direction and "
        "strictness, who-may-call of the wall clock. Clock arithmetic over all readings is not decided."
    )
    run.trusted_base = ["CPython ast", "spec model for the modified precision (shared with C01/C02)"]
    run.assumptions = ["datetime comparison/timedelta semantics of CPython"]
    ctx.do(rule_pipeline)
    ctx.do(rule_unmodifiable)
    ctx.do(rule_granularity)
    ctx.do(rule_strict_compare)
    ctx.do(rule_clock)
    ctx.do(rule_version_chain)
    from . import C14 as _C14
    ctx.do(_C14.rule_version_bases, rule_id="C05.granularity")
    # "strictly newer" compares instants: no re-labelling of time zones on the way (C15.utc clause)
    from . import C15
    ctx.do(C15.rule_no_relabel, rule_id="C05.instants-not-relabelled")
    ctx.do(C15.rule_truncated_in_utc, rule_id="C05.instants-not-relabelled")
    # "strictly newer" is judged on the value as it will be WRITTEN: a supplied modified time goes through the truncation of its
    # slot (millisecond, exact for 2.0) before it is compared -- every path through parse_into_datetime attaches and applies
    # the slot's precision, a shortcut for values that "already have it" lets sub-millisecond digits through the comparison
    ctx.do(C15.rule_truncate, rule_id="C05.granularity")
    # the object (or dict) a new version is derived from is left exactly as it was: effect analysis of C13 over the versioning
    # and marking entry points
    from . import C13
    ctx.do(C13.rule_no_param_mutation, rule_id="C05.previous-version-untouched", modules=("stix2.versioning", "stix2.markings.granular_markings", "stix2.markings.object_markings", "stix2.markings.utils", "stix2.markings"), floor=20)
    from . import C15 as _C15v
    ctx.do(_C15v.rule_value_object, rule_id="C05.instants")
    from .hidden_state import rule_no_hidden_state
    ctx.do(rule_no_hidden_state, "C05.history-independence")
    from .pitfalls import rule_loops_not_cut_short
    ctx.do(rule_loops_not_cut_short, "C05.loops-complete")
    from .pitfalls import rule_definite_assignment
    ctx.do(rule_definite_assignment, "C05.definite-assignment")


def rule_pipeline(ctx):
    run = ctx.run
    prog = ctx.prog
    R = "C05.pipeline"
    fi = prog.func(V + "::new_version")
    run.anchor(fi.id, fi.where)
    rel = fi.module.relpath
    g = cfg_of(fi)
    dom = g.dominators()
    data = fi.params[0]

    def stage(name, pred, expected, must=True):
        nodes = [n for n in g.nodes if pred(n)]
        c = key(rel, fi.qualname, name)
        if not nodes:
            run.violation(R, c, "stage missing from new_version()", file=rel, line=fi.node.lineno, function=fi.qualname,
                          expected=expected, found="absent")
            return None
        if must:
            ok, path = g.must_pass(lambda n: n in nodes)
            if not ok:
                run.violation(R, c, "a normal path through new_version() skips this stage", file=rel, line=nodes[0].lineno,
                              function=fi.qualname, expected=expected, found="bypass", path=g.describe_path(path))
                return None
        run.ok(R, c, file=rel, line=nodes[0].lineno)
        return nodes

    a = stage("versionable-check", lambda n: n.kind == "stmt" and node_calls(
        n, lambda c: call_simple_name(c) == "_check_versionable_object" and c.args and norm(c.args[0]) == data),
        "_check_versionable_object(data)")

    def is_revoked_test(n):
        return n.kind == "test" and isinstance(n.ast, ast.If) and "revoked" in norm(n.ast.test) and data in names_in(n.ast.test) \
            and any(isinstance(s, ast.Raise) and exc_name(s) == "RevokeError" for s in n.ast.body)
    b = stage("revoked-refused", is_revoked_test, "if data.get('revoked'): raise RevokeError")

    def is_copy(n):
        if n.kind != "stmt" or not isinstance(n.ast, ast.Assign):
            return False
        v = n.ast.value
        return isinstance(v, ast.Call) and dotted(v.func) == "copy.deepcopy" and v.args and data in names_in(v.args[0])
    c_ = stage("deep-copy-of-source", is_copy, "new_obj_inner = copy.deepcopy(data._inner | data)")

    def is_unmod_test(n):
        return n.kind == "test" and isinstance(n.ast, ast.If) and any(
            isinstance(s, ast.Raise) and exc_name(s) == "UnmodifiablePropertyError" for s in n.ast.body)
    d = stage("unmodifiable-refused", is_unmod_test, "if <unmodifiable in kwargs>: raise UnmodifiablePropertyError")

    def is_update(n):
        return n.kind == "stmt" and node_calls(n, lambda c: isinstance(c.func, ast.Attribute) and c.func.attr == "update"
                                               and c.args and norm(c.args[0]) == (fi.kwarg or "kwargs"))
    e = stage("changes-applied", is_update, "new_obj_inner.update(kwargs)")
    # the updated mapping is the deep copy
    if c_ and e:
        copy_var = norm(c_[0].ast.targets[0])
        upd_call = [c for c in body_walk(fi.node) if isinstance(c, ast.Call) and isinstance(c.func, ast.Attribute)
                    and c.func.attr == "update" and c.args and norm(c.args[0]) == (fi.kwarg or "kwargs")][0]
        run.check(norm(upd_call.func.value) == copy_var and all(norm(x.ast.targets[0]) == copy_var for x in c_), R,
                  key(rel, fi.qualname, "update-targets-the-copy"), "the changes are applied to something other than the deep copy "
                  "(the original would be modified)", file=rel, line=upd_call.lineno, function=fi.qualname,
                  expected="%s.update(kwargs)" % copy_var, found=norm(upd_call))

    # every channel of change is APPLIED: the constructor looks property values up in ChainMap(kwargs, custom_props) -- keyword
    # arguments win -- and new_version() hands the old values over as keyword arguments, so a change given through
    # `custom_properties` (which new_version() itself counts among the requested changes) loses against the old value unless the
    # old value is taken out of the copy first
    init = prog.func("stix2.base::_STIXBase.__init__")
    kw_first = any(isinstance(c, ast.Call) and norm(c.func).endswith("ChainMap") and len(c.args) == 2 and norm(c.args[0]) == (init.kwarg or "kwargs")
                   for c in body_walk(init.node)) and any(
        isinstance(c, ast.Call) and norm(c.func).endswith(".pop") and c.args and isinstance(c.args[0], ast.Constant)
        and c.args[0].value == "custom_properties" for c in body_walk(init.node))
    if c_ and not kw_first:
        run.info(R, key(rel, fi.qualname, "custom-properties-changes-applied"), "the constructor no longer prefers keyword arguments "
                 "to custom_properties: not judged")
    elif c_:
        copy_var = norm(c_[0].ast.targets[0])
        fl_ = flow_of(fi)
        removed = []
        for n_ in body_walk(fi.node):
            subj = None
            if isinstance(n_, ast.Call) and isinstance(n_.func, ast.Attribute) and n_.func.attr == "pop" and norm(n_.func.value) == copy_var and n_.args:
                subj = n_.args[0]
            elif isinstance(n_, ast.Delete) and isinstance(n_.targets[0], ast.Subscript) and norm(n_.targets[0].value) == copy_var:
                subj = n_.targets[0].slice
            if subj is not None:
                pr_ = fl_.prov(subj)
                if "custom_properties" in [x for x in pr_.consts if isinstance(x, str)] and (fi.kwarg or "kwargs") in pr_.params:
                    removed.append(n_)
        run.check(bool(removed), R, key(rel, fi.qualname, "custom-properties-changes-applied"),
                  "a change requested through `custom_properties` is ignored for every property the object already has: the old value "
                  "is passed to the constructor as a keyword argument, and the constructor prefers keyword arguments to "
                  "custom_properties -- obj.new_version(custom_properties={'x_foo': 2}) keeps x_foo=1, and {'x_foo': None} does not "
                  "remove it, although new_version() counts those names among the requested changes", file=rel,
                  line=(e[0].lineno if e else fi.node.lineno), function=fi.qualname,
                  expected="for prop in kwargs['custom_properties']: %s.pop(prop, None) (unless given as a keyword too)" % copy_var,
                  found="the old values stay in %s" % copy_var)

    # modified: exactly one of the two branches
    def is_mod_branch(n):
        return n.kind == "test" and isinstance(n.ast, ast.If) and norm(n.ast.test) in ("'modified' in kwargs", '"modified" in kwargs')
    f = stage("modified-branch", is_mod_branch, "if 'modified' in kwargs: <compare> else: <clock + fudge>")
    if f and c_ and kw_first:
        # ... and "supplied" means supplied through EITHER channel of change: a `modified` given in custom_properties is brought
        # under the same test (moved into the keyword arguments before the branch), or it is silently replaced by the clock
        # reading -- neither compared with the old time nor applied
        kwn = fi.kwarg or "kwargs"
        fl2 = flow_of(fi)
        moved = []
        for n_ in body_walk(fi.node):
            val = None
            if isinstance(n_, ast.Call) and isinstance(n_.func, ast.Attribute) and n_.func.attr == "setdefault" and norm(n_.func.value) == kwn \
                    and len(n_.args) == 2 and isinstance(n_.args[0], ast.Constant) and n_.args[0].value == "modified":
                val = n_.args[1]
            elif isinstance(n_, ast.Assign) and isinstance(n_.targets[0], ast.Subscript) and norm(n_.targets[0].value) == kwn \
                    and isinstance(n_.targets[0].slice, ast.Constant) and n_.targets[0].slice.value == "modified":
                val = n_.value
            if val is not None and n_.lineno < f[0].ast.lineno and "custom_properties" in [x for x in fl2.prov(val).consts if isinstance(x, str)]:
                moved.append(n_)
        tested = f[0].ast.test.comparators[0] if isinstance(f[0].ast.test, ast.Compare) else None
        both = tested is not None and "custom_properties" in [x for x in fl2.prov(tested, g.node_of(f[0].ast)).consts if isinstance(x, str)]
        run.check(bool(moved) or both, R, key(rel, fi.qualname, "supplied-modified-either-channel"),
                  "a `modified` time supplied through custom_properties is neither compared with the old one nor applied: the branch "
                  "looks at the keyword names only, takes the clock, and the keyword argument it stores shadows the value given -- "
                  "obj.new_version(custom_properties={'modified': <earlier>}) is accepted, {'modified': <later>} is ignored", file=rel,
                  line=f[0].ast.lineno, function=fi.qualname,
                  expected="kwargs.setdefault('modified', kwargs['custom_properties']['modified']) before the branch (or a test of both)",
                  found=norm(f[0].ast.test))
        # the move reads ['modified'] of custom_properties: it stands under a POSITIVE membership test for that key (or .get);
        # under the negated test every new_version(custom_properties={...}) without a modified time raises KeyError
        for mv in moved:
            subs = [x_ for x_ in ast.walk(mv) if isinstance(x_, ast.Subscript) and isinstance(x_.slice, ast.Constant) and x_.slice.value == "modified"
                    and isinstance(x_.ctx, ast.Load) and "custom_properties" in norm(x_.value)]
            if not subs:
                continue
            okp = any(pol and isinstance(t_, ast.Compare) and len(t_.ops) == 1 and isinstance(t_.ops[0], ast.In)
                      and isinstance(t_.left, ast.Constant) and t_.left.value == "modified" and "custom_properties" in norm(t_.comparators[0])
                      for t_, pol, _ in guard_chain(mv)) or any(
                (not pol) and isinstance(t_, ast.Compare) and len(t_.ops) == 1 and isinstance(t_.ops[0], ast.NotIn)
                and isinstance(t_.left, ast.Constant) and t_.left.value == "modified" and "custom_properties" in norm(t_.comparators[0])
                for t_, pol, _ in guard_chain(mv))
            run.check(okp, R, key(rel, fi.qualname, "moved-modified-read-under-presence-test"),
                      "the modified time is read from custom_properties with a subscript that is not under a positive presence "
                      "test: KeyError('modified') escapes from new_version() for every change set given through custom_properties "
                      "without a modified time (or the supplied time is ignored)", file=rel, line=mv.lineno, function=fi.qualname,
                      expected="if 'modified' in kwargs['custom_properties']: ...", found=[norm(t_) for t_, _p, _ in guard_chain(mv)])
    if f:
        br = f[0].ast
        sup = [s for s in br.body if isinstance(s, ast.If) and any(isinstance(x, ast.Raise) for x in s.body)]
        run.check(bool(sup), R, key(rel, fi.qualname, "supplied-modified-compared"),
                  "a caller-supplied modified time is not compared with the old one", file=rel, line=br.lineno,
                  function=fi.qualname, expected="if new_modified <= old_modified: raise InvalidValueError", found="absent")
        els = " ; ".join(norm(s) for s in br.orelse)
        bnd = pmall(els, "$n = get_timestamp()", "$n = _fudge_modified($o, $n, ", "kwargs['modified'] = $n")
        run.check(bnd is not None, R, key(rel, fi.qualname, "clock-and-fudge"),
                  "without a supplied modified time the new one is not clock + _fudge_modified stored into kwargs", file=rel,
                  line=br.lineno, function=fi.qualname,
                  expected="n = get_timestamp(); n = _fudge_modified(old, n, ...); kwargs['modified'] = n",
                  found=els[:200])
        # the fudge call receives (old, new, use_stix21) with use_stix21 <=> version != '2.0'; `old` is the parsed previous time
        fc = [c for c in body_walk(fi.node) if isinstance(c, ast.Call) and call_simple_name(c) == "_fudge_modified"]
        if fc:
            args = [norm(x) for x in fc[0].args]
            fl = flow_of(fi)
            okf = len(args) == 3 and bnd is not None and args[1] == bnd["n"] and args[0] == bnd["o"]
            if okf:
                po = fl.prov(fc[0].args[0])
                okf = "parse_into_datetime" in po.calls and any(v in ("modified", "created") for v in po.consts if isinstance(v, str))
                pv = fl.prov(fc[0].args[2])
                okf = okf and "_check_versionable_object" in pv.calls and any(v in ("2.0", "2.1") for v in pv.consts if isinstance(v, str)) \
                    and isinstance(fc[0].args[2], ast.Compare) and (
                        (isinstance(fc[0].args[2].ops[0], ast.NotEq) and norm(fc[0].args[2].comparators[0]) == "'2.0'")
                        or (isinstance(fc[0].args[2].ops[0], ast.Eq) and norm(fc[0].args[2].comparators[0]) == "'2.1'"))
            run.check(okf, R, key(rel, fi.qualname, "fudge-arguments"), "_fudge_modified is called with the wrong operands", file=rel,
                      line=fc[0].lineno, function=fi.qualname, expected="(<parsed old modified>, <clock reading>, <version> != '2.0')",
                      found=args)
    # final constructor call filters None
    rets = returns_of(fi)
    okn = False
    for r in rets:
        v = r.value
        if isinstance(v, ast.Call) and any(k.arg is None and isinstance(k.value, ast.DictComp) for k in v.keywords):
            dc = [k.value for k in v.keywords if k.arg is None][0]
            conds = [norm(c) for gen in dc.generators for c in gen.ifs]
            pf = flow_of(fi).prov(v.func)
            okn = any(c.endswith("is not None") for c in conds) and "type" in pf.calls and fi.params[0] in pf.params
    run.check(okn, R, key(rel, fi.qualname, "none-removes-property"),
              "None values are not removed before construction (a None change must delete the property)", file=rel,
              line=rets[-1].lineno if rets else fi.node.lineno, function=fi.qualname,
              expected="cls(**{k: v for k, v in new_obj_inner.items() if v is not None})",
              found=[short(r) for r in rets])
    # order
    seq = [("versionable-check", a), ("revoked-refused", b), ("deep-copy-of-source", c_), ("unmodifiable-refused", d),
           ("modified-branch", f), ("changes-applied", e)]
    for (n1, s1), (n2, s2) in zip(seq, seq[1:]):
        if s1 and s2:
            ok = all(any(x in dom[y] for x in s1) for y in s2)
            run.check(ok, R, key(rel, fi.qualname, "%s<%s" % (n1, n2)), "stages of new_version() out of order", file=rel,
                      line=s2[0].lineno, function=fi.qualname, expected="%s before %s" % (n1, n2), found="not dominated")
    # old_modified = data.modified or created, parsed at millisecond precision with the version's constraint
    txt = norm(fi.node)
    run.check("data.get('modified') or data.get('created')" in txt, R, key(rel, fi.qualname, "old-modified-source"),
              "the previous version time is not modified-or-created", file=rel, line=fi.node.lineno, function=fi.qualname,
              expected="data.get('modified') or data.get('created')", found="changed")
    # allow_custom of the new object: from the object's flag when not given
    # (judged on the stores of the option key, whatever they look like: some store takes its value from the object's flag)
    opt_stores = [n_ for n_ in body_walk(fi.node) if isinstance(n_, ast.Assign) and any(
        isinstance(t_, ast.Subscript) and isinstance(t_.slice, ast.Constant) and t_.slice.value == "allow_custom" for t_ in n_.targets)]
    from_flag = any("has_custom" in {x_.attr for x_ in ast.walk(e_) if isinstance(x_, ast.Attribute)}
                    for n_ in opt_stores for e_ in [n_.value] + flow_of(fi).prov(n_.value).exprs)
    run.check(from_flag, R, key(rel, fi.qualname, "allow-custom-from-flag"),
              "auto-detection of allow_custom from the object's has_custom is gone", file=rel, line=fi.node.lineno,
              function=fi.qualname, expected="if allow_custom is None: new_obj_inner['allow_custom'] = data.has_custom", found="changed")
    rule_option_key_only_for_objects(ctx, R)
    # revoke
    rv = prog.func(V + "::revoke")
    g2 = cfg_of(rv)
    ok1, p1 = g2.must_pass(lambda n: n.kind == "test" and isinstance(n.ast, ast.If) and "revoked" in norm(n.ast.test) and any(
        isinstance(s, ast.Raise) and exc_name(s) == "RevokeError" for s in n.ast.body))
    r2 = returns_of(rv)
    ok2 = len(r2) == 1 and isinstance(r2[0].value, ast.Call) and call_simple_name(r2[0].value) == "new_version" and \
        norm(r2[0].value.args[0]) == rv.params[0] and any(k.arg == "revoked" and norm(k.value) == "True" for k in r2[0].value.keywords)
    run.check(ok1 and ok2, R, key(rel, rv.qualname, "revoke-shape"), "revoke() is not `refuse if revoked; new_version(data, revoked=True)`",
              file=rel, line=rv.node.lineno, function=rv.qualname, expected="if data.get('revoked'): raise RevokeError; "
              "return new_version(data, revoked=True)", found=short(rv.node, 200), path=g2.describe_path(p1))
    run.floor(R, 14)


def rule_unmodifiable(ctx):
    run = ctx.run
    prog = ctx.prog
    R = "C05.unmodifiable"
    m = prog.module(V)
    ev = Evaluator(prog)
    b = m.scope.lookup_local("STIX_UNMOD_PROPERTIES")
    if b is None:
        raise AnalysisError("anchor missing: STIX_UNMOD_PROPERTIES")
    val = set(ev.eval(b.value, m.scope))
    want = {"type", "id", "created", "created_by_ref"}
    run.check(want <= val, R, key(m.relpath, "STIX_UNMOD_PROPERTIES", "contains-identity-properties"),
              "a new version may change %s" % sorted(want - val), file=m.relpath, line=b.lineno, function="<module>",
              expected=sorted(want), found=sorted(val))
    fi = prog.func(V + "::new_version")
    # the refused set is computed from chain(STIX_UNMOD_PROPERTIES, sco_locked_props) ∩ kwargs
    loops = [n for n in body_walk(fi.node) if isinstance(n, ast.For) and "STIX_UNMOD_PROPERTIES" in norm(n.iter)]
    lock_var = None
    for n in body_walk(fi.node):
        if isinstance(n, ast.Assign) and isinstance(n.targets[0], ast.Name) and norm(n.value).endswith("._id_contributing_properties"):
            lock_var = n.targets[0].id
    from ..forward import flow_of
    fl = flow_of(fi)
    kwp = fi.kwarg or "kwargs"
    member = None
    if loops:
        for s_ in loops[0].body:
            if isinstance(s_, ast.If) and isinstance(s_.test, ast.Compare) and len(s_.test.ops) == 1 and isinstance(s_.test.ops[0], ast.In) \
                    and norm(s_.test.left) == norm(loops[0].target):
                member = s_.test.comparators[0]
    pr = fl.prov(member) if member is not None else None
    ok = bool(loops) and lock_var is not None and lock_var in names_in(loops[0].iter) and pr is not None and kwp in pr.params
    run.check(ok, R, key(m.relpath, fi.qualname, "refused-set"), "the refused set is not (unmodifiable + SCO-locked) ∩ requested changes",
              file=m.relpath, line=fi.node.lineno, function=fi.qualname,
              expected="for prop in chain(STIX_UNMOD_PROPERTIES, sco_locked_props): if prop in <the requested changes>: ...",
              found=short(loops[0], 160) if loops else None)
    # every channel through which the constructor takes property values is a requested change: _STIXBase.__init__ pops
    # 'custom_properties' and looks EVERY property name (spec-defined ones included) up in ChainMap(kwargs, custom_props)
    init = prog.func("stix2.base::_STIXBase.__init__")
    chained = any(isinstance(c, ast.Call) and norm(c.func).endswith("ChainMap") and len(c.args) == 2 for c in body_walk(init.node)) and any(
        isinstance(c, ast.Call) and norm(c.func).endswith(".pop") and c.args and isinstance(c.args[0], ast.Constant)
        and c.args[0].value == "custom_properties" for c in body_walk(init.node))
    if not chained:
        run.info(R, key(m.relpath, fi.qualname, "every-channel-of-change"), "the constructor no longer merges custom_properties into "
                 "the property lookup: not judged")
    else:
        # the NAMES given in custom_properties are put into the tested collection: syntactically, an expression that reads
        # kwargs['custom_properties'] flows into it (its definition, an update() / |= on it).  (Provenance alone is not enough:
        # once kwargs itself is written with something read from custom_properties, every use of kwargs carries the constant.)
        def reads_custom(e):
            return any((isinstance(x_, ast.Subscript) and norm(x_.value) == kwp and isinstance(x_.slice, ast.Constant) and x_.slice.value == "custom_properties")
                       or (isinstance(x_, ast.Call) and isinstance(x_.func, ast.Attribute) and x_.func.attr == "get" and norm(x_.func.value) == kwp
                           and x_.args and isinstance(x_.args[0], ast.Constant) and x_.args[0].value == "custom_properties") for x_ in ast.walk(e))
        # ... ALL of them: a filter on the way (a comprehension with a condition, a set difference, a conditional expression)
        # takes some names out of the test again -- `if prop not in <the class's table>` takes out exactly the spec-defined ones,
        # the only ones the test is about
        def unfiltered(e):
            return not any((isinstance(x_, ast.comprehension) and x_.ifs) or isinstance(x_, ast.IfExp)
                           or (isinstance(x_, ast.BinOp) and isinstance(x_.op, (ast.Sub, ast.BitAnd)))
                           or (isinstance(x_, ast.Call) and isinstance(x_.func, ast.Attribute) and x_.func.attr in (
                               "difference", "intersection", "filter")) or (isinstance(x_, ast.Call) and norm(x_.func) in ("filter", "itertools.filterfalse"))
                           for x_ in ast.walk(e))
        okc = False
        filtered = None
        if member is not None:
            if reads_custom(member):
                okc = True
            mname = norm(member)
            for n_ in body_walk(fi.node):
                src = None
                if isinstance(n_, ast.Assign) and norm(n_.targets[0]) == mname and reads_custom(n_.value):
                    src = n_.value
                if isinstance(n_, ast.AugAssign) and norm(n_.target) == mname and reads_custom(n_.value):
                    src = n_.value
                if isinstance(n_, ast.Call) and isinstance(n_.func, ast.Attribute) and n_.func.attr in ("update", "add", "union") \
                        and norm(n_.func.value) == mname and any(reads_custom(a_) for a_ in n_.args):
                    src = next(a_ for a_ in n_.args if reads_custom(a_))
                if src is not None:
                    if unfiltered(src):
                        okc = True
                    else:
                        filtered = src
        if filtered is not None and not okc:
            run.violation(R, key(m.relpath, fi.qualname, "every-channel-of-change"),
                          "the names given in `custom_properties` reach the unmodifiable / identifier-contributing test only through "
                          "a filter: the names it takes out are not tested, yet the constructor takes their values from that "
                          "argument -- new_version(custom_properties={'created': X}) changes the creation time of the new version",
                          file=m.relpath, line=filtered.lineno, function=fi.qualname,
                          expected="every name in kwargs['custom_properties'] is tested", found=short(filtered, 140))
            okc = None
    if chained and okc is None:
        pass
    elif chained:
        run.check(okc, R, key(m.relpath, fi.qualname, "every-channel-of-change"),
                  "the unmodifiable / identifier-contributing test looks at the keyword names only, but the constructor also takes "
                  "property values from the `custom_properties` argument (for spec-defined names too): "
                  "new_version(custom_properties={'created_by_ref': X}) sets the creator of the new version", file=m.relpath,
                  line=loops[0].lineno if loops else fi.node.lineno, function=fi.qualname,
                  expected="names in kwargs AND in kwargs['custom_properties'] are tested", found=norm(member) if member is not None else None)
    # SCO lock under version == 5 from cls._id_contributing_properties
    asg = [n for n in body_walk(fi.node) if isinstance(n, ast.Assign) and isinstance(n.targets[0], ast.Name)
           and norm(n.value).endswith("._id_contributing_properties")]
    ok = False
    if asg:
        gc = [norm(t) for t, pol, _ in guard_chain(asg[0]) if pol]
        ok = any("version == 5" in t for t in gc) and any("is_sco(" in t for t in gc)
    run.check(ok, R, key(m.relpath, fi.qualname, "sco-lock"), "identifier-contributing properties of a UUIDv5 SCO are not locked",
              file=m.relpath, line=asg[0].lineno if asg else fi.node.lineno, function=fi.qualname,
              expected="if is_sco(data, '2.1') and uuid is v5: sco_locked_props = cls._id_contributing_properties",
              found=[norm(t) for t, pol, _ in guard_chain(asg[0])] if asg else None)


def _fudge_facts(fi):
    """-> {branch: (compare text, delta text)} for use_stix21 True/False"""
    out = {}
    top = [s for s in fi.node.body if isinstance(s, ast.If)]
    if len(top) != 1 or norm(top[0].test) != fi.params[2]:
        raise AnalysisError("_fudge_modified: top-level `if use_stix21` not found")
    for label, body in (("2.1", top[0].body), ("2.0", top[0].orelse)):
        env = {}
        cmp_, delta = None, None
        for s in body:
            if isinstance(s, ast.Assign) and isinstance(s.targets[0], ast.Name):
                env[s.targets[0].id] = s.value
            if isinstance(s, ast.If):
                cmp_ = s.test
                for x in s.body:
                    if isinstance(x, ast.Assign) and norm(x.targets[0]) == fi.params[1] and isinstance(x.value, ast.BinOp):
                        delta = x.value.right
        out[label] = (cmp_, delta, env)
    return out


def rule_granularity(ctx):
    run = ctx.run
    prog = ctx.prog
    R = "C05.granularity"
    fi = prog.func(V + "::_fudge_modified")
    rel = fi.module.relpath
    facts = _fudge_facts(fi)
    old, new = fi.params[0], fi.params[1]

    def td(e, env):
        if isinstance(e, ast.Name) and e.id in env:
            e = env[e.id]
        if isinstance(e, ast.Call) and dotted(e.func) in ("dt.timedelta", "datetime.timedelta", "timedelta"):
            return {k.arg: k.value.value for k in e.keywords if isinstance(k.value, ast.Constant)}
        return None
    # 2.1: full microseconds are serialised (millisecond/min) -> new <= old => old + 1 microsecond
    c21, d21, env21 = facts["2.1"]
    ok21 = c21 is not None and norm(c21) in ("%s <= %s" % (new, old), "%s >= %s" % (old, new)) and td(d21, env21) == {"microseconds": 1}
    run.check(ok21, R, key(rel, fi.qualname, "stix21-branch"),
              "2.1 branch: a clock reading not later than the old time is not pushed one microsecond past it (2.1 serialises full "
              "microseconds), so two versions can carry equal modified times", file=rel, line=fi.node.lineno, function=fi.qualname,
              expected="if new <= old: new = old + timedelta(microseconds=1)",
              found="%s -> + %s" % (norm(c21) if c21 is not None else None, td(d21, env21)))
    # 2.0: serialised at exactly millisecond precision -> new - old < 1ms => old + 1ms
    c20, d20, env20 = facts["2.0"]
    ok20 = False
    if c20 is not None and isinstance(c20, ast.Compare) and len(c20.ops) == 1:
        l, r, op = c20.left, c20.comparators[0], c20.ops[0]
        if isinstance(op, ast.Lt) and norm(l) == "%s - %s" % (new, old) and td(r, env20) == {"milliseconds": 1}:
            ok20 = td(d20, env20) == {"milliseconds": 1}
    run.check(ok20, R, key(rel, fi.qualname, "stix20-branch"),
              "2.0 branch: readings closer than one millisecond to the old time are not pushed a full millisecond past it (2.0 "
              "truncates to milliseconds on output), so two serialised modified times can coincide", file=rel,
              line=fi.node.lineno, function=fi.qualname, expected="if new - old < 1ms: new = old + 1ms",
              found="%s -> + %s" % (norm(c20) if c20 is not None else None, td(d20, env20)))
    # tables: modified precision per version
    tm = get_model(prog)
    n = 0
    for (v, cname), rec in sorted(tm.classes.items()):
        slots = dict((a, b) for a, b in rec["slots"])
        if not {"created", "modified", "revoked"} <= set(slots):
            continue
        n += 1
        sp = slots["modified"]
        want = ("millisecond", "min") if v == "2.1" else ("millisecond", "exact")
        got = (sp.get("precision"), sp.get("precision_constraint"))
        run.check(got == want, R, key(rec["file"], cname, "modified-precision"),
                  "the serialisation precision of `modified` (%s) does not match what _fudge_modified assumes for %s (%s): versions "
                  "that differ by the fudge step can serialise to the same text" % (got, v, want), file=rec["file"],
                  line=rec["line"], function=cname, expected=want, found=got)
    for (v, dname), rec in sorted(tm.decorators.items()):
        slots = dict((a, b) for a, b in rec["slots"] or [])
        if "modified" in slots:
            n += 1
            sp = slots["modified"]
            want = ("millisecond", "min") if v == "2.1" else ("millisecond", "exact")
            got = (sp.get("precision"), sp.get("precision_constraint"))
            run.check(got == want, R, key(rec["file"], dname, "modified-precision"), "custom-object table: modified precision %s, "
                      "fudge assumes %s" % (got, want), file=rec["file"], line=rec["line"], function=dname, expected=want, found=got)
    run.extra["versionable_classes"] = n
    # new_version parses both times at millisecond precision with "min" iff 2.1
    nv = prog.func(V + "::new_version")
    txt = norm(nv.node)
    bpc = pm(txt, "$pc = 'min' if $v == '2.1' else 'exact'")
    okp = bpc is not None
    calls = [c for c in body_walk(nv.node) if isinstance(c, ast.Call) and call_simple_name(c) == "parse_into_datetime"]
    okk = okp and len(calls) == 2 and all(any(k.arg == "precision" and norm(k.value) == "'millisecond'" for k in c.keywords)
                                          and any(k.arg == "precision_constraint" and norm(k.value) == bpc["pc"] for k in c.keywords)
                                          for c in calls)
    run.check(okp and okk, R, key(rel, nv.qualname, "compare-at-serialisation-precision"),
              "old and new modified times are not both normalised to the version's serialisation precision before comparison",
              file=rel, line=nv.node.lineno, function=nv.qualname,
              expected="parse_into_datetime(x, precision='millisecond', precision_constraint='min' iff 2.1) for both", found=[short(c) for c in calls])
    run.floor(R, 40)


def rule_strict_compare(ctx):
    run = ctx.run
    prog = ctx.prog
    R = "C05.strict-compare"
    fi = prog.func(V + "::new_version")
    rel = fi.module.relpath
    tests = [n for n in body_walk(fi.node) if isinstance(n, ast.If) and any(
        isinstance(s, ast.Raise) and exc_name(s) == "InvalidValueError" for s in n.body)
        and any(pol and "'modified' in kwargs" in norm(t) for t, pol, _ in guard_chain(n))]
    ok = False
    found = None
    if tests:
        t = tests[0].test
        found = norm(t)
        if isinstance(t, ast.Compare) and len(t.ops) == 1:
            op = t.ops[0]
            fl = flow_of(fi)
            tn = fl.node_for(t)
            pl, pr_ = fl.prov(t.left, tn), fl.prov(t.comparators[0], tn)
            # "new" derives from kwargs['modified']; "old" from data.get('modified') or data.get('created')
            def is_new(p):
                cs = [c for c in p.consts if isinstance(c, str)]
                return (fi.kwarg or "kwargs") in p.params and "modified" in cs and "created" not in cs

            def is_old(p):
                return fi.params[0] in p.params and "created" in [c for c in p.consts if isinstance(c, str)]
            ok = (is_new(pl) and is_old(pr_) and isinstance(op, ast.LtE)) or (is_old(pl) and is_new(pr_) and isinstance(op, ast.GtE))
            # ... and what is compared are the INSTANTS (the values parse_into_datetime returned), not something computed from
            # them: serialised 2.1 timestamps have 3 to 6 fraction digits and do not order like the instants ('...00.001Z' vs
            # '...00.0015Z')
            from ..cfg import ReachingDefs, cfg_of
            g_ = cfg_of(fi)
            rd_ = ReachingDefs(g_, fi.all_param_names())
            for side in (t.left, t.comparators[0]):
                inst = isinstance(side, ast.Name) and all(isinstance(v, ast.Call) and call_simple_name(v) == "parse_into_datetime"
                                                          for _d, v in rd_.reaching(g_.node_of(tests[0]), side.id)) \
                    and bool(rd_.reaching(g_.node_of(tests[0]), side.id))
                if not inst:
                    ok = False
                    found = "%s  (operand %s is not the parsed instant itself)" % (norm(t), norm(side))
    run.check(ok, R, key(rel, fi.qualname, "supplied-modified-strictly-later"),
              "a caller-supplied modified time equal to (or earlier than) the current one is accepted", file=rel,
              line=tests[0].lineno if tests else fi.node.lineno, function=fi.qualname,
              expected="if new_modified <= old_modified: raise InvalidValueError", found=found)


CLOCK_CALLS = ("datetime.now", "datetime.utcnow", "datetime.today", "time.time", "time.time_ns", "time.monotonic", "date.today")


def rule_clock(ctx):
    run = ctx.run
    prog = ctx.prog
    R = "C05.clock"
    m = prog.module(V)
    bad = []
    n = 0
    for fi in prog.functions.values():
        if fi.module is not m:
            continue
        n += 1
        for c in [x for x in body_walk(fi.node) if isinstance(x, ast.Call)]:
            d = dotted(c.func) or ""
            res = prog.deref(prog.resolve_expr(fi.scope, c.func)) if isinstance(c.func, (ast.Name, ast.Attribute)) else None
            full = res.dotted if isinstance(res, External) else d
            if any(full.endswith(x) or d.endswith(x) for x in CLOCK_CALLS) or d.endswith(".now"):
                bad.append((fi, c))
    run.check(not bad, R, key(m.relpath, "<module>", "clock-only-through-get_timestamp"),
              "versioning reads the wall clock directly (not through the module-level get_timestamp)", file=m.relpath,
              line=bad[0][1].lineno if bad else 1, function=bad[0][0].qualname if bad else "<module>",
              expected="get_timestamp() only", found=[short(c) for _, c in bad])
    b = m.scope.lookup_local("get_timestamp")
    d = prog._binding_def(b) if b is not None else None
    run.check(isinstance(d, FunctionInfo) and d.id == "stix2.utils::get_timestamp", R, key(m.relpath, "<module>", "get_timestamp-binding"),
              "versioning.get_timestamp is not stix2.utils.get_timestamp", file=m.relpath, line=getattr(b, "lineno", 1),
              function="<module>", expected="from stix2.utils import get_timestamp", found=getattr(d, "id", None))
    gt = prog.func("stix2.utils::get_timestamp")
    rets = returns_of(gt)
    ok = len(rets) == 1 and isinstance(rets[0].value, ast.Call) and norm(rets[0].value.func) == "STIXdatetime.now" and any(
        k.arg == "tz" and "UTC" in norm(k.value).upper() for k in rets[0].value.keywords)
    run.check(ok, R, key(gt.module.relpath, gt.qualname, "tz-aware-utc"), "get_timestamp() is not a timezone-aware UTC STIXdatetime",
              file=gt.module.relpath, line=gt.node.lineno, function=gt.qualname, expected="STIXdatetime.now(tz=pytz.UTC)",
              found=short(rets[0]) if rets else None)
    run.extra["versioning_functions"] = n


def rule_version_chain(ctx):
    """The granularity of the nudge and the precision rule of `modified` are chosen by the spec version new_version() is told
    by _check_versionable_object().  That answer is a chain of three functions; at every link the version that is handed back
    is the one detected, never a constant or another value: _get_stix_version (class -> its version, dictionary ->
    detect_spec_version), _is_versionable_type (second element of the pair), _check_versionable_object (every normal path)."""
    run = ctx.run
    prog = ctx.prog
    R = "C05.granularity"
    n = 0

    def defs_of(fi, name):
        out = []
        for a_ in body_walk(fi.node):
            if isinstance(a_, ast.Assign):
                for t in a_.targets:
                    if isinstance(t, ast.Name) and t.id == name:
                        out.append((a_, a_.value, None))
                    elif isinstance(t, ast.Tuple):
                        for j_, e_ in enumerate(t.elts):
                            if isinstance(e_, ast.Name) and e_.id == name:
                                out.append((a_, a_.value, j_))
        return out

    def is_call(v, fname, arg):
        return isinstance(v, ast.Call) and call_simple_name(v) == fname and len(v.args) == 1 and norm(v.args[0]) == arg

    # 1. _get_stix_version
    gv = prog.func(V + "::_get_stix_version")
    rel = gv.module.relpath
    rets = returns_of(gv)
    ok = bool(rets) and all(isinstance(r.value, ast.Name) for r in rets)
    found = []
    if ok:
        nm = rets[0].value.id
        for a_, v, j_ in defs_of(gv, nm):
            found.append(short(a_, 60))
            if isinstance(v, ast.Constant) and v.value is None and not guard_chain(a_):
                continue
            gs = " & ".join(norm(t) for t, pol, _ in guard_chain(a_) if pol)
            if isinstance(v, ast.Constant) and v.value in ("2.0", "2.1"):
                want = "_STIXBase20" if v.value == "2.0" else "_STIXBase21"
                ok = ok and ("isinstance(%s, " % gv.params[0]) in gs and want in gs.split("&")[-1]
            elif is_call(v, "detect_spec_version", gv.params[0]):
                ok = ok and "dict" in gs
            else:
                ok = False
    n += 1
    run.check(ok, R, key(rel, gv.qualname, "version-of-the-data"),
              "the version a new version is computed under is not the one of the data (2.0 class -> '2.0', 2.1 class -> '2.1', "
              "dictionary -> detect_spec_version)", file=rel, line=gv.node.lineno, function=gv.qualname,
              expected="'2.0' under isinstance(data, _STIXBase20), '2.1' under _STIXBase21, detect_spec_version(data) for a dict", found=found)
    # 2. _is_versionable_type: every return is (flag, <name>) and the name is None or _get_stix_version(data)
    iv = prog.func(V + "::_is_versionable_type")
    rets = returns_of(iv)
    ok = bool(rets) and all(isinstance(r.value, ast.Tuple) and len(r.value.elts) == 2 and isinstance(r.value.elts[1], ast.Name) for r in rets)
    found = [short(r, 60) for r in rets]
    if ok:
        for r in rets:
            for a_, v, j_ in defs_of(iv, r.value.elts[1].id):
                if not ((isinstance(v, ast.Constant) and v.value is None) or is_call(v, "_get_stix_version", iv.params[0])):
                    ok = False
                    found.append(short(a_, 60))
    n += 1
    run.check(ok, R, key(rel, iv.qualname, "version-handed-back"),
              "_is_versionable_type() does not hand back the detected version as the second element of its answer: a dictionary "
              "is then versioned under the other version's rules (granularity of the nudge, precision of `modified`)", file=rel,
              line=iv.node.lineno, function=iv.qualname, expected="return is_versionable, stix_version  (stix_version = _get_stix_version(data))",
              found=found)
    # 3. _check_versionable_object: returns a name bound to _get_stix_version(data) or to the pair's second element
    cv = prog.func(V + "::_check_versionable_object")
    rets = returns_of(cv)
    ok = bool(rets) and all(isinstance(r.value, ast.Name) for r in rets)
    found = [short(r, 60) for r in rets]
    if ok:
        for r in rets:
            ds = defs_of(cv, r.value.id)
            ok = ok and bool(ds)
            for a_, v, j_ in ds:
                if not ((j_ is None and is_call(v, "_get_stix_version", cv.params[0])) or (j_ == 1 and is_call(v, "_is_versionable_type", cv.params[0]))):
                    ok = False
                    found.append(short(a_, 60))
    n += 1
    run.check(ok, R, key(rel, cv.qualname, "version-handed-back"),
              "_check_versionable_object() does not return the detected version on every path", file=rel, line=cv.node.lineno,
              function=cv.qualname, expected="stix_version = _get_stix_version(data) | _, stix_version = _is_versionable_type(data); return stix_version",
              found=found)
    return n


def rule_option_key_only_for_objects(ctx, R="C05.pipeline"):
    """new_version() of a plain dictionary builds a plain dictionary from the copied content: `cls` is dict there, so every key
    of the argument mapping becomes CONTENT.  The constructor option allow_custom may therefore be written into that mapping
    only where the source is a library object (under a positive isinstance(<data>, _STIXBase) test); written unconditionally,
    every new version of a dictionary -- every marking operation on one -- carries a property 'allow_custom' nobody gave."""
    run = ctx.run
    prog = ctx.prog
    fi = prog.func(V + "::new_version")
    rel = fi.module.relpath
    data = fi.params[0]
    stores = [n_ for n_ in body_walk(fi.node) if isinstance(n_, ast.Assign) and any(
        isinstance(t_, ast.Subscript) and isinstance(t_.slice, ast.Constant) and t_.slice.value == "allow_custom" for t_ in n_.targets)]
    if not stores:
        raise AnalysisError("new_version: no store of the allow_custom option found")
    bad = []
    for st in stores:
        gc = guard_chain(st)
        if not any(pol and any(isinstance(c_, ast.Call) and call_simple_name(c_) == "isinstance" and len(c_.args) == 2
                               and norm(c_.args[0]) == data and norm(c_.args[1]).endswith("_STIXBase")
                               for c_ in (conj_ for conj_ in _conjuncts(t_))) for t_, pol, _ in gc):
            bad.append(st)
    run.check(not bad, R, key(rel, fi.qualname, "option-key-only-for-objects"),
              "the constructor option allow_custom is written into the new content where the source need not be a library object: "
              "for a dictionary the 'constructor' is dict, so the key becomes a property of the new version", file=rel,
              line=bad[0].lineno if bad else fi.node.lineno, function=fi.qualname,
              expected="stores of ['allow_custom'] only under isinstance(%s, _STIXBase)" % data, found=[short(b_, 80) for b_ in bad])


def _conjuncts(t):
    if isinstance(t, ast.BoolOp) and isinstance(t.op, ast.And):
        for v in t.values:
            for c in _conjuncts(v):
                yield c
    else:
        yield t
