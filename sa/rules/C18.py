"""C18 — federated sources and relationship navigation equal a scan of the data.

Decides the shape of federation and navigation: every member call of the
composite carries both filter sets and the caller's arguments and ranges over
all members; results are de-duplicated on (id, version); newest selection by
compare-and-replace; the 2x2 navigation table of relationships(); related_to and
creator_of; delegation of stores and environments.  Equality with a scan for
every partition of a population over members is not decided.
"""
import ast

from ..astutil import call_simple_name, exc_name, guard_chain, names_in, pm, pmall, returns_of, short
from ..cfg import ReachingDefs, cfg_of, node_calls
from ..forward import flow_of
from ..loader import AnalysisError, FunctionInfo, body_walk, norm, walk_no_nested
from ..report import key

PROP = "C18"
DS = "stix2.datastore"


def run(ctx):
    run = ctx.run
    run.explanation = (
        "Forwarding/provenance of the member calls in CompositeDataSource.get/all_versions/query (both filter sets, the caller's "
        "id/query, loop over all members), de-duplication on every non-empty result path and the key of deduplicate(), "
        "compare-and-replace idiom of the newest selection, the 2x2 decision table (source_only, target_only) -> queries of "
        "DataSource.relationships, shape of related_to / creator_of, *args/**kwargs delegation of DataStoreMixin and the "
        "wiring of Environment. Decides these structural clauses."
    )
    run.trusted_base = ["CPython ast", "sa/forward.py provenance"]
    run.assumptions = ["member sources honour _composite_filters (C12.all-answers-filtered decides it for memory/filesystem)"]
    ctx.do(rule_member_forward)
    ctx.do(rule_composite_kept_whole)
    ctx.do(rule_sources_always_truthy)
    ctx.do(rule_dedup)
    ctx.do(rule_navigation_over_union)
    ctx.do(rule_newest)
    ctx.do(rule_navigation)
    ctx.do(rule_delegation)
    ctx.do(rule_environment_attaches_every_source)
    ctx.do(rule_every_related_id_is_asked)
    ctx.do(rule_endpoint_filters_name_the_object)
    ctx.do(rule_versions_compared_as_instants)
    # the union is taken over what the MEMBERS answer: each member applies the filters it is handed to every answer (C12) and
    # answers get() with its newest version (C11)
    from . import C11 as _C11, C12 as _C12
    ctx.do_as(_C12.rule_all_answers_filtered, {"C12.all-answers-filtered": "C18.members-answer-exactly"})
    ctx.do_as(_C11.rule_newest, {"C11.newest": "C18.members-answer-exactly"})
    from .pitfalls import rule_groupby_sorted, rule_single_use_iterators
    ctx.do(rule_groupby_sorted, "C18.iterator-pitfalls", ("stix2.datastore", "stix2.environment", "stix2.utils"))
    ctx.do(rule_single_use_iterators, "C18.iterator-pitfalls", ("stix2.datastore", "stix2.environment", "stix2.utils"))
    from .hidden_state import rule_no_hidden_state
    ctx.do(rule_no_hidden_state, "C18.history-independence")
    from .pitfalls import rule_loops_not_cut_short
    ctx.do(rule_loops_not_cut_short, "C18.loops-complete")
    from .pitfalls import rule_definite_assignment
    ctx.do(rule_definite_assignment, "C18.definite-assignment")


def rule_member_forward(ctx, rule_id="C18.member-forward"):
    run = ctx.run
    prog = ctx.prog
    R = rule_id
    cls = prog.cls(DS + "::CompositeDataSource")
    for mname, argname in (("get", "stix_id"), ("all_versions", "stix_id"), ("query", "query")):
        fi = cls.methods.get(mname)
        if fi is None:
            raise AnalysisError("anchor missing: CompositeDataSource.%s" % mname)
        rel = fi.module.relpath
        fl = flow_of(fi)
        loops = [n for n in body_walk(fi.node) if isinstance(n, ast.For) and norm(n.iter) == "self.data_sources"]
        c = key(rel, fi.qualname, "member-call")
        if len(loops) != 1:
            run.violation(R, c, "the method does not range over all member sources", file=rel, line=fi.node.lineno,
                          function=fi.qualname, expected="for ds in self.data_sources", found=[short(x.iter) for x in body_walk(fi.node) if isinstance(x, ast.For)])
            continue
        dsv = norm(loops[0].target)
        calls = [x for s in loops[0].body for x in walk_no_nested(s) if isinstance(x, ast.Call) and isinstance(x.func, ast.Attribute)
                 and norm(x.func.value) == dsv and x.func.attr == mname]
        if len(calls) != 1 or guard_chain(calls[0], stop=loops[0]):
            run.violation(R, c, "members are not all asked with %s()" % mname, file=rel, line=loops[0].lineno, function=fi.qualname,
                          expected="%s.%s(...) unconditionally for every member" % (dsv, mname), found=[short(x) for x in calls])
            continue
        call = calls[0]
        kws = {k.arg: k.value for k in call.keywords if k.arg}
        # caller's argument
        a = kws.get(argname) or (call.args[0] if call.args else None)
        ok_arg = a is not None and argname in fl.prov(a).params
        run.check(ok_arg, R, key(rel, fi.qualname, "forwards-%s" % argname), "members are not asked for the caller's %s" % argname,
                  file=rel, line=call.lineno, function=fi.qualname, expected="%s=%s" % (argname, argname),
                  found=norm(a) if a is not None else None)
        cf = kws.get("_composite_filters")
        okf = False
        found = None
        helper_fresh = None
        if cf is not None:
            pr = fl.prov(cf)
            found = repr(pr)
            sa_, pa_ = set(pr.selfattrs), set(pr.params)
            # the combination may live in a helper method of the class: read through it (its returns, with this call's binding)
            hv = _helper_combination(prog, fi, cf)
            if hv is not None:
                h_sa, h_pa, helper_fresh, htxt = hv
                sa_ |= h_sa
                pa_ |= h_pa
                found = "%s via %s" % (found, htxt)
            okf = "filters" in sa_ and "_composite_filters" in pa_
        run.check(okf, R, key(rel, fi.qualname, "forwards-both-filter-sets"),
                  "the filters passed to the members do not combine the composite's own filters with those handed down to it: "
                  "filters attached to a composite do not apply to every member", file=rel, line=call.lineno, function=fi.qualname,
                  expected="_composite_filters derived from self.filters and _composite_filters", found=found)
        # the combined set is a fresh FilterSet: adding the handed-down filters into self.filters (an alias) would
        # attach a parent's filters to this composite for good
        if isinstance(cf, ast.Name):
            from ..cfg import ReachingDefs, cfg_of
            g = cfg_of(fi)
            rd = ReachingDefs(g, fi.all_param_names())
            st = call
            while not isinstance(st, ast.stmt):
                st = st.parent
            defs = rd.reaching(g.node_of(st), cf.id)
            notfresh = [short(dn.ast) if dn.ast is not None else "parameter" for dn, v in defs
                        if not (isinstance(v, ast.Call) and (call_simple_name(v) == "FilterSet" or (
                            helper_fresh and isinstance(v.func, ast.Attribute) and norm(v.func.value) == "self")))]
            selfmut = [x for x in body_walk(fi.node) if isinstance(x, ast.Call) and isinstance(x.func, ast.Attribute)
                       and norm(x.func.value) == "self.filters" and x.func.attr in ("add", "remove", "update", "clear")]
            run.check(not notfresh and not selfmut, R, key(rel, fi.qualname, "combined-filters-are-private"),
                      "the filter set handed to the members is not a fresh FilterSet: filters passed down by a parent composite "
                      "(or by this call) are added into the composite's own attached filters and stay there, so later direct "
                      "queries silently lose objects", file=rel, line=call.lineno, function=fi.qualname,
                      expected="%s = FilterSet(); %s.add(self.filters); %s.add(_composite_filters)" % (cf.id, cf.id, cf.id),
                      found=notfresh + [short(x) for x in selfmut])
    run.floor(R, 9)


def rule_composite_kept_whole(ctx, rule_id="C18.member-forward"):
    """A composite is attached and consulted as ONE source: its own filters, and its membership at the time of the question,
    are part of what it answers.  Code that takes the members out (`.data_sources`, `get_all_data_sources()`) and attaches or
    asks them directly drops the composite's filters and freezes its membership.  Who-may-read rule: members are read only
    inside CompositeDataSource itself."""
    run = ctx.run
    prog = ctx.prog
    cls = prog.cls(DS + "::CompositeDataSource")
    if "get_all_data_sources" not in cls.methods:
        raise AnalysisError("anchor missing: CompositeDataSource.get_all_data_sources")
    inside = 0
    for fi in sorted(prog.functions.values(), key=lambda f: f.id):
        if fi.module.relpath.startswith("stix2/test"):
            continue
        for x in body_walk(fi.node):
            hit = None
            if isinstance(x, ast.Attribute) and x.attr == "data_sources" and isinstance(x.ctx, ast.Load):
                hit = x
            if isinstance(x, ast.Call) and isinstance(x.func, ast.Attribute) and x.func.attr == "get_all_data_sources":
                hit = x
            if hit is None:
                continue
            if fi.cls is cls:
                inside += 1
                continue
            run.violation(rule_id, key(fi.module.relpath, fi.qualname, "members-read-outside-the-composite:%s" % short(hit, 40)),
                          "the members of a composite are taken out of it: attached or asked directly they answer without the "
                          "composite's own filters, and members added to (or removed from) the composite later are not seen",
                          file=fi.module.relpath, line=hit.lineno, function=fi.qualname,
                          expected="attach / ask the composite itself", found=short(hit, 80))
    if inside < 5:
        raise AnalysisError("CompositeDataSource reads its members at fewer than 5 places (%d): anchors lost" % inside)
    run.ok(rule_id, key(cls.module.relpath, cls.qualname, "members-read-only-inside"), "%d reads, all inside the class" % inside)


def rule_sources_always_truthy(ctx, rule_id="C18.member-forward"):
    """Environment.__init__ (and whoever else wires sources together) decides "was a source given?" by TRUTHINESS (`if source:`).
    That is sound only while no data source / sink / store class defines __len__ or __bool__: a source that is falsy when it is
    empty is silently not attached -- the environment then answers "no data source", or ignores that member, for a source
    that is filled later."""
    from .C08 import _bool_uses
    run = ctx.run
    prog = ctx.prog
    tests = []
    for fi in prog.functions.values():
        if fi.module.relpath.startswith("stix2/test") or not fi.module.name.startswith(("stix2.environment", "stix2.datastore", "stix2.workbench")):
            continue
        for p_ in fi.all_param_names():
            if p_ in ("source", "sink", "store", "data_source", "data_sources"):
                if _bool_uses(fi.node, p_):
                    tests.append("%s:%s" % (fi.qualname, p_))
    bases = [prog.cls(DS + "::DataSource"), prog.cls(DS + "::DataSink"), prog.cls(DS + "::DataStoreMixin")]
    offenders = []
    for cls in prog.classes.values():
        if cls.module.relpath.startswith("stix2/test") or not any(b_ in (cls.mro or []) for b_ in bases):
            continue
        for m_ in ("__len__", "__bool__"):
            if m_ in cls.methods:
                offenders.append("%s.%s" % (cls.qualname, m_))
    if not tests:
        run.ok(rule_id, key("stix2/environment.py", "<sources>", "sources-are-always-truthy"), "no truthiness test on a source any more")
        return
    run.check(not offenders, rule_id, key("stix2/datastore/__init__.py", "<sources>", "sources-are-always-truthy"),
              "a data source / sink / store class defines %s while %s decide 'was one given?' by truthiness: an EMPTY source is "
              "treated as absent and never attached" % (", ".join(offenders), ", ".join(sorted(tests)[:3])),
              file="stix2/datastore/__init__.py", line=1, function="<sources>", expected="no __len__ / __bool__ on sources (or `is not None` tests)",
              found=offenders)


def _helper_combination(prog, fi, cf):
    """cf (the value handed to the members) is defined by `self.<helper>(...)`: (self attributes, caller parameters the helper's
    result derives from under this call's binding, every return a fresh FilterSet?, text) -- None when no helper is involved"""
    from ..cfg import ReachingDefs, cfg_of
    from ..callgraph import get_callgraph, EXACT, CHA
    g = cfg_of(fi)
    rd = ReachingDefs(g, fi.all_param_names())
    st = cf
    while not isinstance(st, ast.stmt):
        st = st.parent
    vals = [cf]
    if isinstance(cf, ast.Name):
        vals = [v for _d, v in rd.reaching(g.node_of(st), cf.id)]
    cg = get_callgraph(prog)
    fl = flow_of(fi)
    sa_, pa_, fresh, txt = set(), set(), True, []
    hit = False
    for v in vals:
        if not (isinstance(v, ast.Call) and isinstance(v.func, ast.Attribute) and norm(v.func.value) == "self"):
            continue
        ts = [t for t in cg.resolve(v, fi) if t.func is not None and t.kind in (EXACT, CHA)]
        if len(ts) != 1:
            continue
        hit = True
        h = ts[0].func
        b = cg.bind(v, ts[0])
        hfl = flow_of(h)
        hg = cfg_of(h)
        hrd = ReachingDefs(hg, h.all_param_names())
        for r in returns_of(h):
            if r.value is None:
                fresh = False
                continue
            hp = hfl.prov(r.value)
            sa_ |= set(hp.selfattrs)
            for p_ in hp.params:
                e = b.params.get(p_)
                if e is not None:
                    pa_ |= set(fl.prov(e).params)
            rv = [r.value]
            if isinstance(r.value, ast.Name):
                rv = [x for _d, x in hrd.reaching(hg.node_of(r), r.value.id)]
            if not all(isinstance(x, ast.Call) and call_simple_name(x) == "FilterSet" for x in rv):
                fresh = False
        txt.append(short(v, 60))
    return (sa_, pa_, fresh, ", ".join(txt)) if hit else None


def rule_navigation_over_union(ctx):
    """Three clauses of "a composite answers as the de-duplicated union / navigation returns what a scan implies":
      related-objects-over-the-union   the composite finds the related ids in ITS relationships and fetches them with ITS query;
                                       asking each member for member.related_to() misses a relationship held by one member
                                       whose related object is held by another
      self-loop-once                   DataSource.relationships runs a source_ref query and a target_ref query; a relationship
                                       from the object to itself matches both -- the second query excludes it (or the answer is
                                       de-duplicated by (id, version))
      newest-of-the-filtered           MemorySource.get returns the newest of the versions that pass the filters (as the
                                       filesystem source does): taking the newest first and filtering afterwards makes the
                                       answer depend on how versions are spread over members"""
    run = ctx.run
    prog = ctx.prog
    R = "C18.navigation-over-union"
    comp = prog.cls(DS + "::CompositeDataSource").methods.get("related_to")
    if comp is None:
        raise AnalysisError("anchor missing: CompositeDataSource.related_to")
    per_member = [c for c in body_walk(comp.node) if isinstance(c, ast.Call) and isinstance(c.func, ast.Attribute)
                  and c.func.attr == "related_to" and not (isinstance(c.func.value, ast.Call) and call_simple_name(c.func.value) == "super")
                  and norm(c.func.value) != "self"]
    union = [c for c in body_walk(comp.node) if isinstance(c, ast.Call) and isinstance(c.func, ast.Attribute) and (
        (c.func.attr == "related_to" and isinstance(c.func.value, ast.Call) and call_simple_name(c.func.value) == "super")
        or (c.func.attr in ("relationships", "query") and norm(c.func.value) == "self"))]
    run.check(not per_member and bool(union), R, key(comp.module.relpath, comp.qualname, "related-objects-over-the-union"),
              "the composite asks every member for ITS related objects: a relationship held by one member whose related object (or "
              "another version of it) is held by another member yields nothing, although the composite's own relationships() and "
              "query() see both", file=comp.module.relpath, line=comp.node.lineno, function=comp.qualname,
              expected="navigate the union: super().related_to(...) / self.relationships + self.query", found=[short(c) for c in per_member])
    rl = prog.cls(DS + "::DataSource").methods.get("relationships")
    if rl is None:
        raise AnalysisError("anchor missing: DataSource.relationships")
    qs = [c for c in body_walk(rl.node) if isinstance(c, ast.Call) and isinstance(c.func, ast.Attribute) and c.func.attr == "query"
          and norm(c.func.value) == "self"]
    txt = norm(rl.node)
    dedup = any(isinstance(r.value, ast.Call) and call_simple_name(r.value) == "deduplicate" for r in returns_of(rl))
    excl = "Filter('source_ref', '!=', " in txt or "Filter('target_ref', '!=', " in txt
    # the exclusion applies only when BOTH queries run: it sits under a test that the other direction was asked too (alone, the
    # target_ref query is the only one that can find a self-loop, and excluding it there loses the relationship)
    if excl and not dedup:
        ex_nodes = [c for c in body_walk(rl.node) if isinstance(c, ast.Call) and call_simple_name(c) == "Filter" and len(c.args) == 3
                    and isinstance(c.args[1], ast.Constant) and c.args[1].value == "!="]
        for c in ex_nodes:
            gc = [(norm(tt), pol) for tt, pol, _ in guard_chain(c)]
            other = "target_only" if "source_ref" in norm(c.args[0]) else "source_only"
            if not any((tt == "not " + other and pol) or (tt == other and not pol) for tt, pol in gc):
                excl = False
    run.check(len(qs) >= 2 and (dedup or excl), R, key(rl.module.relpath, rl.qualname, "self-loop-once"),
              "a relationship whose source and target are the same object matches both the source_ref and the target_ref query and "
              "is returned twice (through a composite it comes back once)", file=rl.module.relpath, line=rl.node.lineno,
              function=rl.qualname, expected="second query excludes source_ref == object when both run (or deduplicate())",
              found=[short(c, 120) for c in qs])
    rule_newest_of_filtered(ctx, R)


def rule_newest_of_filtered(ctx, rule_id):
    """MemorySource.get answers the newest of the versions that pass the attached filters, as the filesystem source does
    (shared by C18.navigation-over-union and C11.newest: the two stores must agree under an attached filter)."""
    run = ctx.run
    prog = ctx.prog
    R = rule_id
    mg = prog.cls("stix2.datastore.memory::MemorySource").methods.get("get")
    if mg is None:
        raise AnalysisError("anchor missing: MemorySource.get")
    reads_latest = [x for x in body_walk(mg.node) if isinstance(x, ast.Attribute) and x.attr == "latest_version"]
    via_all = [c for c in body_walk(mg.node) if isinstance(c, ast.Call) and isinstance(c.func, ast.Attribute) and c.func.attr == "all_versions"
               and norm(c.func.value) == "self"]
    run.check(not reads_latest and bool(via_all), R, key(mg.module.relpath, mg.qualname, "newest-of-the-filtered"),
              "MemorySource.get takes the newest version first and applies the filters afterwards: with a filter that hides the "
              "newest version it answers None where the filesystem source (and a composite whose members hold one version each) "
              "answer the newest version that passes", file=mg.module.relpath, line=mg.node.lineno, function=mg.qualname,
              expected="newest of self.all_versions(id, filters)", found=[short(x.parent) for x in reads_latest])


def rule_dedup(ctx):
    run = ctx.run
    prog = ctx.prog
    R = "C18.dedup"
    cls = prog.cls(DS + "::CompositeDataSource")
    for mname in ("all_versions", "query", "relationships", "related_to"):
        fi = cls.methods.get(mname)
        if fi is None:
            raise AnalysisError("anchor missing: CompositeDataSource.%s" % mname)
        rel = fi.module.relpath
        fl = flow_of(fi)
        rets = [r for r in returns_of(fi) if r.value is not None]
        ok = bool(rets)
        found = []
        for r in rets:
            v = r.value
            found.append(norm(v))
            if isinstance(v, ast.Call) and call_simple_name(v) == "deduplicate":
                continue
            if isinstance(v, ast.Name):
                # every non-empty path: a reaching definition through deduplicate guarded only by an emptiness test
                defs = fl.rd.reaching(fl.node_for(r), v.id)
                dd = [(dn, val) for dn, val in defs if isinstance(val, ast.Call) and call_simple_name(val) == "deduplicate"
                      and val.args and norm(val.args[0]) == v.id]
                others = [(dn, val) for dn, val in defs if (dn, val) not in dd]
                if not dd:
                    ok = False
                    continue
                for dn, val in dd:
                    gc = guard_chain(dn.ast)
                    if not (len(gc) == 1 and gc[0][1] and norm(gc[0][0]) in ("len(%s) > 0" % v.id, v.id, "len(%s)" % v.id, "len(%s) >= 1" % v.id)):
                        ok = False
                # the other reaching definition is the (empty) accumulator itself
                for dn, val in others:
                    # the (empty) accumulator, or the answer of the inherited / union-level method that is then de-duplicated
                    if not ((isinstance(val, ast.List) and not val.elts) or isinstance(val, ast.Call)):
                        ok = False
            else:
                ok = False
        run.check(ok, R, key(rel, fi.qualname, "deduplicated"), "a non-empty federated answer can contain the same (id, version) "
                  "more than once", file=rel, line=fi.node.lineno, function=fi.qualname,
                  expected="return deduplicate(<concatenation>) on every non-empty path", found=found)
    dd = prog.func("stix2.utils::deduplicate")
    t = norm(dd.node)
    ok = pmall(t, "for $o in %s" % dd.params[0], "$v = $o.get('modified') or $o.get('created')", "$u[$o['id'], $v] = $o", "return list($u.values())") is not None
    run.check(ok, R, key(dd.module.relpath, dd.qualname, "key-is-id-and-version"), "deduplicate() does not key on (id, modified-or-created)",
              file=dd.module.relpath, line=dd.node.lineno, function=dd.qualname, expected="unique[(id, modified or created)] = obj",
              found=short(dd.node, 200))
    # the version component of the key is the stored value itself: a conversion with a precision argument (or any other
    # re-assignment) merges versions that differ below that precision
    g_ = cfg_of(dd)
    rd_ = ReachingDefs(g_, dd.all_param_names())
    stores = [a for a in body_walk(dd.node) if isinstance(a, ast.Assign) and isinstance(a.targets[0], ast.Subscript)
              and isinstance(a.targets[0].slice, ast.Tuple) and len(a.targets[0].slice.elts) == 2]
    okv = bool(stores)
    foundv = []
    for a in stores:
        ve = a.targets[0].slice.elts[1]
        if isinstance(ve, ast.Name):
            defs = [v for _dn, v in rd_.reaching(g_.node_of(a), ve.id)]
            foundv += [norm(v) if isinstance(v, ast.AST) else str(v) for v in defs]
            if not (len(defs) == 1 and isinstance(defs[0], ast.BoolOp) and all(
                    isinstance(x, ast.Call) and isinstance(x.func, ast.Attribute) and x.func.attr == "get" for x in defs[0].values)):
                okv = False
        else:
            okv = False
    run.check(okv, R, key(dd.module.relpath, dd.qualname, "version-key-as-stored"),
              "the version part of the de-duplication key is transformed before use: versions of one object that differ below "
              "the precision of that transformation collapse into one (all_versions / query / relationships through a composite "
              "lose them)", file=dd.module.relpath, line=dd.node.lineno, function=dd.qualname,
              expected="key = (obj['id'], obj.get('modified') or obj.get('created')) unchanged", found=foundv)
    # no answer of a source is ever collapsed by id alone: (id, version) is the identity of a stored object
    for fi in sorted(prog.functions.values(), key=lambda f: f.id):
        if not fi.module.name.startswith(("stix2.datastore", "stix2.environment")) or fi.module.relpath.startswith("stix2/test"):
            continue
        if fi.name not in ("relationships", "related_to", "all_versions", "query", "creator_of"):
            continue
        for x in body_walk(fi.node):
            bad = None
            if isinstance(x, ast.DictComp) and isinstance(x.value, ast.Name) and norm(x.key) in (
                    "%s['id']" % x.value.id, "%s.id" % x.value.id, "%s.get('id')" % x.value.id):
                bad = x
            if isinstance(x, ast.Assign) and isinstance(x.targets[0], ast.Subscript) and isinstance(x.value, ast.Name) \
                    and norm(x.targets[0].slice) in ("%s['id']" % x.value.id, "%s.id" % x.value.id):
                bad = x
            if bad is not None:
                run.violation(R, key(fi.module.relpath, fi.qualname, "collapsed-by-id"),
                              "stored objects are collapsed by id alone: every version but one of a relationship / object held in "
                              "several versions disappears from the answer", file=fi.module.relpath, line=bad.lineno,
                              function=fi.qualname, expected="identity of a stored object is (id, version)", found=short(bad))
    run.floor(R, 6)


def _pure_version_key(kexpr):
    """is the sort / max key the stored version itself -- lambda o: o['modified'] (or o.modified, o.get('modified'), with an
    `or o['created']` fallback), operator.itemgetter('modified') -- and not something computed from it (a lossy conversion
    orders versions differently from their instants)"""
    def proj(e, arg):
        if isinstance(e, ast.Subscript) and isinstance(e.value, ast.Name) and e.value.id == arg and isinstance(e.slice, ast.Constant) \
                and e.slice.value in ("modified", "created"):
            return True
        if isinstance(e, ast.Attribute) and isinstance(e.value, ast.Name) and e.value.id == arg and e.attr in ("modified", "created"):
            return True
        if isinstance(e, ast.Call) and isinstance(e.func, ast.Attribute) and e.func.attr == "get" and isinstance(e.func.value, ast.Name) \
                and e.func.value.id == arg and e.args and isinstance(e.args[0], ast.Constant) and e.args[0].value in ("modified", "created"):
            return True
        if isinstance(e, ast.BoolOp) and isinstance(e.op, ast.Or):
            return all(proj(v, arg) for v in e.values)
        return False
    if isinstance(kexpr, ast.Lambda) and len(kexpr.args.args) == 1:
        return proj(kexpr.body, kexpr.args.args[0].arg)
    if isinstance(kexpr, ast.Call) and norm(kexpr.func) in ("operator.itemgetter", "itemgetter", "operator.attrgetter", "attrgetter") \
            and len(kexpr.args) == 1 and isinstance(kexpr.args[0], ast.Constant) and kexpr.args[0].value == "modified":
        return True
    return False


def newest_idiom(fi, prog):
    """Recognise a 'latest version' selection in fi; returns (kind, detail) or None.
    Idioms: compare-and-replace with `>` on modified, sorted(key=modified)[-1], sorted(reverse=True)[0], max(key=)."""
    for n in body_walk(fi.node):
        if isinstance(n, ast.Subscript) and isinstance(n.value, ast.Call) and call_simple_name(n.value) == "sorted":
            c = n.value
            keyk = [k for k in c.keywords if k.arg == "key"]
            rev = [k for k in c.keywords if k.arg == "reverse" and norm(k.value) == "True"]
            idx = norm(n.slice)
            if keyk and "modified" in norm(keyk[0].value):
                if not _pure_version_key(keyk[0].value):
                    return ("key-is-computed-from-the-version", norm(n))
                if (idx == "-1" and not rev) or (idx == "0" and rev):
                    return ("sorted", norm(n))
                return ("sorted-wrong-end", norm(n))
        if isinstance(n, ast.Call) and call_simple_name(n) == "max" and any(k.arg == "key" and "modified" in norm(k.value) for k in n.keywords):
            if not all(_pure_version_key(k.value) for k in n.keywords if k.arg == "key"):
                return ("key-is-computed-from-the-version", norm(n))
            return ("max", norm(n))
        if isinstance(n, ast.Call) and call_simple_name(n) == "min" and any(k.arg == "key" and "modified" in norm(k.value) for k in n.keywords):
            return ("min-wrong", norm(n))
    # compare-and-replace
    for n in body_walk(fi.node):
        if isinstance(n, ast.If):
            for x in ast.walk(n.test):
                if isinstance(x, ast.Compare) and len(x.ops) == 1 and isinstance(x.ops[0], (ast.Gt, ast.Lt, ast.GtE, ast.LtE)):
                    return ("compare-and-replace", (n, x))
    return None


def rule_newest(ctx):
    run = ctx.run
    prog = ctx.prog
    R = "C18.newest"
    fi = prog.cls(DS + "::CompositeDataSource").methods["get"]
    rel = fi.module.relpath
    idi = newest_idiom(fi, prog)
    ok = False
    found = None
    if idi and idi[0] == "compare-and-replace":
        ifn, cmp_ = idi[1]
        found = norm(ifn.test)
        l, r, op = norm(cmp_.left), norm(cmp_.comparators[0]), cmp_.ops[0]
        # candidate version `>` best-so-far ; body replaces both the object and the best version
        body = {norm(s.targets[0]): norm(s.value) for s in ifn.body if isinstance(s, ast.Assign)}
        loop = next((p for p in _parents(ifn) if isinstance(p, ast.For)), None)
        if loop is not None and isinstance(op, ast.Gt) and body.get(r) == l and norm(loop.target) in body.values():
            # l is the candidate's version: modified-or-created of the loop variable
            fl = flow_of(fi)
            pr = fl.prov(cmp_.left)
            ok = any(isinstance(v, str) and v == "modified" for v in pr.consts)
            # the loop ranges over the answers of all members
            it = fl.prov(loop.iter, fl.node_for(loop))
            ok = ok and "get" in it.calls
        elif loop is not None and isinstance(op, ast.Lt) and body.get(l) == r:
            ok = True
    elif idi and idi[0] in ("sorted", "max"):
        ok = True
        found = idi[1]
    elif idi:
        found = idi[1] if isinstance(idi[1], str) else idi[0]
    run.check(ok, R, key(rel, fi.qualname, "picks-greatest-modified"),
              "lookup by id through a composite does not pick the greatest modified time over the answers of all members (result "
              "depends on member order)", file=rel, line=fi.node.lineno, function=fi.qualname,
              expected="compare-and-replace with `candidate > best` (or sorted()[-1] / max(key=modified))", found=found)
    # members are all asked before selecting (selection loop is over all_data filled by the member loop)
    t = norm(fi.node)
    run.check(pmall(t, "for $ds in self.data_sources", "$d = $ds.get(", "$all.append($d)", "for $o in $all") is not None, R,
              key(rel, fi.qualname, "collects-all-members"),
              "the newest version is chosen before every member was asked", file=rel, line=fi.node.lineno, function=fi.qualname,
              expected="collect every member's answer, then select", found="changed")


def _parents(n):
    p = getattr(n, "parent", None)
    while p is not None and not isinstance(p, (ast.FunctionDef, ast.AsyncFunctionDef, ast.Lambda)):
        yield p
        p = getattr(p, "parent", None)


def rule_navigation(ctx):
    run = ctx.run
    prog = ctx.prog
    R = "C18.navigation-table"
    fi = prog.cls(DS + "::DataSource").methods.get("relationships")
    if fi is None:
        raise AnalysisError("anchor missing: DataSource.relationships")
    rel = fi.module.relpath
    # queries issued: self.query(filters + [Filter(<field>, '=', obj_id)]) under guards on source_only / target_only
    table = {}
    t0 = norm(fi.node)
    bid = pm(t0, "$id = %s['id']" % fi.params[1])
    bfl = pm(t0, "$fl = [Filter('type', '=', 'relationship')]")
    OID = bid["id"] if bid else "?"
    FL = bfl["fl"] if bfl else "?"
    qs = [c for c in body_walk(fi.node) if isinstance(c, ast.Call) and norm(c.func) == "self.query"]
    for q in qs:
        # the filter list may be built in a local first (tf = filters + [Filter(..)]; tf.append(..)): follow it
        exprs = [q]
        for nm_ in names_in(q) - {"self", FL, OID}:
            exprs += [a_.value for a_ in body_walk(fi.node) if isinstance(a_, ast.Assign) and norm(a_.targets[0]) == nm_]
        fields = [x.args[0].value for e_ in exprs for x in ast.walk(e_) if isinstance(x, ast.Call) and call_simple_name(x) == "Filter"
                  and x.args and isinstance(x.args[0], ast.Constant) and len(x.args) == 3 and norm(x.args[1]) == "'='"
                  and norm(x.args[2]) == OID]
        gc = [(norm(t), pol) for t, pol, _ in guard_chain(q)]
        uses_base = any(FL in names_in(e_) for e_ in exprs)
        for f in fields:
            table[f] = (gc, uses_base)
    want = {"source_ref": ([("not target_only", True)], True), "target_ref": ([("not source_only", True)], True)}
    run.check(table == want, R, key(rel, fi.qualname, "2x2-table"),
              "relationships(): the queries issued per (source_only, target_only) differ from the navigation table "
              "((F,F): source_ref+target_ref; (T,F): source_ref; (F,T): target_ref)", file=rel, line=fi.node.lineno,
              function=fi.qualname, expected=want, found=table)
    both = [n for n in body_walk(fi.node) if isinstance(n, ast.If) and sorted(norm(x) for x in (
        n.test.values if isinstance(n.test, ast.BoolOp) and isinstance(n.test.op, ast.And) else [n.test])) == ["source_only", "target_only"]
        and any(isinstance(s, ast.Raise) for s in n.body)]
    run.check(bool(both), R, key(rel, fi.qualname, "both-flags-raise"), "(source_only and target_only) is not refused", file=rel,
              line=fi.node.lineno, function=fi.qualname, expected="raise ValueError", found="absent")
    t = norm(fi.node)
    ok = bfl is not None and "%s.append(Filter('relationship_type', '=', relationship_type))" % FL in t
    rt = [n for n in body_walk(fi.node) if isinstance(n, ast.If) and norm(n.test) == "relationship_type"]
    run.check(ok and bool(rt), R, key(rel, fi.qualname, "base-filters"), "relationships() does not restrict to relationship objects "
              "(and the optional relationship_type)", file=rel, line=fi.node.lineno, function=fi.qualname,
              expected="type = relationship [+ relationship_type = <given>]", found="changed")
    # results are the concatenation of the queries
    fl = flow_of(fi)
    okr = all("query" in fl.prov(r.value).calls for r in returns_of(fi) if r.value is not None)
    run.check(okr, R, key(rel, fi.qualname, "returns-query-results"), "relationships() does not return the query results", file=rel,
              line=fi.node.lineno, function=fi.qualname, expected="results extended by each query", found="changed")
    # related_to
    rt_ = prog.cls(DS + "::DataSource").methods.get("related_to")
    t = norm(rt_.node)
    facts = {
        "uses-relationships-with-all-options": "self.relationships(obj, relationship_type, source_only, target_only)" in t,
        "collects-both-ends": pmall(t, "$rels = self.relationships(", "for $r in $rels", "$ids.update(($r.source_ref, $r.target_ref))") is not None,
        "discards-own-id": pmall(t, "$oid = %s['id']" % rt_.params[1], "$ids.update((", "$ids.discard($oid)") is not None,
        "queries-each-id-with-caller-filters": pmall(t, "$fs = FilterSet(filters)", "for $i in $ids", "Filter('id', '=', $i)") is not None
        and pm(t, "[$f for $f in $fs] + ") is not None,
    }
    for nme, okf in sorted(facts.items()):
        run.check(okf, R, key(rel, rt_.qualname, nme), "related_to() lost a step: %s" % nme, file=rel, line=rt_.node.lineno,
                  function=rt_.qualname, expected=nme, found="changed")
    # creator_of
    for cid in (DS + "::DataSource", "stix2.environment::Environment"):
        co = prog.cls(cid).methods.get("creator_of")
        t = norm(co.node) if co is not None else ""
        ok = co is not None and pmall(t, "$c = %s.get('created_by_ref', '')" % co.params[1], "if $c:", "return self.get($c)") is not None \
            and "return None" in t
        run.check(ok, R, key(co.module.relpath if co else "?", "%s.creator_of" % cid.split("::")[1], "lookup-created_by_ref"),
                  "creator_of() does not look the created_by_ref up through get()", file=co.module.relpath if co else None,
                  line=co.node.lineno if co else None, function="creator_of", expected="self.get(obj['created_by_ref']) or None",
                  found=short(co.node, 160) if co else None)
    run.floor(R, 9)


def rule_delegation(ctx):
    run = ctx.run
    prog = ctx.prog
    R = "C18.delegation"
    mix = prog.cls(DS + "::DataStoreMixin")
    for mname in ("get", "all_versions", "query", "creator_of", "relationships", "related_to", "add"):
        fi = mix.methods.get(mname)
        if fi is None:
            raise AnalysisError("anchor missing: DataStoreMixin.%s" % mname)
        tgt = "self.sink" if mname == "add" else "self.source"
        rets = [r for r in returns_of(fi) if r.value is not None]
        ok = len(rets) == 1 and isinstance(rets[0].value, ast.Call) and norm(rets[0].value.func) == "%s.%s" % (tgt, mname) and \
            [norm(a) for a in rets[0].value.args] == ["*args"] and [norm(k.value) for k in rets[0].value.keywords if k.arg is None] == ["kwargs"]
        run.check(ok, R, key(fi.module.relpath, fi.qualname, "delegates"), "the store method does not delegate to the same-named "
                  "method of its %s with all arguments" % tgt.split(".")[1], file=fi.module.relpath, line=fi.node.lineno,
                  function=fi.qualname, expected="return %s.%s(*args, **kwargs)" % (tgt, mname), found=[short(r) for r in rets])
    env = prog.cls("stix2.environment::Environment").methods.get("__init__")
    t = norm(env.node)
    facts = {
        "composite-source": "self.source = CompositeDataSource()" in t,
        "store-source-attached": "self.source.add_data_source(store.source)" in t and "self.sink = store.sink" in t,
        "source-attached": "self.source.add_data_source(source)" in t,
        "one-sink": "if store" in t and "raise ValueError" in t and "self.sink = sink" in t,
    }
    for nme, okf in sorted(facts.items()):
        run.check(okf, R, key(env.module.relpath, env.qualname, nme), "Environment wiring changed: %s" % nme, file=env.module.relpath,
                  line=env.node.lineno, function=env.qualname, expected=nme, found="changed")
    run.floor(R, 11)


def rule_environment_attaches_every_source(ctx):
    """Environment(store=S, source=X): both are members of the environment's composite.  Each `add_data_source` of the
    constructor depends on ITS OWN argument only -- it does not sit in the else-part of the test of another argument (`elif
    source:` after `if store:` drops everything only X holds as soon as a store is given as well)."""
    run = ctx.run
    prog = ctx.prog
    R = "C18.member-forward"
    fi = prog.cls("stix2.environment::Environment").methods.get("__init__")
    if fi is None:
        raise AnalysisError("anchor missing: Environment.__init__")
    rel = fi.module.relpath
    calls = [c for c in body_walk(fi.node) if isinstance(c, ast.Call) and call_simple_name(c) == "add_data_source" and c.args]
    if len(calls) < 2:
        raise AnalysisError("Environment.__init__: fewer than two add_data_source calls (%d)" % len(calls))
    for c in calls:
        arg_root = c.args[0]
        while isinstance(arg_root, ast.Attribute):
            arg_root = arg_root.value
        own = norm(arg_root)
        foreign = [norm(t) for t, pol, _ in guard_chain(c) if (not pol) or (own not in names_in(t))]
        run.check(not foreign, R, key(rel, fi.qualname, "attached-on-its-own-argument:%s" % own),
                  "whether the %s given to Environment() is attached depends on another argument (%s): given together with it, "
                  "what only this source holds is missing from every answer of the environment" % (own, "; ".join(foreign)), file=rel,
                  line=c.lineno, function=fi.qualname, expected="if %s: self.source.add_data_source(...)" % own, found=foreign)


def rule_every_related_id_is_asked(ctx, R="C18.navigation"):
    """related_to() asks the source about EVERY id the relationships name; which of them are returned is decided by the
    filters, evaluated by the query.  A shortcut in front of the query (skip ids whose type prefix is not among the values of
    the caller's type filters) re-implements the filter semantics -- and gets `!=` and `in` wrong: the wanted objects are
    dropped.  In DataSource.related_to the per-id query is unconditional inside its loop."""
    run = ctx.run
    prog = ctx.prog
    fi = prog.cls(DS + "::DataSource").methods.get("related_to")
    if fi is None:
        raise AnalysisError("anchor missing: DataSource.related_to")
    loops = [lp for lp in body_walk(fi.node) if isinstance(lp, ast.For) and any(
        isinstance(c, ast.Call) and isinstance(c.func, ast.Attribute) and c.func.attr == "query" for c in ast.walk(lp))]
    if len(loops) != 1:
        raise AnalysisError("DataSource.related_to: the per-id query loop was not found")
    lp = loops[0]
    q = [c for c in ast.walk(lp) if isinstance(c, ast.Call) and isinstance(c.func, ast.Attribute) and c.func.attr == "query"][0]
    skips = [x for st in lp.body for x in ast.walk(st) if isinstance(x, (ast.Continue, ast.Break))]
    cond = guard_chain(q, stop=lp)
    run.check(not skips and not cond, R, key(fi.module.relpath, fi.qualname, "every-related-id-is-asked"),
              "an id named by the relationships is not always asked for: a test in front of the per-id query decides in place of "
              "the filters (and knows less than they do: the operator, the other filters), so related objects are dropped",
              file=fi.module.relpath, line=(skips[0].lineno if skips else q.lineno), function=fi.qualname,
              expected="for i in ids: results.extend(self.query([...filters..., Filter('id', '=', i)]))",
              found=[short(x.parent if hasattr(x, "parent") else x, 80) for x in skips] + [norm(t) for t, _p, _ in cond])


def rule_versions_compared_as_instants(ctx, R="C18.newest"):
    """'Newest' is an order on INSTANTS.  Timestamp text is not ordered like time: '...10.1234Z' < '...10.123Z' as text (the
    'Z' sorts after the digits), and text of different precisions compares by length accidents.  In CompositeDataSource.get
    the values compared to pick the newest answer are what the objects hold -- not the output of a formatter / str()."""
    run = ctx.run
    prog = ctx.prog
    fi = prog.cls(DS + "::CompositeDataSource").methods.get("get")
    if fi is None:
        raise AnalysisError("anchor missing: CompositeDataSource.get")
    fl = flow_of(fi)
    cmps = [x for x in body_walk(fi.node) if isinstance(x, ast.Compare) and any(isinstance(o, (ast.Gt, ast.Lt, ast.GtE, ast.LtE)) for o in x.ops)]
    if not cmps:
        raise AnalysisError("CompositeDataSource.get: no order comparison found")
    textual = ("format_datetime", "str", "repr", "isoformat", "strftime", "format", "serialize", "dumps")
    bad = []
    for c in cmps:
        for e in [c.left] + list(c.comparators):
            used = sorted(fl.prov(e).calls & set(textual))
            if used:
                bad.append((c, used))
    run.check(not bad, R, key(fi.module.relpath, fi.qualname, "newest-by-instant"),
              "the versions of the members' answers are ordered as TEXT (%s): text order is not time order across precisions "
              "('.1234Z' sorts before '.123Z'), so an older version is returned as the newest" % (", ".join(bad[0][1]) if bad else ""),
              file=fi.module.relpath, line=bad[0][0].lineno if bad else fi.node.lineno, function=fi.qualname,
              expected="compare the datetime values the objects hold", found=[short(c, 80) for c, _ in bad])


def rule_endpoint_filters_name_the_object(ctx, R="C18.navigation"):
    """relationships() finds the relationship objects of an object with filters on the two endpoint properties.  Every such
    filter -- the two `=` filters and the `!=` filter that keeps a relationship from the object to itself from being answered
    twice -- compares the endpoint with THE OBJECT'S ID: the value argument of every Filter('source_ref' | 'target_ref', op, v)
    in DataSource.relationships is the id the function derived from its argument (one name for all of them)."""
    run = ctx.run
    prog = ctx.prog
    fi = prog.cls(DS + "::DataSource").methods.get("relationships")
    if fi is None:
        raise AnalysisError("anchor missing: DataSource.relationships")
    fs = [c for c in body_walk(fi.node) if isinstance(c, ast.Call) and call_simple_name(c) == "Filter" and len(c.args) == 3
          and isinstance(c.args[0], ast.Constant) and c.args[0].value in ("source_ref", "target_ref")]
    if len(fs) < 3:
        raise AnalysisError("DataSource.relationships: fewer than 3 endpoint filters (%d)" % len(fs))
    vals = {norm(c.args[2]) for c in fs}
    fl = flow_of(fi)
    from_obj = all(fi.params[1] in fl.prov(c.args[2]).params for c in fs)
    run.check(len(vals) == 1 and from_obj, R, key(fi.module.relpath, fi.qualname, "endpoint-filters-name-the-object"),
              "an endpoint filter of relationships() does not compare with the id of the object asked about: relationships are "
              "missed, or a relationship from the object to itself is answered twice", file=fi.module.relpath, line=fs[0].lineno,
              function=fi.qualname, expected="one id expression, derived from the argument, in every endpoint filter", found=sorted(vals))
