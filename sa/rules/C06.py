"""C06 — STIX 2.1 observable identifiers are deterministic and specification-exact.

Decides: the identifier-contributing property lists equal the specification,
the namespace and the hash priority are the specified constants (and name hash
keys as HashesProperty normalises them), the generation is wired exactly under
"no id given", the generator has the specified shape, and no source of
non-determinism is reachable from it.  The exact hashed bytes for every value
class are delegated to C16's clauses; collision freedom is not decided.
"""
import ast

from ..astutil import call_simple_name, dotted, guard_chain, names_in, returns_of, short
from ..callgraph import CHA, EXACT, get_callgraph
from ..cfg import cfg_of, node_calls
from ..loader import AnalysisError, External, FunctionInfo, body_walk, norm, walk_no_nested
from ..report import key
from ..tableeval import Evaluator
from ..typemodel import get_model

PROP = "C06"


def run(ctx):
    run = ctx.run
    run.explanation = (
        "Set comparison of the 18 _id_contributing_properties lists with STIX 2.1 section 6 (each name must be a slot), evaluated "
        "constants (namespace UUID, hash priority chain as a decision table, membership of the four names in the 2.1 hashing "
        "vocabulary as normalised by HashesProperty), CFG/dominance of the wiring in v21._Observable.__init__, shape of "
        "_generate_id (iterate list, only keys present, hashes through the chooser, canonicalize -> uuid5 -> type--uuid), and an "
        "effect analysis over the call graph rooted at _generate_id for non-deterministic calls."
    )
    run.trusted_base = ["CPython ast", "spec/idcontrib.json (hand transcription of STIX 2.1 sections 2.9 and 6)"]
    run.assumptions = ["uuid.uuid5 and the canonicaliser are deterministic functions of their arguments (C16 decides the latter's shape)"]
    ctx.do(rule_table)
    ctx.do(rule_constants)
    ctx.do(rule_wiring)
    ctx.do(rule_determinism)
    ctx.do(rule_renamed_keys_collide)
    ctx.do(rule_contributing_lists_never_written)
    # "equal ids across processes": a contributing TIMESTAMP is hashed as its UTC text; reading a timezone-naive value in the
    # zone of the process (astimezone on a naive datetime) makes the id depend on TZ -- the C15 clauses on how a value becomes UTC
    from . import C15 as _C15
    ctx.do(_C15.rule_value_object, rule_id="C06.timestamps-process-independent")
    ctx.do(_C15.rule_no_relabel, rule_id="C06.timestamps-process-independent")
    # the id is computed by the base constructor: every contributing property must be in place by then
    from .C01 import rule_inner_written_by_constructor
    ctx.do(rule_inner_written_by_constructor, rule_id="C06.wiring")
    # the id is the UUIDv5 of the RFC 8785 form of the contributing properties: every structural clause of the canonical
    # form (C16) is a necessary condition of "the same id as every other implementation"
    from . import C16
    ctx.do(C16.rule_encoder_siblings, rule_id="C06.canonical-form")
    ctx.do(C16.rule_key_order, rule_id="C06.canonical-form")
    ctx.do(C16.rule_escapes, rule_id="C06.canonical-form")
    ctx.do(C16.rule_number_constants, rule_id="C06.canonical-form")
    # what is hashed is what was PARSED: a decoder hook (parse_float=Decimal) changes the values of untyped positions, and the
    # hashing step turns a Decimal into its text -- the id of parsed text differs from the id of the equal dictionary
    from .C01 import rule_decoder_plain
    ctx.do(rule_decoder_plain, rule_id="C06.canonical-form")
    from .hidden_state import rule_no_hidden_state
    ctx.do(rule_no_hidden_state, "C06.history-independence")
    from .pitfalls import rule_loops_not_cut_short
    ctx.do(rule_loops_not_cut_short, "C06.loops-complete")
    from .pitfalls import rule_definite_assignment
    ctx.do(rule_definite_assignment, "C06.definite-assignment")


def rule_table(ctx):
    run = ctx.run
    prog = ctx.prog
    tm = get_model(prog)
    spec = ctx.spec("idcontrib.json")
    R = "C06.table"
    seen = set()
    for k, cls, knode in tm.registries["2.1"]["observables"]:
        rec = tm.classes[("2.1", cls.name)]
        seen.add(k)
        c = key(rec["file"], cls.name, "_id_contributing_properties")
        want = spec["contributing"].get(k)
        if want is None:
            run.violation(R, c, "observable type %r has no entry in the specification table" % k, file=rec["file"], line=rec["line"])
            continue
        got = rec["id_contributing"]
        if got is None:
            run.violation(R, c, "observable class defines no identifier-contributing properties (AttributeError at construction "
                          "without id)", file=rec["file"], line=rec["line"], function=cls.name, expected=want, found=None)
            continue
        slots = {s for s, _ in rec["slots"]}
        problems = []
        if set(got) != set(want):
            problems.append("set differs: missing %s, extra %s" % (sorted(set(want) - set(got)), sorted(set(got) - set(want))))
        if len(got) != len(set(got)):
            problems.append("duplicate names")
        for nme in got:
            if nme not in slots:
                problems.append("%r is not a property of the class (never contributes)" % nme)
        run.check(not problems, R, c, "identifier-contributing properties of %s differ from STIX 2.1 section 6: %s — equal "
                  "objects get different ids than other implementations / different objects collide" % (k, "; ".join(problems)),
                  file=rec["file"], line=rec["line"], function=cls.name, expected=sorted(want), found=sorted(got))
    for k in sorted(set(spec["contributing"]) - seen):
        run.violation(R, key("stix2/v21/observables.py", k, "_id_contributing_properties"), "specified observable %r is not registered" % k)
    # the custom observable builder installs the caller's list for non-2.0 versions
    b = prog.func("stix2.custom::_custom_observable_builder")
    inner = [c for c in prog.classes.values() if c.parent_func is b]
    ok = False
    if inner:
        for s in inner[0].node.body:
            if isinstance(s, ast.If) and norm(s.test) in ("version != '2.0'",) and any(
                    isinstance(x, ast.Assign) and norm(x.targets[0]) == "_id_contributing_properties" and norm(x.value) == "id_contrib_props"
                    for x in s.body):
                ok = True
    run.check(ok, R, key(b.module.relpath, b.qualname, "custom-list-installed"),
              "custom observables do not get the caller's identifier-contributing list", file=b.module.relpath, line=b.node.lineno,
              function=b.qualname, expected="if version != '2.0': _id_contributing_properties = id_contrib_props", found="changed")
    # v21 CustomObservable forwards id_contrib_props
    dec = tm.decorators.get(("2.1", "CustomObservable"))
    okd = dec is not None and any(norm(a) == "id_contrib_props" for a in dec["builder_call"].args) or (
        dec is not None and any(k.arg == "id_contrib_props" for k in dec["builder_call"].keywords))
    run.check(okd, R, key(dec["file"] if dec else "?", "CustomObservable", "forwards-id_contrib_props"),
              "the 2.1 CustomObservable decorator does not forward id_contrib_props", file=dec["file"] if dec else None,
              line=dec["line"] if dec else None, function="CustomObservable", expected="builder(..., id_contrib_props)", found="absent")
    run.floor(R, 18)


def _order_free_first(text, p):
    """the fall-back choice 'else first' must not depend on the order of the input dictionary: lexically first key
    (sorted / min); `next(iter(hash_dict))` is the insertion-order first and gives two ids for one file"""
    return ("sorted(%s" % p) in text or ("min(%s" % p) in text


def rule_constants(ctx):
    run = ctx.run
    prog = ctx.prog
    spec = ctx.spec("idcontrib.json")
    R = "C06.constants"
    ev = Evaluator(prog)
    m = prog.module("stix2.base")
    b = m.scope.lookup_local("SCO_DET_ID_NAMESPACE")
    if b is None:
        raise AnalysisError("anchor missing: SCO_DET_ID_NAMESPACE")
    val = ev.eval(b.value, m.scope)
    run.check(val == ("UUID", spec["namespace"]), R, key(m.relpath, "SCO_DET_ID_NAMESPACE", "value"),
              "the UUIDv5 namespace differs from the specification: every deterministic id differs from other implementations",
              file=m.relpath, line=b.lineno, function="<module>", expected=spec["namespace"], found=val)
    # hash chooser: ordered chain of `if "<K>" in hash_dict: return {"<K>": hash_dict["<K>"]}` then first
    fi = prog.func("stix2.base::_choose_one_hash")
    p = fi.params[0]
    order = []
    cur = next((s for s in fi.node.body if isinstance(s, ast.If)), None)
    ok_shape = cur is not None
    else_first = False
    input_order = None
    if cur is None:
        # loop idiom: `for k in <constant sequence>: if k in hash_dict: return {k: hash_dict[k]}` keeps the order of the
        # sequence; a loop over the *input* makes the caller's key order decide
        for lp in [s for s in fi.node.body if isinstance(s, ast.For)]:
            if not isinstance(lp.target, ast.Name):
                continue
            it = lp.iter
            src = it
            while isinstance(src, ast.Call) and (call_simple_name(src) in ("iter", "list", "tuple", "keys", "items")) :
                src = src.args[0] if src.args else (src.func.value if isinstance(src.func, ast.Attribute) else src)
            if isinstance(src, ast.Name) and src.id == p:
                if any(isinstance(x, ast.Return) for s_ in lp.body for x in walk_no_nested(s_)):
                    input_order = lp
                continue
            try:
                seq = ev.eval(it, fi.scope)
            except Exception:
                seq = None
            k = lp.target.id
            tests = [s_ for s_ in lp.body if isinstance(s_, ast.If) and norm(s_.test) == "%s in %s" % (k, p)
                     and s_.body and isinstance(s_.body[0], ast.Return) and norm(s_.body[0].value) in ("{%s: %s[%s]}" % (k, p, k),)]
            if isinstance(seq, (list, tuple)) and all(isinstance(x, str) for x in seq) and tests:
                order = list(seq)
                ok_shape = True
        rest = " ; ".join(norm(s_) for s_ in fi.node.body if not isinstance(s_, ast.For))
        else_first = _order_free_first(rest, p)
        if not ok_shape and input_order is None:
            raise AnalysisError("_choose_one_hash: neither the if-chain nor a loop over a constant preference list was recognised")
    while cur is not None:
        t = cur.test
        if isinstance(t, ast.Compare) and isinstance(t.ops[0], ast.In) and isinstance(t.left, ast.Constant) and norm(t.comparators[0]) == p:
            k = t.left.value
            r = cur.body[0] if cur.body else None
            if not (isinstance(r, ast.Return) and isinstance(r.value, ast.Dict) and len(r.value.keys) == 1
                    and isinstance(r.value.keys[0], ast.Constant) and r.value.keys[0].value == k
                    and norm(r.value.values[0]) in ("%s['%s']" % (p, k), '%s["%s"]' % (p, k))):
                ok_shape = False
            order.append(k)
        else:
            ok_shape = False
        if len(cur.orelse) == 1 and isinstance(cur.orelse[0], ast.If):
            cur = cur.orelse[0]
        else:
            etxt = " ; ".join(norm(s) for s in cur.orelse)
            else_first = _order_free_first(etxt, p)
            cur = None
    if input_order is not None:
        run.violation(R, key(m.relpath, fi.qualname, "hash-priority"),
                      "the hash that contributes to the id is the first preferred one in the ORDER OF THE INPUT dictionary, not "
                      "in the specified order MD5, SHA-1, SHA-256, SHA-512: the same file described with its hashes listed in "
                      "another order gets another id", file=m.relpath, line=input_order.lineno, function=fi.qualname,
                      expected=spec["hash_priority"] + ["<first>"], found=short(input_order, 160))
    else:
        run.check(ok_shape and order == spec["hash_priority"] and else_first, R, key(m.relpath, fi.qualname, "hash-priority"),
                  "the single hash that contributes to the id is not chosen in the specified order MD5, SHA-1, SHA-256, SHA-512, "
                  "else first", file=m.relpath, line=fi.node.lineno, function=fi.qualname,
                  expected=spec["hash_priority"] + ["<first>"], found=order + (["<first>"] if else_first else []))
    order = spec["hash_priority"]
    # the four literals are names HashesProperty produces for the 2.1 vocabulary
    vm = prog.module("stix2.v21.vocab")
    vb = vm.scope.lookup_local("HASHING_ALGORITHM")
    names = ev.eval(vb.value, vm.scope)
    for k in order:
        run.check(k in names, R, key(m.relpath, fi.qualname, "priority-name-in-vocabulary:%s" % k),
                  "the chooser tests a key that HashesProperty never produces for 2.1 hashes (it normalises to the vocabulary "
                  "spelling), so the priority never applies", file=m.relpath, line=fi.node.lineno, function=fi.qualname,
                  expected="member of v21 HASHING_ALGORITHM %s" % names, found=k)
    run.floor(R, 5)


def rule_wiring(ctx):
    run = ctx.run
    prog = ctx.prog
    R = "C06.wiring"
    init = prog.cls("stix2.v21.base::_Observable").methods.get("__init__")
    if init is None:
        raise AnalysisError("anchor missing: v21._Observable.__init__")
    rel = init.module.relpath
    g = cfg_of(init)
    from .C02 import is_super_call
    sup = [n for n in g.nodes if node_calls(n, lambda c: is_super_call(c, "__init__"))]
    gen = [n for n in g.nodes if n.kind == "stmt" and node_calls(n, lambda c: call_simple_name(c) == "_generate_id")]
    ok = bool(sup) and bool(gen)
    if ok:
        dom = g.dominators()
        ok = sup[0] in dom[gen[0]]
        gc = [(norm(t), pol) for t, pol, _ in guard_chain(gen[0].ast)]
        # "no id was given" follows the constructor's own convention: a keyword passed as None is NOT given (it is dropped by
        # the base constructor, which then falls back to a random UUIDv4) -- a bare membership test takes id=None for an id
        kw = init.kwarg or "kwargs"
        # the base constructor's own "not given" set, read from its  `if <value> not in (<absent values>):`  test
        base_init = prog.func("stix2.base::_STIXBase.__init__")
        absent = None
        for t_ in [x for x in body_walk(base_init.node) if isinstance(x, ast.Compare) and len(x.ops) == 1 and isinstance(x.ops[0], ast.NotIn)
                   and isinstance(x.comparators[0], (ast.Tuple, ast.List)) and isinstance(getattr(x, "parent", None), ast.If)]:
            vals = sorted(norm(e) for e in t_.comparators[0].elts)
            if "None" in vals:
                absent = vals
        if absent is None:
            raise AnalysisError("_STIXBase.__init__: the 'not given' test (`not in (None, [])`) was not found")
        if absent == ["None"]:
            accepted = ("%s.get('id') is None" % kw, "%s.get('id') == None" % kw)
        else:
            accepted = ("%s.get('id') in (%s)" % (kw, ", ".join(p_)) for p_ in __import__("itertools").permutations(absent))
            accepted = tuple(accepted) + ("not %s.get('id')" % kw,)
        ok = ok and len(gc) == 1 and gc[0][1] and gc[0][0] in accepted
    run.check(ok, R, key(rel, init.qualname, "generate-under-no-id"),
              "the deterministic id is not generated exactly when no id was given -- by the base constructor's OWN notion of 'not "
              "given' (None and [] are dropped there and the random default is used): File(name='x', id=None) / id=[] -- or parsed "
              "content with \"id\": null / [] -- gets a random UUIDv4 although contributing properties are present", file=rel,
              line=init.node.lineno, function=init.qualname,
              expected="super().__init__(**kwargs); if kwargs.get('id') in (None, []): id_ = self._generate_id()",
              found=short(init.node, 200))
    # every JSON array form is made serialisable element by element: a tuple is written as an array by the encoder, so it must
    # be hashed as one (falling into the "other value -> its JSON text as a string" branch hashes "[1, 2]" instead of [1,2])
    mj = prog.func("stix2.base::_make_json_serializable")
    seq_tests = [t for n_ in body_walk(mj.node) if isinstance(n_, ast.If) for t in [n_.test]
                 if isinstance(t, ast.Call) and call_simple_name(t) == "isinstance" and len(t.args) == 2 and "list" in norm(t.args[1])]
    okt = bool(seq_tests) and all("tuple" in norm(t.args[1]) for t in seq_tests)
    run.check(okt, R, key(mj.module.relpath, mj.qualname, "tuples-are-arrays"),
              "a tuple inside a contributing value is not treated as a JSON array when the id is computed (it is when the object "
              "is serialised): the id is not the UUIDv5 of the canonical form of what is written, and changes on a round trip",
              file=mj.module.relpath, line=mj.node.lineno, function=mj.qualname, expected="isinstance(value, (list, tuple))",
              found=[short(t) for t in seq_tests])
    # ... and it IS generated then: a failure of the generator (content without a canonical form: nested too deeply, a number
    # beyond the double range) is an error of the content -- a handler that swallows it and leaves the random UUIDv4 of the
    # base constructor in place gives the same content a different id on every construction
    swallowed = []
    for gn in gen:
        p_ = getattr(gn.ast, "parent", None)
        c_ = gn.ast
        while p_ is not None and p_ is not init.node:
            if isinstance(p_, ast.Try) and c_ in p_.body:
                for h in p_.handlers:
                    if not (h.body and isinstance(h.body[-1], ast.Raise)):
                        swallowed.append(h)
            c_, p_ = p_, getattr(p_, "parent", None)
    run.check(bool(gen) and not swallowed, R, key(rel, init.qualname, "generator-failure-is-an-error"),
              "a failure of the deterministic id generator is swallowed: the object is then built with the random UUIDv4 default, "
              "so equal content no longer gets equal ids (and the id is not the UUIDv5 of anything)", file=rel,
              line=swallowed[0].lineno if swallowed else init.node.lineno, function=init.qualname,
              expected="every handler around _generate_id() ends in raise", found=[short(h, 80) for h in swallowed])
    # every mapping / sequence inside a contributing value is hashed WHOLE: the containers built here take every item of the
    # value (its own iteration, no condition) -- a walk over the class's property table instead leaves custom properties of an
    # embedded object / extension out of the hashed form, so two objects that differ only there get one id
    pv = mj.params[0] if mj.params else "value"
    comps = [c for c in body_walk(mj.node) if isinstance(c, (ast.DictComp, ast.ListComp, ast.SetComp, ast.GeneratorExp))]
    badc = [c for c in comps if len(c.generators) != 1 or c.generators[0].ifs
            or norm(c.generators[0].iter) not in ("%s.items()" % pv, pv)]
    run.check(bool(comps) and not badc, R, key(mj.module.relpath, mj.qualname, "containers-hashed-whole"),
              "a container inside a contributing value is rebuilt for hashing from something else than all of its own items (a "
              "condition, or a walk over another table): what is hashed is not what is written -- members that are skipped "
              "(custom properties inside an extension or embedded object) do not contribute, and the id no longer is the UUIDv5 "
              "of the canonical form of the contributing properties", file=mj.module.relpath,
              line=(badc[0].lineno if badc else mj.node.lineno), function=mj.qualname,
              expected="{k: f(v) for k, v in value.items()} / [f(v) for v in value]", found=[short(c, 100) for c in badc])
    # stored when not None
    stores = [n for n in body_walk(init.node) if isinstance(n, ast.Assign) and norm(n.targets[0]) in ("self._inner['id']", 'self._inner["id"]')]
    oks = len(stores) == 1 and any(pol and norm(t).endswith("is not None") for t, pol, _ in guard_chain(stores[0]))
    if oks:
        v = stores[0].value
        oks = isinstance(v, ast.Name) and gen and isinstance(gen[0].ast, ast.Assign) and norm(gen[0].ast.targets[0]) == v.id
    run.check(oks, R, key(rel, init.qualname, "id-stored"), "the generated id is not stored (only when one was generated)", file=rel,
              line=init.node.lineno, function=init.qualname, expected="if id_ is not None: self._inner['id'] = id_",
              found=[short(s) for s in stores])
    # every 2.1 observable class inherits this __init__ (no override that skips it)
    tm = get_model(prog)
    for k, cls, _ in tm.registries["2.1"]["observables"]:
        d = prog.class_attr(cls, "__init__")
        run.check(d is init, R, key(cls.module.relpath, cls.name, "uses-v21-observable-init"),
                  "observable class does not construct through v21._Observable.__init__ (no deterministic id)",
                  file=cls.module.relpath, line=cls.node.lineno, function=cls.name, expected=init.id, found=getattr(d, "id", None))
    # generator shape
    fi = prog.func("stix2.base::_Observable._generate_id")
    rel = fi.module.relpath
    loops = [n for n in body_walk(fi.node) if isinstance(n, ast.For) and norm(n.iter) == "self._id_contributing_properties"]
    ok = len(loops) == 1
    facts = {}
    if ok:
        lp = loops[0]
        kv = norm(lp.target)
        present = [s for s in lp.body if isinstance(s, ast.If) and norm(s.test) == "%s in self" % kv]
        facts["only-present"] = bool(present) and len(lp.body) == 1
        txt = norm(lp)
        facts["hashes-through-chooser"] = ("if %s == 'hashes'" % kv) in txt and "_choose_one_hash(" in txt
        facts["others-serialised"] = "_make_json_serializable(" in txt
        facts["stored-under-key"] = any(isinstance(x, ast.Assign) and isinstance(x.targets[0], ast.Subscript)
                                        and norm(x.targets[0].slice) == kv for x in walk_no_nested(lp))
    from ..forward import flow_of
    fl = flow_of(fi)
    # the mapping filled in the loop (name-independent)
    acc = None
    if ok:
        for x in walk_no_nested(loops[0]):
            if isinstance(x, ast.Assign) and isinstance(x.targets[0], ast.Subscript) and isinstance(x.targets[0].value, ast.Name):
                acc = x.targets[0].value.id
    canon = [c for c in body_walk(fi.node) if isinstance(c, ast.Call) and isinstance(prog.deref(prog.resolve_expr(fi.scope, c.func)), FunctionInfo)
             and prog.deref(prog.resolve_expr(fi.scope, c.func)).id == "stix2.canonicalization.Canonicalize::canonicalize"]
    facts["canonicalize"] = len(canon) == 1 and acc is not None and canon[0].args and norm(canon[0].args[0]) == acc and any(
        k.arg == "utf8" and norm(k.value) == "False" for k in canon[0].keywords)
    u5 = [c for c in body_walk(fi.node) if isinstance(c, ast.Call) and dotted(c.func) == "uuid.uuid5"]
    facts["uuid5-in-namespace"] = False
    if len(u5) == 1 and len(u5[0].args) == 2:
        nsb = prog.resolve_expr(fi.scope, u5[0].args[0]) if isinstance(u5[0].args[0], (ast.Name, ast.Attribute)) else None
        pr = fl.prov(u5[0].args[1])
        facts["uuid5-in-namespace"] = getattr(nsb, "name", None) == "SCO_DET_ID_NAMESPACE" and "canonicalize" in pr.calls
    facts["type--uuid"] = False
    for r in returns_of(fi):
        pr = fl.prov(r.value)
        if "_type" in pr.selfattrs and "uuid5" in pr.calls and any(isinstance(v, str) and v.count("--") == 1 and v.count("{") == 2
                                                                   for v in pr.consts):
            facts["type--uuid"] = True
    # None when nothing contributed: the id is only built under a test of the filled mapping, and starts as None
    facts["none-when-empty"] = bool(u5) and any(pol and norm(t) == acc for t, pol, _ in guard_chain(u5[0])) and all(
        any(v is None for v in fl.prov(r.value).consts) for r in returns_of(fi))
    for name, okf in sorted(facts.items()):
        run.check(okf, R, key(rel, fi.qualname, name), "_generate_id lost a step of the specified procedure", file=rel,
                  line=fi.node.lineno, function=fi.qualname, expected=name, found="absent")
    run.floor(R, 25)


NONDET = ("uuid.uuid1", "uuid.uuid4", "random.", "secrets.", "time.", "datetime.datetime.now", "datetime.datetime.utcnow",
          "os.urandom", "os.getpid", "builtins.id", "builtins.hash")


def rule_determinism(ctx):
    run = ctx.run
    prog = ctx.prog
    cg = get_callgraph(prog)
    R = "C06.determinism"
    root = prog.func("stix2.base::_Observable._generate_id")
    extra_roots = [prog.func("stix2.base::_choose_one_hash"), prog.func("stix2.base::_make_json_serializable"),
                   prog.func("stix2.canonicalization.Canonicalize::canonicalize"),
                   prog.func("stix2.canonicalization.Canonicalize::_make_iterencode"),
                   prog.func("stix2.canonicalization.NumberToJson::convert2Es6Format"),
                   prog.func("stix2.utils::format_datetime")]
    enc = prog.cls("stix2.serialization::STIXJSONEncoder").methods["default"]
    # exact edges only (CHA on `.get`/`.items` would drag the datastores in)
    reach = cg.reachable([root] + extra_roots + [enc], kinds=(EXACT,))
    reach = {f for f in reach if f.module.name.startswith(("stix2.base", "stix2.canonicalization", "stix2.serialization", "stix2.utils"))}
    n_calls = 0
    bad = []
    for f in sorted(reach, key=lambda x: x.id):
        if f.module.name == "stix2.utils" and f.name not in ("format_datetime",):
            continue
        for c in cg.calls_in(f):
            n_calls += 1
            d = prog.deref(prog.resolve_expr(prog.enclosing_scope(c), c.func)) if isinstance(c.func, (ast.Name, ast.Attribute)) else None
            full = d.dotted if isinstance(d, External) else (dotted(c.func) or "")
            if any(full == x or (x.endswith(".") and full.startswith(x)) for x in NONDET):
                # id() for circular-reference markers in the canonicaliser feeds no output
                if full == "builtins.id" and f.module.name.endswith("Canonicalize"):
                    continue
                bad.append((f, c, full))
        # iteration over a set feeding output
        for n in body_walk(f.node):
            if isinstance(n, (ast.For, ast.comprehension)) and isinstance(n.iter, (ast.Set, ast.SetComp)):
                bad.append((f, n, "iteration over a set"))
            if isinstance(n, (ast.For, ast.comprehension)) and isinstance(n.iter, ast.Call) and call_simple_name(n.iter) in ("set", "frozenset"):
                bad.append((f, n, "iteration over a set"))
    run.extra["functions_reachable_from_generate_id"] = len(reach)
    run.extra["calls_scanned"] = n_calls
    for f in sorted(reach, key=lambda x: x.id):
        mine = [(c, w) for ff, c, w in bad if ff is f]
        run.check(not mine, R, key(f.module.relpath, f.qualname, "no-nondeterminism"),
                  "a source of non-determinism is reachable from _generate_id: equal contributing values would not give equal ids",
                  file=f.module.relpath, line=mine[0][0].lineno if mine else f.node.lineno, function=f.qualname,
                  expected="no uuid1/uuid4/random/time/id()/hash()/set iteration", found=[w for _, w in mine])
    # mapping iteration feeding the canonical text is sorted
    mk = prog.func("stix2.canonicalization.Canonicalize::_make_iterencode")
    t = norm(mk.node)
    run.check("sorted(dct.items(), key=" in t, R, key(mk.module.relpath, mk.qualname, "sorted-members"),
              "object members are not sorted in the canonical text: dictionary order would change the id", file=mk.module.relpath,
              line=mk.node.lineno, function=mk.qualname, expected="items = sorted(dct.items(), key=...)", found="absent")
    ca = prog.func("stix2.canonicalization.Canonicalize::canonicalize")
    run.check("JSONEncoder(sort_keys=True)" in norm(ca.node), R, key(ca.module.relpath, ca.qualname, "sort_keys"),
              "canonicalize() does not request sorted keys", file=ca.module.relpath, line=ca.node.lineno, function=ca.qualname,
              expected="JSONEncoder(sort_keys=True)", found=short(ca.node, 120))
    run.floor(R, 8)


def rule_renamed_keys_collide(ctx):
    """"Equal contributing values give equal ids across dictionary orders": a cleaning step that rebuilds a dictionary under
    RENAMED keys (store key != loop key) merges the entries whose names map to one key, and which of them survives is the
    iteration order of the input.  Every such store is under a test of the new key against the dictionary being built (the
    collision is refused, or resolved without regard to order)."""
    run = ctx.run
    prog = ctx.prog
    R = "C06.order-free-cleaning"
    n = 0
    for cls in [c_ for c_ in prog.classes.values() if c_.module.name == "stix2.properties"]:
        fi = cls.methods.get("clean")
        if fi is None:
            continue
        rel = fi.module.relpath
        for lp in body_walk(fi.node):
            if not (isinstance(lp, ast.For) and isinstance(lp.iter, ast.Call) and isinstance(lp.iter.func, ast.Attribute)
                    and lp.iter.func.attr in ("items", "keys")):
                continue
            tn = names_in(lp.target)
            for st in ast.walk(lp):
                if not (isinstance(st, ast.Assign) and isinstance(st.targets[0], ast.Subscript) and isinstance(st.targets[0].value, ast.Name)):
                    continue
                k = st.targets[0].slice
                if (isinstance(k, ast.Name) and k.id in tn) or isinstance(k, ast.Constant):
                    continue
                d = st.targets[0].value.id
                n += 1
                # a membership test of the new key in the dictionary being built, anywhere in the loop body before the store
                guards = [t for t in ast.walk(lp) if isinstance(t, ast.Compare) and len(t.ops) == 1 and isinstance(t.ops[0], (ast.In, ast.NotIn))
                          and norm(t.left) == norm(k) and norm(t.comparators[0]) == d and t.lineno <= st.lineno]
                guards += [c for c in ast.walk(lp) if isinstance(c, ast.Call) and isinstance(c.func, ast.Attribute) and c.func.attr in ("get", "setdefault")
                           and norm(c.func.value) == d and c.args and norm(c.args[0]) == norm(k) and c.lineno <= st.lineno]
                # ... and where the test lets an entry through because the old and the new VALUE "agree", they agree exactly: a
                # coarser comparison (case-folded, stripped) than the value that is kept makes the survivor depend on order again
                coarse = []
                entry = "%s[%s]" % (d, norm(k))
                for iff in [x_ for x_ in ast.walk(lp) if isinstance(x_, ast.If) and x_.lineno <= st.lineno]:
                    for cmp_ in [c_ for c_ in ast.walk(iff.test) if isinstance(c_, ast.Compare) and len(c_.ops) == 1
                                 and isinstance(c_.ops[0], (ast.Eq, ast.NotEq))]:
                        sides = [norm(cmp_.left), norm(cmp_.comparators[0])]
                        if any(entry in s_ for s_ in sides) and not (entry in sides and norm(st.value) in sides):
                            coarse.append(cmp_)
                if guards and coarse:
                    run.violation(R, key(rel, fi.qualname, "renamed-key-store:%s:values-agree-exactly" % d),
                                  "two entries that map to one key are let through when their values agree under a COARSER comparison "
                                  "than the value that is stored (%s, stored: %s): the entry that comes last in the order of the input "
                                  "dictionary survives, so equal dictionaries give different values -- and different ids" %
                                  (short(coarse[0]), norm(st.value)), file=rel, line=coarse[0].lineno, function=fi.qualname,
                                  expected="%s != %s (or store the normalised value)" % (entry, norm(st.value)), found=short(coarse[0]))
                run.check(bool(guards), R, key(rel, fi.qualname, "renamed-key-store:%s" % d),
                          "entries of the given dictionary are stored under a renamed key without a collision test: two names that map to "
                          "one key (two spellings of one hash algorithm: {'md5': A, 'MD5': B}) collapse to whichever comes last in the "
                          "ORDER of the input dictionary, so equal dictionaries -- and two texts of one JSON object -- give different "
                          "values, and different ids where the property is identifier-contributing", file=rel, line=st.lineno,
                          function=fi.qualname, expected="if %s in %s: <refuse / resolve independently of order>" % (norm(k), d), found=short(st))
    run.floor(R, 1)


def rule_contributing_lists_never_written(ctx):
    """Who may write: the `_id_contributing_properties` lists are CLASS attributes read by every construction.  No function of
    the package mutates one in place -- not directly and not through a local alias (`locked = cls._id_contributing_properties;
    locked += [...]` appends to the class's list: from then on every object of the type hashes other properties).  Def-use: the
    receiver of every in-place operation is followed back through its reaching definitions."""
    from ..forward import flow_of
    from .hidden_state import MUTATORS
    run = ctx.run
    prog = ctx.prog
    R = "C06.table"
    ATTR = "_id_contributing_properties"
    n = 0
    readers = 0
    for fi in sorted(prog.functions.values(), key=lambda f: f.id):
        if fi.module.relpath.startswith("stix2/test") or not fi.module.name.startswith("stix2"):
            continue
        if not any(isinstance(x, ast.Attribute) and x.attr == ATTR for x in body_walk(fi.node)):
            continue
        readers += 1
        # names that may hold the class's own list: bound to the attribute, or to a name that is (plain aliasing only; a copy
        # -- list(x), x + y, sorted(x), a comprehension -- is a new object); flow-insensitive, to a fixed point
        def holds(v, al):
            if isinstance(v, ast.Attribute) and v.attr == ATTR:
                return True
            if isinstance(v, ast.Name):
                return v.id in al
            if isinstance(v, ast.IfExp):
                return holds(v.body, al) or holds(v.orelse, al)
            if isinstance(v, ast.BoolOp):
                return any(holds(o_, al) for o_ in v.values)
            return False
        aliases = set()
        while True:
            new_ = {t.id for a_ in body_walk(fi.node) if isinstance(a_, ast.Assign) and holds(a_.value, aliases)
                    for t in a_.targets if isinstance(t, ast.Name)}
            if new_ <= aliases:
                break
            aliases |= new_
        for x in body_walk(fi.node):
            recv = None
            if isinstance(x, ast.AugAssign):
                recv = x.target
            elif isinstance(x, ast.Call) and isinstance(x.func, ast.Attribute) and x.func.attr in MUTATORS + ("sort", "reverse"):
                recv = x.func.value
            elif isinstance(x, (ast.Assign, ast.Delete)):
                for t in x.targets:
                    if isinstance(t, ast.Subscript):
                        recv = t.value
            if recv is None:
                continue
            while isinstance(recv, ast.Subscript):
                recv = recv.value
            hit = holds(recv, aliases)
            if hit:
                n += 1
                run.violation(R, key(fi.module.relpath, fi.qualname, "contributing-list-written:%s" % short(x, 50)),
                              "a list of identifier-contributing properties -- a class attribute -- is changed in place (through an "
                              "alias): after this call every object of the type computes its id from other properties, so ids depend "
                              "on what ran before", file=fi.module.relpath, line=x.lineno, function=fi.qualname,
                              expected="read-only use (copy before extending: list(...) + ..., itertools.chain(...))", found=short(x))
    if readers < 3:
        raise AnalysisError("fewer than 3 functions reading %s found (%d)" % (ATTR, readers))
    run.ok(R, key("stix2", "<package>", "contributing-lists-read-only"), "%d reading functions, no in-place operation" % readers) if not n else None
