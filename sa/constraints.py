"""Constraint summaries of `_check_object_constraints` methods.

A method is reduced to a *set* of facts  "<guard path> => <action>"  where
  - local names bound once to a simple expression (x = self.get('p'), a list
    literal) are substituted by that expression, so variable names do not matter,
  - `and` chains and nested ifs are flattened into one conjunct list,
  - comparisons are oriented canonically (a < b  ==  b > a),
  - messages / formatting of exceptions are dropped (only the class is kept),
  - statement order is dropped (facts form a set).
Actions: helper calls with evaluated arguments, other constraint calls
(check_tlp_marking, run_validator, nested _check_at_least_one_property),
and `raise <ExceptionClass>`.
"""
import ast

from .loader import clone, norm, walk_no_nested

HELPERS = ("_check_mutually_exclusive_properties", "_check_at_least_one_property", "_check_properties_dependency")

_FLIP = {ast.Lt: ast.Gt, ast.Gt: ast.Lt, ast.LtE: ast.GtE, ast.GtE: ast.LtE, ast.Eq: ast.Eq, ast.NotEq: ast.NotEq}


class _Subst(ast.NodeTransformer):
    def __init__(self, env):
        self.env = env

    def visit_Name(self, node):
        if isinstance(node.ctx, ast.Load) and node.id in self.env:
            return clone(self.env[node.id])
        return node


def _canon_compare(e):
    """orient single comparisons canonically"""
    class T(ast.NodeTransformer):
        def visit_Compare(self, node):
            self.generic_visit(node)
            if len(node.ops) == 1 and type(node.ops[0]) in _FLIP:
                l, r = node.left, node.comparators[0]
                if norm(l) > norm(r):
                    return ast.Compare(left=r, ops=[_FLIP[type(node.ops[0])]()], comparators=[l])
            return node
    return T().visit(clone(e))


def _conjuncts(test, env):
    t = _Subst(env).visit(clone(test))
    ast.fix_missing_locations(t)
    if isinstance(t, ast.BoolOp) and isinstance(t.op, ast.And):
        out = []
        for v in t.values:
            out.extend(_conjuncts(v, {}))
        return out
    return [norm(_canon_compare(t))]


def _neg(test, env):
    t = _Subst(env).visit(clone(test))
    ast.fix_missing_locations(t)
    return "not (%s)" % norm(_canon_compare(t))


def _exc_name(r):
    e = r.exc
    if e is None:
        return "<reraise>"
    if isinstance(e, ast.Call):
        e = e.func
    if isinstance(e, ast.Name):
        return e.id
    if isinstance(e, ast.Attribute):
        return e.attr
    return norm(e)


def _simple_value(v):
    if isinstance(v, (ast.List, ast.Tuple, ast.Set, ast.Constant, ast.Dict)):
        return True
    if isinstance(v, ast.Call) and isinstance(v.func, ast.Attribute) and v.func.attr == "get" \
            and isinstance(v.func.value, ast.Name) and v.func.value.id == "self":
        return True
    if isinstance(v, ast.Subscript) and isinstance(v.value, ast.Name) and v.value.id == "self":
        return True
    return False


def _transparent_try(t):
    if not t.handlers or t.finalbody:
        return False
    assigned = {s.targets[0].id for s in t.body if isinstance(s, ast.Assign) and len(s.targets) == 1 and isinstance(s.targets[0], ast.Name)}
    for h in t.handlers:
        body = [s for s in h.body if not (isinstance(s, ast.Expr) and isinstance(s.value, ast.Constant))]
        if body and isinstance(body[-1], ast.Raise) and all(not isinstance(s, (ast.If, ast.For, ast.While, ast.Try)) for s in body[:-1]):
            continue
        if body and all(isinstance(s, ast.Assign) and len(s.targets) == 1 and isinstance(s.targets[0], ast.Name)
                        and s.targets[0].id in assigned for s in body):
            continue
        return False
    return True


def _top_split(text, sep):
    """split on sep outside brackets and quotes"""
    out, depth, cur, q, i = [], 0, [], None, 0
    while i < len(text):
        ch = text[i]
        if q:
            cur.append(ch)
            if ch == "\\" and i + 1 < len(text):
                cur.append(text[i + 1])
                i += 1
            elif ch == q:
                q = None
        elif ch in "'\"":
            q = ch
            cur.append(ch)
        elif ch in "([{":
            depth += 1
            cur.append(ch)
        elif ch in ")]}":
            depth -= 1
            cur.append(ch)
        elif depth == 0 and text.startswith(sep, i):
            out.append("".join(cur))
            cur = []
            i += len(sep) - 1
        else:
            cur.append(ch)
        i += 1
    out.append("".join(cur))
    return out


def fact_satisfied(expected, facts):
    """an expected fact is enforced when it is present, or present with a guard that only ADDS alternatives (a | b where
    the model has a): the action then happens in every case the model names"""
    if expected in facts:
        return True
    if " => " not in expected:
        return False
    eg, ea = expected.rsplit(" => ", 1)
    egs = _top_split(eg, " & ")
    for f in facts:
        if " => " not in f:
            continue
        fg, fa = f.rsplit(" => ", 1)
        if fa != ea:
            continue
        fgs = _top_split(fg, " & ")
        if len(fgs) != len(egs):
            continue
        rest = list(fgs)
        ok = True
        for e in egs:
            hit = next((x for x in rest if x == e or e in [p.strip() for p in _top_split(x, " | ")]), None)
            if hit is None:
                ok = False
                break
            rest.remove(hit)
        if ok:
            return True
    return False


def summarize(func_node):
    """-> (facts:set[str], super_calls:[ast.Call])"""
    # single-assignment simple locals
    counts = {}
    values = {}
    for n in walk_no_nested(func_node):
        if n is func_node:
            continue
        if isinstance(n, ast.Assign):
            for t in n.targets:
                for x in ast.walk(t):
                    if isinstance(x, ast.Name):
                        counts[x.id] = counts.get(x.id, 0) + 1
                        if isinstance(t, ast.Name):
                            values[x.id] = n.value
        elif isinstance(n, (ast.For, ast.comprehension)):
            for x in ast.walk(n.target):
                if isinstance(x, ast.Name):
                    counts[x.id] = counts.get(x.id, 0) + 2
        elif isinstance(n, ast.ExceptHandler) and n.name:
            counts[n.name] = counts.get(n.name, 0) + 2
        elif isinstance(n, (ast.AugAssign,)):
            for x in ast.walk(n.target):
                if isinstance(x, ast.Name):
                    counts[x.id] = counts.get(x.id, 0) + 2
    env = {k: v for k, v in values.items() if counts.get(k) == 1}
    # error-value idiom:  try: x = f(...)  except E as exc: x = [exc]   -- x is "f(...) or the failure"; both definitions are
    # substituted as a disjunction so that the later `if x: raise` reads  f(...) | [..] => raise
    for t in [n for n in walk_no_nested(func_node) if isinstance(n, ast.Try)]:
        if not _transparent_try(t):
            continue
        in_body = {s.targets[0].id: s.value for s in t.body if isinstance(s, ast.Assign) and len(s.targets) == 1
                   and isinstance(s.targets[0], ast.Name)}
        for nme, v0 in in_body.items():
            alts = [v0]
            for h in t.handlers:
                alts += [s.value for s in h.body if isinstance(s, ast.Assign) and len(s.targets) == 1
                         and isinstance(s.targets[0], ast.Name) and s.targets[0].id == nme]
            if counts.get(nme) == len(alts) and len(alts) > 1:
                alts = sorted(alts, key=lambda a: (0 if a is v0 else 1, norm(a)))
                e = clone(alts[0])
                for a in alts[1:]:
                    e = ast.BinOp(left=e, op=ast.BitOr(), right=clone(a))
                ast.fix_missing_locations(e)
                env[nme] = e
    # substitute inside the substituted values too (x = f(y) with y itself a substituted local)
    for _ in range(3):
        for k in list(env):
            t = _Subst({a: b for a, b in env.items() if a != k}).visit(clone(env[k]))
            ast.fix_missing_locations(t)
            env[k] = t
    msg_like = {k for k, v in values.items() if isinstance(v, ast.Constant) and isinstance(v.value, str)}
    facts = set()
    supers = []

    def sub(e):
        t = _Subst(env).visit(clone(e))
        ast.fix_missing_locations(t)
        return norm(t)

    local_names = sorted((set(counts) | set(values)) - set(env), key=len, reverse=True)

    def emit(guards, action):
        import re
        text = "%s => %s" % (" & ".join(guards) if guards else "always", action)
        # remaining locals (loop variables, names assigned more than once) are written as positional placeholders so that
        # renaming them changes nothing
        order = []
        for m in re.finditer(r"(?<![\w.'\"])([A-Za-z_]\w*)(?!\w)", text):
            if m.group(1) in local_names and m.group(1) not in order:
                order.append(m.group(1))
        for i, nme in enumerate(order, 1):
            text = re.sub(r"(?<![\w.'\"])%s(?!\w)" % re.escape(nme), "_%d" % i, text)
        facts.add(text)

    def expr_calls(e, guards):
        for c in walk_no_nested(e):
            if not isinstance(c, ast.Call):
                continue
            f = c.func
            if isinstance(f, ast.Attribute) and f.attr == "_check_object_constraints" and isinstance(f.value, ast.Call) \
                    and isinstance(f.value.func, ast.Name) and f.value.func.id == "super":
                supers.append(c)
                emit(guards, "super()._check_object_constraints()")
                continue
            name = f.attr if isinstance(f, ast.Attribute) else (f.id if isinstance(f, ast.Name) else None)
            if name in HELPERS:
                recv = sub(f.value) if isinstance(f, ast.Attribute) else ""
                args = ", ".join([sub(a) for a in c.args] + ["%s=%s" % (k.arg, sub(k.value)) for k in c.keywords])
                emit(guards, "%s.%s(%s)" % (recv, name, args))
            elif name in ("check_tlp_marking", "run_validator", "validate"):
                args = ", ".join([sub(a) for a in c.args] + ["%s=%s" % (k.arg, sub(k.value)) for k in c.keywords])
                emit(guards, "%s(%s)" % (name, args))

    def walk(stmts, guards):
        for s in stmts:
            if isinstance(s, ast.If):
                expr_calls(s.test, guards)
                g = _conjuncts(s.test, env)
                walk(s.body, guards + g)
                if s.orelse:
                    walk(s.orelse, guards + [_neg(s.test, env)])
            elif isinstance(s, (ast.For, ast.AsyncFor)):
                expr_calls(s.iter, guards)
                walk(s.body, guards + ["for %s in %s" % (norm(s.target), sub(s.iter))])
                walk(s.orelse, guards)
            elif isinstance(s, ast.While):
                walk(s.body, guards + ["while %s" % sub(s.test)])
            elif isinstance(s, ast.Try):
                # a try whose handlers all preserve the failure (raise, or the error-value idiom) does not weaken what its
                # body enforces: its body is summarised as unconditional code
                walk(s.body, guards if _transparent_try(s) else guards + ["try"])
                for h in s.handlers:
                    walk(h.body, guards + ["except %s" % (norm(h.type) if h.type is not None else "*")])
                walk(s.orelse, guards)
                walk(s.finalbody, guards)
            elif isinstance(s, (ast.With, ast.AsyncWith)):
                walk(s.body, guards)
            elif isinstance(s, ast.Raise):
                name = _exc_name(s)
                if isinstance(s.exc, ast.Name) and any(g.startswith("except") for g in guards):
                    name = "<reraise>"
                emit(guards, "raise %s" % name)
            elif isinstance(s, ast.Assign):
                if len(s.targets) == 1 and isinstance(s.targets[0], ast.Name) and (s.targets[0].id in env or s.targets[0].id in msg_like):
                    expr_calls(s.value, guards)
                    continue
                expr_calls(s.value, guards)
                emit(guards, "assign %s = %s" % (norm(s.targets[0]), sub(s.value)))
            elif isinstance(s, ast.Expr):
                if isinstance(s.value, ast.Constant):
                    continue
                expr_calls(s.value, guards)
            elif isinstance(s, ast.Return):
                emit(guards, "return")
            elif isinstance(s, ast.Pass):
                continue
            else:
                emit(guards, "stmt %s" % type(s).__name__)

    walk(func_node.body, [])
    return facts, supers
