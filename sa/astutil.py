"""Small AST helpers shared by the rules."""
import ast

from .loader import body_walk, norm, walk_no_nested


def names_in(e):
    return {n.id for n in ast.walk(e) if isinstance(n, ast.Name)}


def attrs_in(e):
    return {n.attr for n in ast.walk(e) if isinstance(n, ast.Attribute)}


def calls_in(node, nested=False):
    it = ast.walk(node) if nested else walk_no_nested(node)
    return [n for n in it if isinstance(n, ast.Call)]


def func_calls(fi):
    return [n for n in body_walk(fi.node) if isinstance(n, ast.Call)]


def call_simple_name(c):
    f = c.func
    if isinstance(f, ast.Name):
        return f.id
    if isinstance(f, ast.Attribute):
        return f.attr
    return None


def dotted(e):
    parts = []
    while isinstance(e, ast.Attribute):
        parts.append(e.attr)
        e = e.value
    if isinstance(e, ast.Name):
        parts.append(e.id)
        return ".".join(reversed(parts))
    return None


def exc_name(r):
    e = r.exc
    if e is None:
        return None
    if isinstance(e, ast.Call):
        e = e.func
    if isinstance(e, ast.Name):
        return e.id
    if isinstance(e, ast.Attribute):
        return e.attr
    return None


def guard_chain(node, stop=None):
    """[(test expr, polarity, if node)] for the If/While statements enclosing
    `node` (innermost last).  polarity True = node is in the body, False = in
    orelse."""
    out = []
    child = node
    p = getattr(node, "parent", None)
    while p is not None and p is not stop:
        if isinstance(p, (ast.FunctionDef, ast.AsyncFunctionDef, ast.Lambda, ast.ClassDef)):
            break
        if isinstance(p, (ast.If, ast.While)):
            if child in p.body:
                out.append((p.test, True, p))
            elif child in p.orelse:
                out.append((p.test, False, p))
        elif isinstance(p, ast.IfExp):
            if child is p.body:
                out.append((p.test, True, p))
            elif child is p.orelse:
                out.append((p.test, False, p))
        child = p
        p = getattr(p, "parent", None)
    out.reverse()
    return out


def enclosing_stmt(node):
    n = node
    while n is not None and not isinstance(n, ast.stmt):
        n = getattr(n, "parent", None)
    return n


def enclosing(node, types):
    n = getattr(node, "parent", None)
    while n is not None:
        if isinstance(n, types):
            return n
        n = getattr(n, "parent", None)
    return None


def conjuncts(test):
    if isinstance(test, ast.BoolOp) and isinstance(test.op, ast.And):
        out = []
        for v in test.values:
            out.extend(conjuncts(v))
        return out
    return [test]


def disjuncts(test):
    if isinstance(test, ast.BoolOp) and isinstance(test.op, ast.Or):
        out = []
        for v in test.values:
            out.extend(disjuncts(v))
        return out
    return [test]


def is_not(e):
    return isinstance(e, ast.UnaryOp) and isinstance(e.op, ast.Not)


def body_raises(stmts):
    """Raise statements lexically inside stmts (not in nested defs)."""
    out = []
    for s in stmts:
        for n in walk_no_nested(s):
            if isinstance(n, ast.Raise):
                out.append(n)
    return out


def if_raising(fi):
    """[(If node, [Raise in its body (direct statement level or nested)])]"""
    out = []
    for n in body_walk(fi.node):
        if isinstance(n, ast.If):
            rs = body_raises(n.body)
            if rs:
                out.append((n, rs))
    return out


def const_str(e):
    return e.value if isinstance(e, ast.Constant) and isinstance(e.value, str) else None


def returns_of(fi):
    return [n for n in body_walk(fi.node) if isinstance(n, ast.Return)]


def in_try_catching(node, names=("Exception", "BaseException")):
    """Is `node` inside the *body* of a try whose handlers catch one of names
    (or a bare except)?  Returns the Try or None."""
    child = node
    p = getattr(node, "parent", None)
    while p is not None:
        if isinstance(p, (ast.FunctionDef, ast.AsyncFunctionDef, ast.Lambda)):
            return None
        if isinstance(p, ast.Try) and child in p.body:
            for h in p.handlers:
                if h.type is None:
                    return p
                ts = h.type.elts if isinstance(h.type, ast.Tuple) else [h.type]
                for t in ts:
                    n = t.id if isinstance(t, ast.Name) else (t.attr if isinstance(t, ast.Attribute) else None)
                    if n in names:
                        return p
        child = p
        p = getattr(p, "parent", None)
    return None


def short(node, n=100):
    s = " ".join(norm(node).split())
    return s if len(s) <= n else s[:n - 3] + "..."


_PM_CACHE = {}


def pm(text, pattern):
    """Pattern match with metavariables: `$name` in `pattern` matches one identifier, the same one at every occurrence.
    Everything else is literal (normalised source text).  Returns the binding dict or None.  Rules use it instead of
    literal text comparison so that renaming a local variable does not change any verdict."""
    import re
    rx = _PM_CACHE.get(pattern)
    if rx is None:
        parts = re.split(r"(\$[A-Za-z_]\w*)", pattern)
        seen = set()
        out = []
        for p in parts:
            if p.startswith("$") and len(p) > 1:
                n = p[1:]
                if n in seen:
                    out.append("(?P=%s)" % n)
                else:
                    seen.add(n)
                    out.append(r"(?<![\w.])(?P<%s>[A-Za-z_]\w*)" % n)
                out.append(r"(?!\w)")
            else:
                out.append(re.escape(p))
        rx = re.compile("".join(out))
        _PM_CACHE[pattern] = rx
    m = rx.search(text)
    return m.groupdict() if m else None


def pmall(text, *patterns):
    """all patterns match, with consistent bindings across them for metavariables of the same name (backtracking over
    every occurrence of each pattern)"""
    import re

    def compile_with(pat, env):
        parts = re.split(r"(\$[A-Za-z_]\w*)", pat)
        seen = set()
        out = []
        for p in parts:
            if p.startswith("$") and len(p) > 1:
                n = p[1:]
                if n in env:
                    out.append(r"(?<![\w.])" + re.escape(env[n]) + r"(?!\w)")
                elif n in seen:
                    out.append("(?P=%s)" % n + r"(?!\w)")
                else:
                    seen.add(n)
                    out.append(r"(?<![\w.])(?P<%s>[A-Za-z_]\w*)" % n + r"(?!\w)")
            else:
                out.append(re.escape(p))
        return re.compile("".join(out))

    def rec(i, env):
        if i == len(patterns):
            return env
        rx = compile_with(patterns[i], env)
        for m in rx.finditer(text):
            e2 = dict(env)
            e2.update(m.groupdict())
            r = rec(i + 1, e2)
            if r is not None:
                return r
        return None
    return rec(0, {})
