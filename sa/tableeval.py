"""Abstract evaluator for declarative tables and constants.

Evaluates expressions built from constants, list/tuple/dict/set literals,
names bound at class/module level or imported, `+`/`*` on sequences,
`OrderedDict(...)`, `dict(...)`, `list(...)`, `itertools.chain(...)`,
`re.compile(...)`, `uuid.UUID(...)`, and calls to classes derived from
`stix2.properties.Property`, which become PropertySpec records (dicts).
Nothing is executed; anything outside this class raises CannotEval, which the
callers turn into an ANALYSIS-ERROR naming the expression (fail closed).
"""
import ast

from .loader import (
    AnalysisError, Binding, ClassInfo, External, FunctionInfo, Module, norm,
)


class CannotEval(AnalysisError):
    pass


class Dyn(object):
    """An opaque run-time value inside an otherwise static table."""

    def __init__(self, text):
        self.text = text

    def __repr__(self):
        return "<dyn %s>" % self.text

    def __eq__(self, other):
        return isinstance(other, Dyn) and other.text == self.text

    def __hash__(self):
        return hash(self.text)


class ClassRef(object):
    def __init__(self, cls):
        self.cls = cls

    def __repr__(self):
        return "<class %s>" % self.cls.id

    def __eq__(self, other):
        return isinstance(other, ClassRef) and other.cls is self.cls

    def __hash__(self):
        return hash(self.cls.id)


class ExtRef(object):
    def __init__(self, dotted):
        self.dotted = dotted

    def __repr__(self):
        return "<ext %s>" % self.dotted

    def __eq__(self, other):
        return isinstance(other, ExtRef) and other.dotted == self.dotted

    def __hash__(self):
        return hash(self.dotted)

    def __or__(self, other):
        # flag expressions of external modules (re.I | re.A): kept symbolic, "re.I | re.A" (regexast.flag_value reads it)
        if isinstance(other, ExtRef):
            return ExtRef("%s | %s" % (self.dotted, other.dotted))
        return NotImplemented


class EnumMember(object):
    def __init__(self, cls, name, value=None):
        self.cls = cls
        self.name = name
        self.value = value

    def __repr__(self):
        return "%s.%s" % (self.cls.name, self.name)

    def __eq__(self, other):
        return isinstance(other, EnumMember) and other.cls is self.cls and other.name == self.name

    def __hash__(self):
        return hash((self.cls.id, self.name))


class Regex(object):
    def __init__(self, pattern, flags=0):
        self.pattern = pattern
        self.flags = flags

    def __repr__(self):
        return "re(%r,%r)" % (self.pattern, self.flags)

    def __eq__(self, other):
        return isinstance(other, Regex) and (other.pattern, other.flags) == (self.pattern, self.flags)

    def __hash__(self):
        return hash((self.pattern, self.flags))


class Sentinel(object):
    def __init__(self, name):
        self.name = name

    def __repr__(self):
        return "<sentinel %s>" % self.name

    def __eq__(self, other):
        return isinstance(other, Sentinel) and other.name == self.name

    def __hash__(self):
        return hash(self.name)


class LambdaConst(object):
    """`lambda: <const>` — a default factory."""

    def __init__(self, value):
        self.value = value

    def __repr__(self):
        return "lambda: %r" % (self.value,)


NOW = "NOW"    # the sentinel stix2.utils.NOW


class Evaluator(object):
    def __init__(self, prog, allow_dyn=False):
        self.prog = prog
        self.allow_dyn = allow_dyn
        self._cache = {}
        self._prop_base = prog.classes.get("stix2.properties::Property")
        if self._prop_base is None:
            raise AnalysisError("anchor class missing: stix2.properties::Property")

    # ------------------------------------------------------------------
    def is_property_class(self, c):
        return isinstance(c, ClassInfo) and self._prop_base in c.mro

    def eval(self, expr, scope, env=None, before=None, depth=0):
        if depth > 40:
            raise CannotEval("evaluation too deep at %s" % norm(expr))
        ev = lambda e, **kw: self.eval(e, scope, env, before, depth + 1)  # noqa: E731
        if isinstance(expr, ast.Constant):
            return expr.value
        if isinstance(expr, ast.JoinedStr):
            parts = []
            for v in expr.values:
                if isinstance(v, ast.Constant):
                    parts.append(str(v.value))
                else:
                    return self._dyn(expr)
            return "".join(parts)
        if isinstance(expr, (ast.List, ast.Tuple, ast.Set)):
            out = []
            for e in expr.elts:
                if isinstance(e, ast.Starred):
                    v = ev(e.value)
                    if isinstance(v, Dyn):
                        out.append(v)
                    else:
                        out.extend(v)
                else:
                    out.append(ev(e))
            if isinstance(expr, ast.Tuple):
                return tuple(out)
            if isinstance(expr, ast.Set):
                return _fset(out)
            return out
        if isinstance(expr, ast.Dict):
            d = {}
            for k, v in zip(expr.keys, expr.values):
                if k is None:
                    sub = ev(v)
                    if isinstance(sub, dict):
                        d.update(sub)
                    else:
                        raise CannotEval("dict splat of non-dict %s" % norm(v))
                else:
                    d[_hashable(ev(k))] = ev(v)
            return d
        if isinstance(expr, ast.Name):
            if env is not None and expr.id in env:
                return env[expr.id]
            return self._eval_def(self.prog.lookup(scope, expr.id, before), expr, depth)
        if isinstance(expr, ast.Attribute):
            d = self.prog.resolve_expr(scope, expr, before)
            if d is not None:
                return self._eval_def(d, expr, depth)
            base = ev(expr.value)
            if isinstance(base, ClassRef):
                return self._eval_def(self.prog.class_attr(base.cls, expr.attr), expr, depth)
            if isinstance(base, EnumMember) and expr.attr in ("name", "value"):
                return getattr(base, expr.attr)
            raise CannotEval("attribute %s" % norm(expr))
        if isinstance(expr, ast.UnaryOp):
            v = ev(expr.operand)
            if isinstance(expr.op, ast.USub):
                return -v
            if isinstance(expr.op, ast.UAdd):
                return +v
            if isinstance(expr.op, ast.Not):
                return not v
            raise CannotEval(norm(expr))
        if isinstance(expr, ast.BinOp):
            l, r = ev(expr.left), ev(expr.right)
            if isinstance(l, Dyn) or isinstance(r, Dyn):
                if isinstance(expr.op, ast.Add):
                    lf = l if isinstance(l, list) else [l]
                    rf = r if isinstance(r, list) else [r]
                    return lf + rf
                return self._dyn(expr)
            try:
                if isinstance(expr.op, ast.Add):
                    return l + r
                if isinstance(expr.op, ast.Mult):
                    return l * r
                if isinstance(expr.op, ast.Sub):
                    return l - r
                if isinstance(expr.op, ast.BitOr):
                    return l | r
                if isinstance(expr.op, ast.Mod):
                    return l % r
                if isinstance(expr.op, ast.Pow):
                    return l ** r
                if isinstance(expr.op, ast.FloorDiv):
                    return l // r
            except Exception as e:
                raise CannotEval("%s: %s" % (norm(expr), e))
            raise CannotEval(norm(expr))
        if isinstance(expr, ast.Lambda):
            a = expr.args
            if not (a.args or a.vararg or a.kwarg or a.kwonlyargs):
                try:
                    return LambdaConst(ev(expr.body))
                except CannotEval:
                    pass
            return self._dyn(expr)
        if isinstance(expr, ast.Call):
            return self._eval_call(expr, scope, env, before, depth)
        if isinstance(expr, ast.Subscript):
            base = ev(expr.value)
            idx = ev(expr.slice) if not isinstance(expr.slice, ast.Slice) else None
            if isinstance(base, Dyn) or isinstance(idx, Dyn):
                return self._dyn(expr)
            try:
                if isinstance(expr.slice, ast.Slice):
                    lo = ev(expr.slice.lower) if expr.slice.lower else None
                    hi = ev(expr.slice.upper) if expr.slice.upper else None
                    st = ev(expr.slice.step) if expr.slice.step else None
                    return base[lo:hi:st]
                return base[_hashable(idx)]
            except Exception as e:
                raise CannotEval("%s: %s" % (norm(expr), e))
        if isinstance(expr, (ast.ListComp, ast.GeneratorExp, ast.SetComp)):
            # a comprehension over statically known sequences (constant tables, range()) is unrolled; anything else stays unknown
            try:
                out = []
                self._unroll(expr, 0, dict(env or {}), scope, before, depth, out)
                return out
            except CannotEval:
                return self._dyn(expr)
        if isinstance(expr, ast.DictComp):
            return self._dyn(expr)
        if isinstance(expr, ast.IfExp):
            return self._dyn(expr)
        return self._dyn(expr)

    def _unroll(self, comp, gi, env, scope, before, depth, out):
        if len(out) > 20000:
            raise CannotEval("comprehension too large")
        if gi == len(comp.generators):
            v = self.eval(comp.elt, scope, env, before, depth + 1)
            if isinstance(v, Dyn):
                raise CannotEval("element not evaluable")
            out.append(v)
            return
        g = comp.generators[gi]
        if g.is_async:
            raise CannotEval("async comprehension")
        it = self.eval(g.iter, scope, env, before, depth + 1)
        if isinstance(it, dict):
            it = list(it.keys())
        if isinstance(it, Dyn) or not isinstance(it, (list, tuple)):
            raise CannotEval("source not a known sequence")
        for elem in it:
            if isinstance(elem, Dyn):
                raise CannotEval("source element unknown")
            env2 = dict(env)
            if isinstance(g.target, ast.Name):
                env2[g.target.id] = elem
            elif isinstance(g.target, (ast.Tuple, ast.List)) and isinstance(elem, (list, tuple)) and len(elem) == len(g.target.elts) \
                    and all(isinstance(t_, ast.Name) for t_ in g.target.elts):
                for t_, v_ in zip(g.target.elts, elem):
                    env2[t_.id] = v_
            else:
                raise CannotEval("unsupported comprehension target")
            keep = True
            for c in g.ifs:
                cv = self.eval(c, scope, env2, before, depth + 1)
                if isinstance(cv, Dyn):
                    raise CannotEval("condition not evaluable")
                keep = keep and bool(cv)
            if keep:
                self._unroll(comp, gi + 1, env2, scope, before, depth, out)

    def _dyn(self, expr):
        if self.allow_dyn:
            return Dyn(norm(expr))
        raise CannotEval("not statically evaluable: %s" % norm(expr))

    # ------------------------------------------------------------------
    def _eval_def(self, d, expr, depth):
        d = self.prog.deref(d)
        if d is None:
            return self._dyn(expr)
        if isinstance(d, ClassInfo):
            return ClassRef(d)
        if isinstance(d, External):
            if d.dotted == "builtins.None":
                return None
            return ExtRef(d.dotted)
        if isinstance(d, (FunctionInfo, Module)):
            return ExtRef(getattr(d, "id", getattr(d, "name", "?")))
        if isinstance(d, Binding):
            if d.kind == "assign" and d.value is not None:
                # enum members
                owner = d.scope
                if owner.kind == "class":
                    ci = self.prog.class_by_node.get(owner.node)
                    if ci is not None and self.prog.has_external_base(ci, "enum.Enum"):
                        return EnumMember(ci, d.name, self.eval(d.value, owner, None, d.lineno, depth + 1))
                # only single-assignment names are constants
                if len(owner.bindings.get(d.name, [])) > 1 and owner.kind != "class":
                    others = [b for b in owner.bindings[d.name] if b.kind not in ("assign",)]
                    if others or owner.kind == "function":
                        return self._dyn(expr)
                key = id(d)
                if key in self._cache:
                    return self._cache[key]
                if (isinstance(d.value, ast.Call) and isinstance(d.value.func, ast.Name) and d.value.func.id == "object"
                        and not d.value.args and not d.value.keywords):
                    # module-level sentinel:  NOW = object()
                    return Sentinel("%s.%s" % (owner.module.name, d.name))
                v = self.eval(d.value, owner, None, d.lineno, depth + 1)
                self._cache[key] = v
                return v
            return self._dyn(expr)
        return self._dyn(expr)

    # ------------------------------------------------------------------
    def _eval_call(self, call, scope, env, before, depth):
        ev = lambda e: self.eval(e, scope, env, before, depth + 1)  # noqa: E731
        f = call.func
        target = self.prog.deref(self.prog.resolve_expr(scope, f, before)) if isinstance(f, (ast.Name, ast.Attribute)) else None
        if env is not None and isinstance(f, ast.Name) and f.id in env:
            tv = env[f.id]
            if isinstance(tv, ClassRef):
                target = tv.cls
        if isinstance(target, ClassInfo):
            if self.is_property_class(target):
                return self.property_spec(target, call, scope, env, before, depth)
            return self._dyn(call)
        if isinstance(target, External):
            name = target.dotted
            args = [ev(a) for a in call.args if not isinstance(a, ast.Starred)]
            if any(isinstance(a, ast.Starred) for a in call.args):
                return self._dyn(call)
            kwargs = {k.arg: ev(k.value) for k in call.keywords if k.arg}
            if name in ("collections.OrderedDict", "builtins.dict"):
                d = {}
                if args:
                    a0 = args[0]
                    if isinstance(a0, Dyn):
                        return self._dyn(call)
                    if isinstance(a0, dict):
                        d.update(a0)
                    else:
                        for item in a0:
                            if isinstance(item, Dyn):
                                d[item] = item
                            else:
                                k, v = item
                                d[_hashable(k)] = v
                d.update(kwargs)
                return d
            if name in ("builtins.list", "builtins.tuple", "builtins.sorted", "builtins.set", "builtins.frozenset"):
                if not args:
                    return [] if "list" in name or "sorted" in name else (() if "tuple" in name else _fset([]))
                a0 = args[0]
                if isinstance(a0, Dyn):
                    return self._dyn(call)
                if isinstance(a0, dict):
                    a0 = list(a0.keys())
                if any(isinstance(x, Dyn) for x in a0):
                    return list(a0)
                if name.endswith("sorted"):
                    if kwargs:
                        return self._dyn(call)
                    return sorted(a0)
                if name.endswith("tuple"):
                    return tuple(a0)
                if name.endswith("set"):
                    return _fset(a0)
                return list(a0)
            if name == "itertools.chain":
                out = []
                for a in args:
                    if isinstance(a, Dyn):
                        out.append(a)
                    else:
                        out.extend(a)
                return out
            if name == "itertools.chain.from_iterable":
                out = []
                if isinstance(args[0], Dyn):
                    return self._dyn(call)
                for a in args[0]:
                    if isinstance(a, Dyn):
                        out.append(a)
                    else:
                        out.extend(a)
                return out
            if name == "re.compile":
                fl = args[1] if len(args) > 1 else kwargs.get("flags", 0)
                if isinstance(fl, ExtRef):
                    fl = fl.dotted
                return Regex(args[0], fl)
            if name == "re.escape":
                import re as _re
                if isinstance(args[0], str):
                    return _re.escape(args[0])
                return self._dyn(call)
            if name == "uuid.UUID":
                return ("UUID", str(args[0]).lower())
            if name == "builtins.range":
                try:
                    return list(range(*args))
                except Exception:
                    return self._dyn(call)
            if name == "builtins.len":
                if isinstance(args[0], Dyn):
                    return self._dyn(call)
                return len(args[0])
            if name == "datetime.timedelta":
                return ("timedelta", tuple(sorted(kwargs.items())), tuple(args))
            return self._dyn(call)
        # a helper of the package whose body is (a docstring and) one `return <expression>`: the call is the expression with the
        # parameters bound (positional, *args as a tuple, keywords, evaluable defaults) -- read through, never executed
        if isinstance(target, FunctionInfo) and target.cls is None and isinstance(target.node, ast.FunctionDef):
            body = [st for st in target.node.body if not (isinstance(st, ast.Expr) and isinstance(st.value, ast.Constant))]
            if len(body) == 1 and isinstance(body[0], ast.Return) and body[0].value is not None and depth < 30 \
                    and not any(isinstance(a, ast.Starred) for a in call.args) and not any(k.arg is None for k in call.keywords):
                a_ = target.node.args
                names = [x.arg for x in a_.posonlyargs + a_.args]
                vals = [ev(x) for x in call.args]
                new_env = dict(env or {})
                for nm, v in zip(names, vals):
                    new_env[nm] = v
                if a_.vararg is not None:
                    new_env[a_.vararg.arg] = tuple(vals[len(names):])
                elif len(vals) > len(names):
                    return self._dyn(call)
                for k in call.keywords:
                    new_env[k.arg] = ev(k.value)
                dnames = names[len(names) - len(a_.defaults):] if a_.defaults else []
                for nm, dv in zip(dnames, a_.defaults):
                    if nm not in new_env:
                        new_env[nm] = self.eval(dv, target.module.scope, None, None, depth + 1)
                if all(nm in new_env for nm in names):
                    return self.eval(body[0].value, target.module.scope, new_env, None, depth + 1)
            return self._dyn(call)
        # method calls on evaluated values: "...".split(), .replace(), .format(), .keys()
        if isinstance(f, ast.Attribute):
            try:
                base = ev(f.value)
            except CannotEval:
                return self._dyn(call)
            if isinstance(base, Dyn):
                return self._dyn(call)
            args = [ev(a) for a in call.args]
            if isinstance(base, str) and f.attr in ("split", "replace", "format", "lower", "upper", "strip", "join"):
                kwargs = {k.arg: ev(k.value) for k in call.keywords if k.arg}
                if any(isinstance(a, Dyn) for a in args) or any(isinstance(a, Dyn) for a in kwargs.values()) \
                        or any(k.arg is None for k in call.keywords):
                    return self._dyn(call)
                try:
                    return getattr(base, f.attr)(*args, **kwargs)
                except Exception as e:
                    raise CannotEval("%s: %s" % (norm(call), e))
            if isinstance(base, dict) and f.attr in ("keys", "values", "items") and not args:
                return list(getattr(base, f.attr)())
        return self._dyn(call)

    # ------------------------------------------------------------------
    def init_chain(self, cls):
        """[(ClassInfo, FunctionInfo __init__)] along the MRO."""
        out = []
        for k in cls.mro:
            fi = k.methods.get("__init__")
            if fi is not None:
                out.append((k, fi))
        return out

    def property_spec(self, cls, call, scope, env, before, depth):
        """Bind constructor arguments through the __init__ chain of a
        Property subclass and return a normalised PropertySpec dict."""
        ev = lambda e: self.eval(e, scope, env, before, depth + 1)  # noqa: E731
        pos = []
        for a in call.args:
            if isinstance(a, ast.Starred):
                raise CannotEval("starred constructor argument in %s" % norm(call))
            pos.append(ev(a))
        kw = {}
        for k in call.keywords:
            if k.arg is None:
                raise CannotEval("**kwargs in table constructor %s" % norm(call))
            kw[k.arg] = ev(k.value)
        return self.spec_from_args(cls, pos, kw, norm(call))

    def spec_from_args(self, cls, pos, kw, text="?"):
        params = {}
        chain = self.init_chain(cls)
        if not chain:
            raise CannotEval("no __init__ chain for %s" % cls.id)
        idx = 0
        cur_pos, cur_kw = list(pos), dict(kw)
        while idx < len(chain):
            k, fi = chain[idx]
            bound, extra_pos, extra_kw = _bind(fi, cur_pos, cur_kw, self, text)
            for name, val in bound.items():
                params.setdefault(name, val)
            # find the super().__init__ call
            nxt = self._super_init_call(fi)
            if nxt is None:
                if extra_kw and fi.kwarg is None:
                    raise CannotEval("unexpected keyword(s) %s in %s" % (sorted(extra_kw), text))
                break
            # evaluate its arguments in the bound environment
            env2 = dict(bound)
            new_pos = []
            for a in nxt.args:
                if isinstance(a, ast.Starred):
                    if isinstance(a.value, ast.Name) and a.value.id == fi.vararg:
                        new_pos.extend(extra_pos)
                    else:
                        raise CannotEval("cannot follow %s" % norm(nxt))
                else:
                    new_pos.append(self.eval(a, fi.scope, env2))
            new_kw = {}
            for kwd in nxt.keywords:
                if kwd.arg is None:
                    if isinstance(kwd.value, ast.Name) and kwd.value.id == fi.kwarg:
                        new_kw.update(extra_kw)
                    else:
                        raise CannotEval("cannot follow %s" % norm(nxt))
                else:
                    new_kw[kwd.arg] = self.eval(kwd.value, fi.scope, env2)
            cur_pos, cur_kw = new_pos, new_kw
            # next __init__ after k in the MRO
            nidx = None
            for j in range(idx + 1, len(chain)):
                nidx = j
                break
            if nidx is None:
                break
            idx = nidx
        spec = {"kind": cls.name}
        for name, val in params.items():
            if name == "self":
                continue
            spec[name] = val
        return normalise_spec(spec, self)

    def _super_init_call(self, fi):
        for n in ast.walk(fi.node):
            if isinstance(n, ast.Call) and isinstance(n.func, ast.Attribute) and n.func.attr == "__init__":
                v = n.func.value
                if isinstance(v, ast.Call) and isinstance(v.func, ast.Name) and v.func.id == "super":
                    return n
        return None


def _bind(fi, pos, kw, evaluator, text):
    names = fi.params[1:] if fi.params and fi.params[0] == "self" else fi.params
    bound = {}
    extra_pos = []
    for i, v in enumerate(pos):
        if i < len(names):
            bound[names[i]] = v
        elif fi.vararg:
            extra_pos.append(v)
        else:
            raise CannotEval("too many positional arguments in %s" % text)
    extra_kw = {}
    for k, v in kw.items():
        if k in names or k in fi.kwonly:
            if k in bound:
                raise CannotEval("duplicate argument %s in %s" % (k, text))
            bound[k] = v
        elif fi.kwarg:
            extra_kw[k] = v
        else:
            raise CannotEval("unexpected keyword %s in %s" % (k, text))
    defaults = fi.defaults()
    for n in names + fi.kwonly:
        if n not in bound:
            if n in defaults:
                bound[n] = evaluator.eval(defaults[n], fi.scope.parent)
            else:
                raise CannotEval("missing argument %s in %s" % (n, text))
    return bound, extra_pos, extra_kw


def normalise_spec(spec, evaluator):
    """Canonical, JSON-able PropertySpec."""
    out = {"kind": spec["kind"]}
    for k, v in spec.items():
        if k == "kind":
            continue
        out[k] = v
    # list-or-scalar normalisations done by the constructors themselves
    for k in ("valid_types", "invalid_types", "allowed"):
        if k in out and isinstance(out[k], str):
            out[k] = [out[k]]
    if "contained" in out:
        c = out["contained"]
        if isinstance(c, ClassRef) and evaluator.is_property_class(c.cls):
            out["contained"] = evaluator.spec_from_args(c.cls, [], {}, c.cls.name + "()")
    return out


def to_json(v):
    """JSON-able rendering of evaluated values (stable, for oracles/diffs)."""
    if isinstance(v, dict):
        return {str(to_json_key(k)): to_json(x) for k, x in v.items()}
    if isinstance(v, (list, tuple)):
        return [to_json(x) for x in v]
    if isinstance(v, frozenset):
        return sorted((to_json(x) for x in v), key=repr)
    if isinstance(v, ClassRef):
        return {"class": v.cls.id}
    if isinstance(v, ExtRef):
        if v.dotted.endswith("utils::NOW") or v.dotted.endswith(".NOW"):
            return NOW
        return {"ext": v.dotted}
    if isinstance(v, EnumMember):
        return {"enum": "%s.%s" % (v.cls.name, v.name)}
    if isinstance(v, Regex):
        return {"regex": v.pattern, "flags": to_json(v.flags)}
    if isinstance(v, Sentinel):
        return v.name.rsplit(".", 1)[-1] if v.name.endswith(".NOW") else {"sentinel": v.name}
    if isinstance(v, Dyn):
        return {"dyn": v.text}
    if isinstance(v, LambdaConst):
        return {"lambda": to_json(v.value)}
    if isinstance(v, Binding):
        return {"binding": v.name}
    return v


def to_json_key(k):
    if isinstance(k, EnumMember):
        return "%s.%s" % (k.cls.name, k.name)
    if isinstance(k, Dyn):
        return "<dyn %s>" % k.text
    return k


def _hashable(v):
    if isinstance(v, list):
        return tuple(_hashable(x) for x in v)
    return v


def _fset(items):
    return frozenset(_hashable(x) for x in items)
