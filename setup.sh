#!/bin/sh
# Offline setup: nothing to install (stdlib only).  Verify the interpreter and that the analysis library loads.
set -e
HERE="$(cd "$(dirname "$0")" && pwd)"
PY=/venv/bin/python
[ -x "$PY" ] || PY=python3
"$PY" -c 'import sys; assert sys.version_info >= (3, 9), sys.version; print("python", sys.version.split()[0])'
"$PY" -B -c "import sys; sys.path.insert(0, '$HERE'); import sa.loader, sa.cfg, sa.callgraph, sa.tableeval, sa.typemodel, sa.dectable, sa.report, sa.main; print('sa: ok')"
mkdir -p "$HERE/evidence" "$HERE/out"
