"""Thorough tier: mutation-adequacy run of a property's rules.

From the property's anchor files (properties.jsonl) all sites of the AST edit
operators (selftest/mutate.py) are enumerated; a seeded sample is applied, one
at a time, to an in-memory variant of the current tree (overlay — /repo is not
touched and nothing is written to disk) and the property's quick rules are
evaluated on each variant in a pool of worker processes.

Outcome per mutant: killed (some rule reports a violation), analysis-error (the
checker refuses to analyse the variant: fail-closed detection), or survived.
Survivors NEVER make the check fail — many edits are behaviour-preserving or
break a different property; they are listed in the evidence so a reader can see
what the rules do not look at.  The hand-confirmed must-kill subset is the
canary table, enforced on every run.
"""
import json
import multiprocessing
import os
import random
import time

from selftest import mutate

HERE = os.path.dirname(os.path.dirname(os.path.abspath(__file__)))
DEFAULT_BUDGET = int(os.environ.get("VERIF_MUTANTS", "320") or 320)


def anchor_files(prop, root):
    files = []
    with open(os.path.join(HERE, "properties.jsonl")) as f:
        for line in f:
            p = json.loads(line)
            if p["id"] != prop:
                continue
            for a in p["anchors"]["files"]:
                full = os.path.join(root, a)
                if os.path.isdir(full):
                    for dp, dn, fn in os.walk(full):
                        if "test" in dp.split(os.sep) or "__pycache__" in dp:
                            continue
                        for x in sorted(fn):
                            if x.endswith(".py"):
                                files.append(os.path.relpath(os.path.join(dp, x), root))
                elif os.path.isfile(full):
                    files.append(a)
    return sorted(set(files))


def focus_ranges(run, root):
    """{relpath: [(lo, hi, qualname)]}: line ranges of the functions / classes in which the property's rule instances and
    anchors lie (construct keys are relpath::qualname::what).  Edits there are the ones the rules claim to watch."""
    import ast
    wanted = {}
    for inst in run.instances:
        parts = inst.construct.split("::")
        if len(parts) >= 2 and parts[0].endswith(".py"):
            wanted.setdefault(parts[0], set()).add(parts[1])
    out = {}
    for rel, names in wanted.items():
        try:
            with open(os.path.join(root, rel)) as f:
                tree = ast.parse(f.read())
        except (OSError, SyntaxError):
            continue
        ranges = []

        def walk(node, prefix):
            for ch in ast.iter_child_nodes(node):
                if isinstance(ch, (ast.FunctionDef, ast.AsyncFunctionDef, ast.ClassDef)):
                    q = prefix + ch.name
                    if q in names or ch.name in names:
                        ranges.append((ch.lineno, ch.end_lineno, q))
                    walk(ch, q + ".")
                elif isinstance(ch, ast.Assign) and prefix == "" and any(
                        isinstance(t, ast.Name) and t.id in names for t in ch.targets):
                    ranges.append((ch.lineno, ch.end_lineno, ch.targets[0].id))
        walk(tree, "")
        if "<module>" in names:
            ranges.append((1, 10 ** 9, "<module>"))
        if ranges:
            out[rel] = ranges
    return out


def _work(task):
    prop, root, relpath, opname, index, desc = task
    import sys
    sys.path.insert(0, HERE)
    from sa.loader import AnalysisError
    from sa.main import run_property
    from sa import cfg as _cfg, forward as _fw
    try:
        with open(os.path.join(root, relpath)) as f:
            src = f.read()
        new = mutate.apply(src, opname, index)
        if new is None:
            return (relpath, opname, index, desc, "not-applicable", [])
        try:
            rc, sub = run_property(prop, root=root, tier="quick", seed=0, write=False, quiet=True, overlay={relpath: new}, canaries=False)
        except AnalysisError as e:
            return (relpath, opname, index, desc, "analysis-error", [str(e)[:120]])
        finally:
            _cfg._CFGS.clear()
            _fw._FLOWS.clear()
        rules = sorted({i.rule for i in sub.instances if i.verdict == "violation"})
        return (relpath, opname, index, desc, "killed" if rules else "survived", rules)
    except Exception as e:      # a crash of the checker on a variant is a checker defect: surface it
        return (relpath, opname, index, desc, "checker-crash", [repr(e)[:200]])


def run_thorough(prop, ctx):
    run = ctx.run
    t0 = time.time()
    root = ctx.root
    focus = focus_ranges(run, root)
    files = sorted(set(anchor_files(prop, root)) | set(focus))
    sites = []
    focused = []
    for rel in files:
        try:
            with open(os.path.join(root, rel)) as f:
                src = f.read()
            for opname, idx, desc, line in mutate.enumerate_sites(src):
                rec = (rel, opname, idx, desc)
                if any(lo <= line <= hi for lo, hi, _q in focus.get(rel, []) if hi < 10 ** 9):
                    focused.append(rec)
                else:
                    sites.append(rec)
        except (OSError, SyntaxError):
            continue
    total_sites = len(sites) + len(focused)
    rnd = random.Random(int(ctx.seed) * 7919 + sum(ord(c) for c in prop))
    budget = DEFAULT_BUDGET
    # the focused sites (inside the functions / tables the rules are anchored in) come first -- all of them when the budget
    # allows; the remainder of the budget samples the rest of the anchor files
    focus_set = set(focused)
    if len(focused) > budget:
        # small, specific functions first and completely (iterpath, validate, a cleaner); the big shared ones
        # (_STIXBase.__init__, class tables) are sampled with what is left of the budget
        by_fn = {}
        for s_ in focused:
            fn = s_[3].split(":")[0]
            by_fn.setdefault((s_[0], fn), []).append(s_)
        pick = []
        for k_, lst in sorted(by_fn.items(), key=lambda kv: (len(kv[1]), kv[0])):
            rnd.shuffle(lst)
            room = budget - len(pick)
            if room <= 0:
                break
            pick += lst[:max(6, room if len(lst) <= room else room // 3)]
        focused = pick[:budget]
    budget_rest = max(budget // 4, budget - len(focused))
    if len(sites) > budget_rest:
        budget = budget_rest
        # stratified by operator so rare operators are not drowned by string/int perturbations
        by_op = {}
        for s in sites:
            by_op.setdefault(s[1], []).append(s)
        per = max(4, budget // max(1, len(by_op)))
        sample = []
        rest = []
        for op, lst in sorted(by_op.items()):
            rnd.shuffle(lst)
            sample += lst[:per]
            rest += lst[per:]
        rnd.shuffle(rest)
        sample += rest[:max(0, budget - len(sample))]
        sites = sample[:budget]
    sites = focused + sites
    tasks = [(prop, root, rel, op, idx, desc) for rel, op, idx, desc in sites]
    workers = min(16, os.cpu_count() or 4)
    results = []
    if tasks:
        ctxmp = multiprocessing.get_context("fork")
        with ctxmp.Pool(workers) as pool:
            for r in pool.imap_unordered(_work, tasks, chunksize=4):
                results.append(r)
    counts = {"killed": 0, "survived": 0, "analysis-error": 0, "not-applicable": 0, "checker-crash": 0}
    by_op = {}
    by_rule = {}
    survivors = []
    crashes = []
    for rel, op, idx, desc, outcome, rules in results:
        counts[outcome] = counts.get(outcome, 0) + 1
        d = by_op.setdefault(op, {"killed": 0, "survived": 0, "analysis-error": 0})
        if outcome in d:
            d[outcome] += 1
        for r in rules if outcome == "killed" else []:
            by_rule[r] = by_rule.get(r, 0) + 1
        if outcome == "survived":
            survivors.append("%s [%s] %s" % (rel, op, desc))
        if outcome == "checker-crash":
            crashes.append("%s [%s] %s: %s" % (rel, op, desc, rules))
    survivors.sort()
    fk = fs = fa = 0
    fsurv = []
    for rel, op, idx, desc, outcome, rules in results:
        if (rel, op, idx, desc) in focus_set:
            if outcome == "killed":
                fk += 1
            elif outcome == "analysis-error":
                fa += 1
            elif outcome == "survived":
                fs += 1
                fsurv.append("%s [%s] %s" % (rel, op, desc))
    applied = counts["killed"] + counts["survived"] + counts["analysis-error"]
    run.extra["mutation"] = {
        "anchor_files": files,
        "sites_enumerated": total_sites,
        "mutants_applied": applied,
        "killed": counts["killed"],
        "detected_as_analysis_error": counts["analysis-error"],
        "survived": counts["survived"],
        "not_applicable": counts["not-applicable"],
        "kill_ratio": round((counts["killed"] + counts["analysis-error"]) / applied, 3) if applied else None,
        "focused": {"what": "edits inside the functions / tables in which the property's rule instances lie",
                    "functions": sum(len(v) for v in focus.values()), "mutants": fk + fa + fs, "killed": fk,
                    "detected_as_analysis_error": fa, "survived": fs,
                    "kill_ratio": round((fk + fa) / (fk + fa + fs), 3) if (fk + fa + fs) else None,
                    "survivor_samples": sorted(fsurv)[:80]},
        "by_operator": by_op,
        "killing_rules": dict(sorted(by_rule.items(), key=lambda kv: -kv[1])),
        "survivor_samples": survivors[:60],
        "wall_s": round(time.time() - t0, 1),
        "note": "survivors never fail the check: many edits are behaviour-preserving or break another property; the must-kill "
                "subset is the canary table (selftest/canaries.py)",
    }
    if crashes:
        from sa.loader import AnalysisError
        raise AnalysisError("the checker crashed on %d variant(s): %s" % (len(crashes), crashes[:2]))
    if not run.quiet:
        print("   thorough: %d sites, %d mutants applied: %d killed, %d analysis-error, %d survived (%.1fs)" % (
            total_sites, applied, counts["killed"], counts["analysis-error"], counts["survived"], time.time() - t0))
        print("   thorough, focused on the %d anchored functions/tables: %d mutants: %d killed, %d analysis-error, %d survived" % (
            sum(len(v) for v in focus.values()), fk + fa + fs, fk, fa, fs))
