"""AST-computed edits of the analysed sources (never of /repo itself).

A *site* is (operator name, index) within one module; `apply` re-parses the
module text, re-enumerates the sites in the same deterministic order, edits the
index-th one and returns the new source via ast.unparse.  Used for
 - canaries: a hand-confirmed, structurally selected edit that a rule MUST report
   (run on every check; guards against a vacuous checker), and
 - the thorough tier's mutation-adequacy run (kills / survivors as evidence).
"""
import ast


class Op(object):
    name = "?"

    def sites(self, tree):
        """-> list of (node, description)"""
        raise NotImplementedError

    def mutate(self, tree, node):
        """edit tree in place at node; return False when not applicable"""
        raise NotImplementedError


def _parents(tree):
    for n in ast.walk(tree):
        for ch in ast.iter_child_nodes(n):
            ch._parent = n


def _func_of(node):
    n = node
    names = []
    while n is not None:
        if isinstance(n, (ast.FunctionDef, ast.AsyncFunctionDef, ast.ClassDef)):
            names.append(n.name)
        n = getattr(n, "_parent", None)
    return ".".join(reversed(names)) or "<module>"


def _short(node, n=70):
    try:
        s = " ".join(ast.unparse(node).split())
    except Exception:
        s = type(node).__name__
    return s if len(s) <= n else s[:n - 3] + "..."


def _replace(node, new):
    p = node._parent
    for f, v in ast.iter_fields(p):
        if v is node:
            setattr(p, f, new)
            return True
        if isinstance(v, list):
            for i, x in enumerate(v):
                if x is node:
                    v[i] = new
                    return True
    return False


class DropKeyword(Op):
    name = "drop-keyword"

    def sites(self, tree):
        out = []
        for n in ast.walk(tree):
            if isinstance(n, ast.Call):
                for k in n.keywords:
                    if k.arg is not None:
                        out.append((k, "%s: drop %s= in %s" % (_func_of(n), k.arg, _short(n))))
        return out

    def mutate(self, tree, node):
        node._parent.keywords.remove(node)
        return True


class KeywordTrue(Op):
    """f(k=name) -> f(k=True): a switch hard-coded on"""
    name = "kw-true"

    def sites(self, tree):
        out = []
        for n in ast.walk(tree):
            if isinstance(n, ast.Call):
                for k in n.keywords:
                    if k.arg is not None and isinstance(k.value, (ast.Name, ast.Attribute)):
                        out.append((k, "%s: %s=True in %s" % (_func_of(n), k.arg, _short(n))))
        return out

    def mutate(self, tree, node):
        node.value = ast.copy_location(ast.Constant(value=True), node.value)
        return True


class KwToPositional(Op):
    """f(a, k=v) -> f(a, v): the classic binding slip (lands on whatever parameter comes next)"""
    name = "kw-to-positional"

    def sites(self, tree):
        out = []
        for n in ast.walk(tree):
            if isinstance(n, ast.Call) and n.keywords and not any(isinstance(a, ast.Starred) for a in n.args):
                k = n.keywords[0]
                if k.arg is not None and isinstance(k.value, ast.Name) and k.value.id == k.arg:
                    out.append((k, "%s: %s=%s passed positionally in %s" % (_func_of(n), k.arg, k.arg, _short(n))))
        return out

    def mutate(self, tree, node):
        call = node._parent
        call.keywords.remove(node)
        call.args.append(node.value)
        return True


class IntPerturb(Op):
    name = "int+1"
    delta = 1

    def sites(self, tree):
        out = []
        for n in ast.walk(tree):
            if isinstance(n, ast.Constant) and isinstance(n.value, int) and not isinstance(n.value, bool):
                p = n._parent
                if isinstance(p, (ast.Compare, ast.keyword, ast.Call, ast.BinOp, ast.Return, ast.Slice, ast.Subscript, ast.Assign, ast.UnaryOp)):
                    out.append((n, "%s: %d -> %d in %s" % (_func_of(n), n.value, n.value + self.delta, _short(p))))
        return out

    def mutate(self, tree, node):
        node.value = node.value + self.delta
        return True


class IntPerturbDown(IntPerturb):
    name = "int-1"
    delta = -1


class DeleteCallStmt(Op):
    name = "delete-call-stmt"

    def sites(self, tree):
        out = []
        for n in ast.walk(tree):
            if isinstance(n, ast.Expr) and isinstance(n.value, ast.Call):
                out.append((n, "%s: delete `%s`" % (_func_of(n), _short(n))))
        return out

    def mutate(self, tree, node):
        return _replace(node, ast.copy_location(ast.Pass(), node))


class SwapArgs(Op):
    name = "swap-args"

    def sites(self, tree):
        out = []
        for n in ast.walk(tree):
            if isinstance(n, ast.Call) and len(n.args) >= 2 and not any(isinstance(a, ast.Starred) for a in n.args[:2]):
                if ast.dump(n.args[0]) != ast.dump(n.args[1]):
                    out.append((n, "%s: swap first two arguments of %s" % (_func_of(n), _short(n))))
        return out

    def mutate(self, tree, node):
        node.args[0], node.args[1] = node.args[1], node.args[0]
        return True


_FLIP = {ast.Lt: ast.LtE, ast.LtE: ast.Lt, ast.Gt: ast.GtE, ast.GtE: ast.Gt, ast.Eq: ast.NotEq, ast.NotEq: ast.Eq,
         ast.In: ast.NotIn, ast.NotIn: ast.In, ast.Is: ast.IsNot, ast.IsNot: ast.Is}


class FlipCompare(Op):
    name = "flip-compare"

    def sites(self, tree):
        out = []
        for n in ast.walk(tree):
            if isinstance(n, ast.Compare):
                for i, op in enumerate(n.ops):
                    if type(op) in _FLIP:
                        out.append(((n, i), "%s: %s -> %s in %s" % (_func_of(n), type(op).__name__, _FLIP[type(op)].__name__, _short(n))))
        return out

    def mutate(self, tree, node):
        n, i = node
        n.ops[i] = _FLIP[type(n.ops[i])]()
        return True


class SwapCompareDirection(Op):
    """a < b -> a > b"""
    name = "reverse-compare"
    _REV = {ast.Lt: ast.Gt, ast.Gt: ast.Lt, ast.LtE: ast.GtE, ast.GtE: ast.LtE}

    def sites(self, tree):
        out = []
        for n in ast.walk(tree):
            if isinstance(n, ast.Compare) and len(n.ops) == 1 and type(n.ops[0]) in self._REV:
                out.append((n, "%s: reverse %s" % (_func_of(n), _short(n))))
        return out

    def mutate(self, tree, node):
        node.ops[0] = self._REV[type(node.ops[0])]()
        return True


class UnwrapCopy(Op):
    name = "unwrap-copy"
    FUNCS = ("copy.deepcopy", "deepcopy", "copy.copy", "sorted", "list", "dict", "set", "tuple")

    def sites(self, tree):
        out = []
        for n in ast.walk(tree):
            if isinstance(n, ast.Call) and len(n.args) == 1 and not n.keywords and not isinstance(n.args[0], ast.Starred):
                try:
                    f = ast.unparse(n.func)
                except Exception:
                    continue
                if f in self.FUNCS and not isinstance(n.args[0], (ast.GeneratorExp, ast.ListComp)):
                    out.append((n, "%s: %s(x) -> x in %s" % (_func_of(n), f, _short(n))))
        return out

    def mutate(self, tree, node):
        return _replace(node, node.args[0])


class StrPerturb(Op):
    name = "str-perturb"

    def sites(self, tree):
        out = []
        for n in ast.walk(tree):
            if isinstance(n, ast.Constant) and isinstance(n.value, str) and 0 < len(n.value) < 60:
                p = n._parent
                if isinstance(p, ast.Expr):
                    continue          # docstring
                if isinstance(p, (ast.Tuple, ast.Dict, ast.Compare, ast.List, ast.keyword, ast.Subscript, ast.Assign)) or (
                        isinstance(p, ast.Call) and n in p.args and not isinstance(getattr(p, "_parent", None), ast.Raise)):
                    if isinstance(p, ast.Call):
                        try:
                            fn = ast.unparse(p.func)
                        except Exception:
                            fn = ""
                        if fn.endswith(("Error", "format", "warn")) or "Error" in fn:
                            continue
                    out.append((n, "%s: %r -> %r" % (_func_of(n), n.value, n.value + "x")))
        return out

    def mutate(self, tree, node):
        node.value = node.value + "x"
        return True


class NegateIf(Op):
    name = "negate-if"

    def sites(self, tree):
        out = []
        for n in ast.walk(tree):
            if isinstance(n, (ast.If, ast.IfExp)):
                out.append((n, "%s: negate `if %s`" % (_func_of(n), _short(n.test))))
        return out

    def mutate(self, tree, node):
        t = node.test
        if isinstance(t, ast.UnaryOp) and isinstance(t.op, ast.Not):
            node.test = t.operand
        else:
            node.test = ast.copy_location(ast.UnaryOp(op=ast.Not(), operand=t), t)
        return True


class BoolFlip(Op):
    name = "bool-flip"

    def sites(self, tree):
        out = []
        for n in ast.walk(tree):
            if isinstance(n, ast.Constant) and isinstance(n.value, bool):
                out.append((n, "%s: %s -> %s in %s" % (_func_of(n), n.value, not n.value, _short(n._parent))))
        return out

    def mutate(self, tree, node):
        node.value = not node.value
        return True


class DropRaiseGuard(Op):
    name = "drop-raise-guard"

    def sites(self, tree):
        out = []
        for n in ast.walk(tree):
            if isinstance(n, ast.If) and not n.orelse and n.body and isinstance(n.body[-1], ast.Raise):
                out.append((n, "%s: remove `if %s: raise`" % (_func_of(n), _short(n.test))))
        return out

    def mutate(self, tree, node):
        return _replace(node, ast.copy_location(ast.Pass(), node))


class DropBoolOperand(Op):
    name = "drop-bool-operand"

    def sites(self, tree):
        out = []
        for n in ast.walk(tree):
            if isinstance(n, ast.BoolOp):
                for i in range(len(n.values)):
                    out.append(((n, i), "%s: drop operand %d of `%s`" % (_func_of(n), i, _short(n))))
        return out

    def mutate(self, tree, node):
        n, i = node
        vals = [v for j, v in enumerate(n.values) if j != i]
        if len(vals) == 1:
            return _replace(n, vals[0])
        n.values = vals
        return True


class ConstFlagReturn(Op):
    """return x, flag  ->  return x, False"""
    name = "const-flag-return"

    def sites(self, tree):
        out = []
        for n in ast.walk(tree):
            if isinstance(n, ast.Return) and isinstance(n.value, ast.Tuple) and len(n.value.elts) == 2 \
                    and not isinstance(n.value.elts[1], ast.Constant):
                out.append((n, "%s: `%s` -> flag False" % (_func_of(n), _short(n))))
        return out

    def mutate(self, tree, node):
        node.value.elts[1] = ast.copy_location(ast.Constant(value=False), node.value.elts[1])
        return True


class DropListElement(Op):
    """remove one element of a list/tuple literal of constants (vocabularies, orders, id-contributing lists)"""
    name = "drop-list-element"

    def sites(self, tree):
        out = []
        for n in ast.walk(tree):
            if isinstance(n, (ast.List, ast.Tuple)) and len(n.elts) >= 2 and all(isinstance(e, (ast.Constant, ast.Name)) for e in n.elts) \
                    and isinstance(n._parent, (ast.Assign, ast.keyword, ast.Call, ast.Compare)):
                for i in range(len(n.elts)):
                    out.append(((n, i), "%s: drop element %s of %s" % (_func_of(n), _short(n.elts[i], 30), _short(n, 50))))
        return out

    def mutate(self, tree, node):
        n, i = node
        del n.elts[i]
        return True


class DropDictEntry(Op):
    name = "drop-dict-entry"

    def sites(self, tree):
        out = []
        for n in ast.walk(tree):
            if isinstance(n, ast.Dict) and len(n.keys) >= 2:
                for i in range(len(n.keys)):
                    if n.keys[i] is not None:
                        out.append(((n, i), "%s: drop entry %s" % (_func_of(n), _short(n.keys[i], 40))))
        return out

    def mutate(self, tree, node):
        n, i = node
        del n.keys[i]
        del n.values[i]
        return True


class DropTableSlot(Op):
    """remove one ('name', Property(...)) tuple from a property table"""
    name = "drop-table-slot"

    def sites(self, tree):
        out = []
        for n in ast.walk(tree):
            if isinstance(n, ast.List) and len(n.elts) >= 2 and all(
                    isinstance(e, ast.Tuple) and len(e.elts) == 2 and isinstance(e.elts[0], ast.Constant) for e in n.elts):
                for i in range(len(n.elts)):
                    out.append(((n, i), "%s: drop slot %s" % (_func_of(n), _short(n.elts[i].elts[0], 30))))
        return out

    def mutate(self, tree, node):
        n, i = node
        del n.elts[i]
        return True


class SwapTableSlots(Op):
    name = "swap-table-slots"

    def sites(self, tree):
        out = []
        for n in ast.walk(tree):
            if isinstance(n, ast.List) and len(n.elts) >= 2 and all(
                    isinstance(e, ast.Tuple) and len(e.elts) == 2 and isinstance(e.elts[0], ast.Constant) for e in n.elts):
                for i in range(len(n.elts) - 1):
                    out.append(((n, i), "%s: swap slots %s / %s" % (_func_of(n), _short(n.elts[i].elts[0], 20), _short(n.elts[i + 1].elts[0], 20))))
        return out

    def mutate(self, tree, node):
        n, i = node
        n.elts[i], n.elts[i + 1] = n.elts[i + 1], n.elts[i]
        return True


class ReturnEarly(Op):
    """make a loop stop after its first iteration (break at the end of the body)"""
    name = "loop-once"

    def sites(self, tree):
        out = []
        for n in ast.walk(tree):
            if isinstance(n, ast.For) and not any(isinstance(x, (ast.Yield, ast.YieldFrom)) for x in ast.walk(n)):
                out.append((n, "%s: loop `for %s in %s` runs once" % (_func_of(n), _short(n.target, 20), _short(n.iter, 30))))
        return out

    def mutate(self, tree, node):
        node.body.append(ast.copy_location(ast.Break(), node.body[-1]))
        return True


class DropNormaliserAssign(Op):
    """x = f(x)  ->  (nothing): a normalising / copying pass is skipped"""
    name = "drop-self-assign-call"

    def sites(self, tree):
        out = []
        for n in ast.walk(tree):
            if isinstance(n, ast.Assign) and len(n.targets) == 1 and isinstance(n.targets[0], ast.Name) and isinstance(n.value, ast.Call) \
                    and n.value.args and isinstance(n.value.args[0], ast.Name) and n.value.args[0].id == n.targets[0].id:
                out.append((n, "%s: skip `%s`" % (_func_of(n), _short(n))))
        return out

    def mutate(self, tree, node):
        return _replace(node, ast.copy_location(ast.Pass(), node))


class LastArgFalse(Op):
    """f(a, b, g(...)) -> f(a, b, False)"""
    name = "last-arg-false"

    def sites(self, tree):
        out = []
        for n in ast.walk(tree):
            if isinstance(n, ast.Call) and len(n.args) >= 3 and isinstance(n.args[-1], (ast.Call, ast.Name)) and not n.keywords:
                out.append((n, "%s: last argument of %s -> False" % (_func_of(n), _short(n))))
        return out

    def mutate(self, tree, node):
        node.args[-1] = ast.copy_location(ast.Constant(value=False), node.args[-1])
        return True


class DropExceptHandler(Op):
    name = "drop-except-handler"

    def sites(self, tree):
        out = []
        for n in ast.walk(tree):
            if isinstance(n, ast.Try) and len(n.handlers) >= 2:
                for i, h in enumerate(n.handlers):
                    out.append(((n, i), "%s: drop `except %s`" % (_func_of(n), _short(h.type, 40) if h.type is not None else "*")))
        return out

    def mutate(self, tree, node):
        n, i = node
        del n.handlers[i]
        return True


OPS = [DropNormaliserAssign(), LastArgFalse(), DropExceptHandler(), DropKeyword(), KeywordTrue(), KwToPositional(), IntPerturb(), IntPerturbDown(), DeleteCallStmt(), SwapArgs(), FlipCompare(),
       SwapCompareDirection(), UnwrapCopy(), StrPerturb(), NegateIf(), BoolFlip(), DropRaiseGuard(), DropBoolOperand(),
       ConstFlagReturn(), DropListElement(), DropDictEntry(), DropTableSlot(), SwapTableSlots(), ReturnEarly()]
OPS_BY_NAME = {o.name: o for o in OPS}


def enumerate_sites(src, ops=None):
    """[(op name, index, description, lineno)] for a module source"""
    tree = ast.parse(src)
    _parents(tree)
    out = []
    for op in (ops or OPS):
        for i, (node, desc) in enumerate(op.sites(tree)):
            n0 = node[0] if isinstance(node, tuple) else node
            out.append((op.name, i, desc, getattr(n0, "lineno", 0)))
    return out


def apply(src, opname, index):
    """new source text with the index-th site of operator opname edited, or None if it cannot be applied / does not compile"""
    tree = ast.parse(src)
    _parents(tree)
    op = OPS_BY_NAME[opname]
    sites = op.sites(tree)
    if index >= len(sites):
        return None
    node, desc = sites[index]
    if not op.mutate(tree, node):
        return None
    ast.fix_missing_locations(tree)
    try:
        new = ast.unparse(tree)
        compile(new, "<mutant>", "exec")
    except Exception:
        return None
    if new == ast.unparse(ast.parse(src)):
        return None
    return new


def find_site(src, opname, pred):
    """index of the first site of opname whose description satisfies pred (str -> bool), or None"""
    tree = ast.parse(src)
    _parents(tree)
    op = OPS_BY_NAME[opname]
    for i, (node, desc) in enumerate(op.sites(tree)):
        if pred(desc):
            return i
    return None
