"""Canaries: hand-confirmed, structurally selected edits that a rule MUST report.

On every run (both tiers) each canary of the property is applied to an
in-memory variant of the CURRENT tree (overlay; /repo is not touched, nothing is
written to disk), the property's rules are evaluated on it, and the expected
rule must report a violation.  A canary that stays silent means the checker has
gone vacuous -> ANALYSIS-ERROR (exit 2), never a pass.  A canary whose site no
longer exists is recorded as "not constructible"; if no canary of a property is
constructible the run is an ANALYSIS-ERROR as well.
"""
import os

from sa.loader import AnalysisError
from selftest import mutate

# property -> [(canary name, file, operator, [substrings that must all occur in the site description], expected rule id)]
CANARIES = {
    "C01": [
        ('bundle-member-replaced-by-a-shared-object', 'stix2/properties.py', 'text', ['        if isinstance(parsed_obj, _STIXBase):\n            has_custom = parsed_obj.has_custom', '        if isinstance(parsed_obj, _STIXBase):\n            parsed_obj = dict(parsed_obj)\n            has_custom = False'], 'C01.custom-content-round-trip'),
        ('defaulted-list-kept-on-the-class', 'stix2/base.py', 'text', ['        self._defaulted_optional_properties = defaulted', '        cls._defaulted_optional_properties = defaulted'], 'C01.history-independence'),
        ('index-from-two-sequences', 'stix2/serialization.py', 'text', ['            idx = _find(list(obj), search_key)', '            idx = _find(list(obj._properties), search_key)\n            if idx < 0:\n                idx = _find(list(obj), search_key)'], 'C01.encoder-siblings'),
        ('text-cleaned-before-decoding', 'stix2/parsing.py', 'text', ['    obj = _get_dict(data)', '    obj = _get_dict(data.strip() if isinstance(data, str) else data)'], 'C01.encoder-siblings'),
        ("registry-key-typo", "stix2/v21/__init__.py", "str-perturb", ["'campaign'"], "C01.registry-key"),
        ("fixed-spec_version-lost", "stix2/v21/sdo.py", "drop-keyword", ["Grouping", "drop fixed="], "C01.version-detectable"),
        ("encoder-drops-fixed", "stix2/base.py", "drop-bool-operand", ["_STIXBase.__init__", "drop operand 1", "_fixed_value"], "C01.defaulted-bookkeeping"),
        ("set-ordered-extension-properties", "stix2/base.py", "text", ["toplevel_extension_props = list(registered_toplevel_extension_props)", "toplevel_extension_props = list(registered_toplevel_extension_props.keys() | kwargs.keys())"], "C01.spec-order"),
        ("isdigit-guards-int", "stix2/serialization.py", "text", ["if search_key.isdecimal():", "if search_key.isdigit():"], "C01.pretty-sort-key"),
        ("extension-inserted-after-construction", "stix2/custom.py", "text", ["            _cls_init(cls, self, kwargs)\n", "            _cls_init(cls, self, kwargs)\n            self._inner.setdefault('extensions', {})\n"], "C01.spec-order"),
        ("extras-sorted", "stix2/base.py", "text", ["        toplevel_extension_props.extend(\n            k for k in kwargs\n            if k not in self._properties and k not in custom_kwargs\n            and k not in registered_toplevel_extension_props\n        )", "        toplevel_extension_props.extend(sorted(\n            k for k in kwargs\n            if k not in self._properties and k not in custom_kwargs\n            and k not in registered_toplevel_extension_props\n        ))"], "C01.spec-order"),
        ("marking-payload-built-without-the-switch", "stix2/v21/common.py", "text", ["                    allow_custom=kwargs.get('allow_custom', False),\n                    interoperability=kwargs.get('interoperability', False),\n                    **defn\n", "                    interoperability=kwargs.get('interoperability', False),\n                    **defn\n"], "C01.custom-content-round-trip"),
    ],
    "C02": [
        ('uuid-form-by-length', 'stix2/properties.py', 'text', ['    ok = str(uuid_obj) == uuid_str.lower() \\\n        and uuid_obj.variant == uuid.RFC_4122', '    ok = len(uuid_str) == 36 \\\n        and uuid_obj.variant == uuid.RFC_4122'], 'C02.clean-contract'),
        ('extension-key-looked-up-everywhere', 'stix2/properties.py', 'text', ['            cls = class_for_type(key, self.spec_version, "extensions")', '            cls = class_for_type(key, self.spec_version)'], 'C02.strict-refusal'),
        ("required-lost", "stix2/v21/sdo.py", "drop-keyword", ["Identity", "drop required="], "C02.table"),
        ("range-off-by-one", "stix2/v21/observables.py", "int+1", ["65535 -> 65536"], "C02.table"),
        ("super-chain-cut", "stix2/v21/sdo.py", "delete-call-stmt", ["Campaign._check_object_constraints", "super("], "C02.super-chain"),
        ("range-guard-inclusive", "stix2/properties.py", "flip-compare", ["IntegerProperty.clean", "Gt -> GtE"], "C02.clean-contract"),
        ("uuid-cut-from-the-right", "stix2/properties.py", "text", ['id_.index("--")', 'id_.rindex("--")'], "C02.id-rule"),
        ("tlp-colour-normalised", "stix2/markings/utils.py", "text", ['color = marking_obj["definition"]["tlp"]', 'color = marking_obj["definition"]["tlp"].strip()'], "C02.tlp"),
        ("boolean-socket-option", "stix2/v21/observables.py", "text", ["if isinstance(val, bool) or not isinstance(val, int):", "if not isinstance(val, int):"], "C02.constraints"),
        ("hash-regex-unicode-casefold", "stix2/hashes.py", "text", ["re.compile(re_str, re.I | re.A)", "re.compile(re_str, re.I)"], "C02.hash-regex"),
        ("nan-passes-range-check", "stix2/properties.py", "text", ["        if not math.isfinite(value):\n", "        if False:\n"], "C02.clean-contract"),
        ("empty-body-taken-for-absent", "stix2/v21/observables.py", "text", ["if self.get('is_multipart') is True and 'body' in self:", "if self.get('is_multipart') is True and self.get('body'):"], "C02.constraints"),
        ("lenient-base64-validation", "stix2/properties.py", "text", ["base64.b64decode(value, validate=True)", "base64.b64decode(value)"], "C02.binary-values"),
    ],
    "C03": [
        ('ssdeep-needs-three-characters', 'stix2/hashes.py', 'text', ['[a-z0-9/+:.]{1,128}', '[a-z0-9/+:.]{3,128}'], 'C03.regex-language'),
        ('selector-pre-check', 'stix2/base.py', 'text', ["                validate(self, m.get('selectors'))", "                if not m.get('selectors'):\n                    raise InvalidSelectorError(self, m)\n                validate(self, m.get('selectors'))"], 'C03.selector-acceptance'),
        ("revoked-default-flipped", "stix2/v21/sdo.py", "bool-flip", ["Indicator", "False -> True", "lambda: False"], "C03.table"),
        ("vocabulary-entry-lost", "stix2/v21/vocab.py", "drop-list-element", ["OPINION_AGREE", "OPINION_"], "C03.table"),
        ("empty-string-means-absent", "stix2/base.py", "text", ["if prop_val not in (None, []):", "if prop_val not in (None, [], ''):"], "C03.absent-values"),
        ("named-argument-by-truthiness", "stix2/v21/common.py", "text", ["if statement is not None and kwargs.get('statement') is None:", "if statement and not kwargs.get('statement'):"], "C03.absent-values"),
    ],
    "C04": [
        ('marking-payload-flag-constant', 'stix2/v21/common.py', 'text', ['            return value, value.has_custom\n        else:\n            raise ValueError("must be a Statement, TLP Marking or a registered marking.")', '            return value, False\n        else:\n            raise ValueError("must be a Statement, TLP Marking or a registered marking.")'], 'C04.flag-back'),
        ('hashes-slot-is-a-plain-dictionary', 'stix2/v21/observables.py', 'text', ['        (\'hashes\', HashesProperty(HASHING_ALGORITHM, spec_version="2.1")),', '        (\'hashes\', DictionaryProperty(spec_version="2.1")),'], 'C04.flag-back'),
        ("hard-coded-true", "stix2/properties.py", "kw-true", ["ListProperty.clean", "allow_custom=True", "self.contained("], "C04.forward"),
        ("flag-dropped", "stix2/properties.py", "const-flag-return", ["EmbeddedObjectProperty.clean"], "C04.flag-back"),
        ("strict-refusal-removed", "stix2/properties.py", "drop-raise-guard", ["STIXObjectProperty.clean", "not allow_custom and has_custom"], "C04.flag-back"),
        ("flag-overwritten-in-loop", "stix2/properties.py", "text", ["has_custom = has_custom or ext.has_custom", "has_custom = ext.has_custom"], "C04.flag-back"),
        ("custom-type-judged-by-default-version", "stix2/properties.py", "text", ["is_object(obj_type, self.spec_version)", "is_object(obj_type)"], "C04.custom-by-version"),
        ("flag-counts-dropped-values", "stix2/base.py", "text", ["""        has_custom = any(
            assigned_properties.get(prop_name) not in (None, [])
            for prop_name in all_custom_prop_names
        )""", "        has_custom = bool(all_custom_prop_names)"], "C04.flag-back"),
        ("escape-hatch-for-unknown-extension-types", "stix2/parsing.py", "text", ["ext_def.get('extension_type') in ('new-sdo', 'new-sco', 'new-sro')", "'property-extension' not in ext_def.get('extension_type', '')"], "C04.raw-passthrough"),
        ("embedded-option-from-content", "stix2/properties.py", "text", ["value = self.type(allow_custom=allow_custom, interoperability=interoperability, **value)", "value = self.type(allow_custom=allow_custom, **value)"], "C04.privileged-keys"),
        ("relaxed-reference-not-custom", "stix2/properties.py", "text", ["            has_custom = has_custom or not (\n                is_stix_type(obj_type, self.spec_version, *self.generics)\n                or obj_type in self.specifics\n            )\n", "            pass\n"], "C04.flag-back"),
        ("extension-property-custom-via-custom-properties", "stix2/base.py", "text", ["            self._properties.keys() - registered_toplevel_extension_props.keys()\n        if all_custom_prop_names:", "            self._properties.keys()\n        if all_custom_prop_names:"], "C04.flag-back"),
        ("escape-on-types-without-extension-point", "stix2/base.py", "text", ["        if has_unregistered_toplevel_extension and \\\n                \"extensions\" not in self._properties and \\\n", "        if False and \\\n                \"x\" not in self.__dict__ and \\\n"], "C04.extra-props"),
        ("switch-read-from-kwargs-with-permissive-default", "stix2/v21/common.py", "text", ["                    allow_custom=kwargs.get('allow_custom', False),\n                    interoperability=kwargs.get('interoperability', False),\n                    **defn\n", "                    allow_custom=kwargs.get('allow_custom', True),\n                    interoperability=kwargs.get('interoperability', False),\n                    **defn\n"], "C04.forward"),
        ("reference-flag-parenthesis-misplaced", "stix2/properties.py", "text", ["        has_custom = not is_object(obj_type, self.spec_version) \\\n            or obj_type.startswith(\"x-\")", "        has_custom = not (is_object(obj_type, self.spec_version)\n                          or obj_type.startswith(\"x-\"))"], "C04.flag-back"),
    ],
    "C05": [
        ('moved-modified-under-the-negated-test', 'stix2/versioning.py', 'text', ['        if "modified" in kwargs["custom_properties"]:', '        if "modified" not in kwargs["custom_properties"]:'], 'C05.pipeline'),
        ('change-names-filtered', 'stix2/versioning.py', 'text', ['        changed_properties.update(kwargs["custom_properties"])', '        changed_properties.update(p for p in kwargs["custom_properties"] if p not in getattr(type(data), "_properties", ()))'], 'C05.unmodifiable'),
        ('option-key-for-dictionaries-too', 'stix2/versioning.py', 'text', ['    if isinstance(data, stix2.base._STIXBase):\n        if allow_custom is None:', '    if True:\n        if allow_custom is None:'], 'C05.pipeline'),
        ("fudge-not-strict", "stix2/versioning.py", "flip-compare", ["_fudge_modified", "LtE -> Lt"], "C05.granularity"),
        ("copy-removed", "stix2/versioning.py", "unwrap-copy", ["new_version", "copy.deepcopy", "data._inner"], "C05.pipeline"),
        ("supplied-equal-accepted", "stix2/versioning.py", "flip-compare", ["new_version", "LtE -> Lt", "new_modified"], "C05.strict-compare"),
        ("change-through-custom-properties", "stix2/versioning.py", "text", ["        changed_properties.update(kwargs[\"custom_properties\"])\n", "        pass\n"], "C05.unmodifiable"),
        ("custom-properties-change-loses-to-old-value", "stix2/versioning.py", "text", ["                new_obj_inner.pop(prop, None)\n", "                pass\n"], "C05.pipeline"),
        ("detected-version-not-handed-back", "stix2/versioning.py", "text", ["    return is_versionable, stix_version\n", "    return is_versionable, None\n"], "C05.granularity"),
        ("modified-through-custom-properties-unchecked", "stix2/versioning.py", "text", ["            kwargs.setdefault(\n                \"modified\", kwargs[\"custom_properties\"][\"modified\"],\n            )\n", "            pass\n"], "C05.pipeline"),
    ],
    "C06": [
        ('fractions-read-as-decimal', 'stix2/utils.py', 'text', ['                return json.loads(data)\n', '                return json.loads(data, parse_float=str)\n'], 'C06.canonical-form'),
        ('custom-members-not-hashed', 'stix2/base.py', 'text', ['            k: _make_json_serializable(v)\n            for k, v in value.items()\n', "            k: _make_json_serializable(v)\n            for k, v in value.items()\n            if not k.startswith('x_')\n"], 'C06.wiring'),
        ('generator-failure-swallowed', 'stix2/v21/base.py', 'text', ['                raise ValueError(\n                    "%s content is nested too deeply" % self.__class__.__name__,\n                ) from None', '                id_ = None'], 'C06.wiring'),
        ("contributing-name-lost", "stix2/v21/observables.py", "drop-list-element", ["'serial_number'"], "C06.table"),
        ("hash-priority-typo", "stix2/base.py", "str-perturb", ["_choose_one_hash", "'SHA-256'"], "C06.constants"),
        ("insertion-order-first-hash", "stix2/base.py", "text", ["k = next(iter(sorted(hash_dict)), None)", "k = next(iter(hash_dict), None)"], "C06.constants"),
        ("id-none-taken-for-an-id", "stix2/v21/base.py", "text", ["if kwargs.get('id') in (None, []):", "if 'id' not in kwargs:"], "C06.wiring"),
        ("empty-list-taken-for-an-id", "stix2/v21/base.py", "text", ["if kwargs.get('id') in (None, []):", "if kwargs.get('id') is None:"], "C06.wiring"),
        ("tuples-hashed-as-text", "stix2/base.py", "text", ["elif isinstance(value, (list, tuple)):", "elif isinstance(value, list):"], "C06.wiring"),
        ("extension-inserted-after-id", "stix2/custom.py", "text", ["            _cls_init(cls, self, kwargs)\n", "            _cls_init(cls, self, kwargs)\n            self._inner['extensions'] = {}\n"], "C06.wiring"),
        ("two-spellings-last-one-wins", "stix2/properties.py", "text", ["            if spec_name in spec_dict and spec_dict[spec_name] != hash_v:\n", "            if False:\n"], "C06.order-free-cleaning"),
        ("collision-test-case-folded", "stix2/properties.py", "text", ["            if spec_name in spec_dict and spec_dict[spec_name] != hash_v:", "            if spec_name in spec_dict and spec_dict[spec_name].lower() != hash_v.lower():"], "C06.order-free-cleaning"),
    ],
    "C07": [
        ('is-marked-inherits-by-default', 'stix2/markings/__init__.py', 'text', ['def is_marked(obj, marking=None, selectors=None, inherited=False, descendants=False):', 'def is_marked(obj, marking=None, selectors=None, inherited=True, descendants=False):'], 'C07.query-siblings'),
        ('language-tags-case-folded', 'stix2/markings/utils.py', 'text', ['        return marking.id\n', '        return marking.id.lower()\n'], 'C07.query-siblings'),
        ('object-level-add-lists-duplicates', 'stix2/markings/object_markings.py', 'text', ["    object_markings = set(obj.get('object_marking_refs', []) + marking)", "    object_markings = obj.get('object_marking_refs', []) + marking"], 'C07.normal-form'),
        ('option-rebound-in-loop', 'stix2/markings/granular_markings.py', 'text', ["                    lng = marking.get('lang')\n", "                    lang = marking.get('lang') if lang else None\n                    lng = lang\n"], 'C07.loops-complete'),
        ('option-key-for-dictionaries-too', 'stix2/versioning.py', 'text', ['    if isinstance(data, stix2.base._STIXBase):\n        if allow_custom is None:', '    if True:\n        if allow_custom is None:'], 'C07.new-version'),
        ('lang-option-clears-references', 'stix2/markings/granular_markings.py', 'text', ["                if ref and marking_ref:\n                    granular_marking['marking_ref'] = ''", "                if ref and marking_ref or lang:\n                    granular_marking['marking_ref'] = ''"], 'C07.query-siblings'),
        ("path-prefix", "stix2/markings/granular_markings.py", "drop-bool-operand", ["get_markings", "inherited", "drop operand 1", "startswith"], "C07.query-siblings"),
        ("normal-form-skipped", "stix2/markings/granular_markings.py", "drop-self-assign-call", ["add_markings", "compress_markings"], "C07.normal-form"),
        ("object-itself-returned", "stix2/markings/object_markings.py", "text", ["    return new_version(obj, object_marking_refs=list(object_markings), allow_custom=True)", "    obj['object_marking_refs'] = list(object_markings)\n    return obj"], "C07.new-version"),
        ("lang-not-forwarded", "stix2/markings/__init__.py", "text", ["granular_markings.set_markings(obj, marking, selectors, marking_ref, lang)", "granular_markings.set_markings(obj, marking, selectors, marking_ref)"], "C07.forward"),
        ("substring-selector-match", "stix2/markings/granular_markings.py", "text", ["if s in granular_marking.get('selectors', []):", "if s in granular_marking.get('selectors', [])[0]:"], "C07.whole-selectors"),
        ("compression-drops-implied-selectors", "stix2/markings/utils.py", "text", ["    compressed = \\\n        [", "    for item_ in list(map_):\n        map_[item_] = {s_ for s_ in map_[item_] if '.' not in s_}\n    compressed = \\\n        ["], "C07.normal-form"),
    ],
    "C08": [
        ('walk-stops-at-a-fixed-depth', 'stix2/markings/utils.py', 'text', ['    is, what is below it."""\n    if isinstance(value, collections.abc.Mapping):', '    is, what is below it."""\n    if len(path) > 16:\n        return\n    if isinstance(value, collections.abc.Mapping):'], 'C08.descends-into-objects'),
        ('selector-pre-check', 'stix2/base.py', 'text', ["                validate(self, m.get('selectors'))", "                if not m.get('selectors'):\n                    raise InvalidSelectorError(self, m)\n                validate(self, m.get('selectors'))"], 'C08.reject'),
        ("validate-skipped", "stix2/markings/granular_markings.py", "delete-call-stmt", ["add_markings", "utils.validate"], "C08.every-function"),
        ("super-chain-cut", "stix2/v20/sdo.py", "delete-call-stmt", ["Indicator._check_object_constraints", "super("], "C08.every-construction"),
        ("descent-dict-only", "stix2/markings/utils.py", "text", ["    if isinstance(value, collections.abc.Mapping):", "    if isinstance(value, dict):"], "C08.descends-into-objects"),
        ("nested-lists-not-walked", "stix2/markings/utils.py", "text", ["            for descendant in _iterpath_below(item, path):", "            for descendant in (iterpath(item, path) if isinstance(item, collections.abc.Mapping) else ()):"], "C08.descends-into-objects"),
        ("later-step-lower-case-only", "stix2/properties.py", "text", ["|[a-zA-Z0-9_-]{1,256}))*|id)", "|[a-z0-9_-]{1,250}))*|id)"], "C08.syntax-agreement"),
        ("first-selector-only", "stix2/markings/utils.py", "loop-once", ["validate"], "C08.reject"),
    ],
    "C09": [
        ('match-does-not-consume-its-element', 'stix2/equivalence/pattern/transform/observation.py', 'text', ['        ee_iter = iter(exprs_containee)\n        er_iter = iter(exprs_container)\n\n        result = True\n        while True:\n            ee = next(ee_iter, None)\n            if not ee:\n                break\n\n            while True:\n                er = next(er_iter, None)\n                if er:\n                    if observation_expression_cmp(ee, er) == 0:\n                        break\n                else:\n                    break\n\n            if not er:\n', '        er_iter = iter(exprs_container)\n        er = next(er_iter, None)\n\n        result = True\n        for ee in exprs_containee:\n            while er is not None \\\n                    and observation_expression_cmp(ee, er) != 0:\n                er = next(er_iter, None)\n\n            if er is None:\n'], 'C09.distinct-bindings'),
        ('repeats-distributed-over-or', 'stix2/equivalence/pattern/transform/observation.py', 'text', ['    def transform_followedby(self, ast):\n        return self.__transform(ast)\n', '    def transform_followedby(self, ast):\n        return self.__transform(ast)\n\n    def transform_qualified(self, ast):\n        inner = ast.observation_expression\n        if isinstance(inner, OrObservationExpression):\n            return OrObservationExpression([QualifiedObservationExpression(c, ast.qualifier) for c in inner.operands]), True\n        return ast, False\n'], 'C09.pipeline'),
        ("order-entry-lost", "stix2/equivalence/pattern/compare/comparison.py", "drop-list-element", ["'LIKE'"], "C09.producers-handlers"),
        ("two-huge-float-literals-are-one-constant", "stix2/patterns.py", "text", ['        if not math.isfinite(self.value):', '        if self.value != self.value:'], "C09.sets-and-numbers"),
        ("comparator-not-mirror", "stix2/equivalence/pattern/compare/comparison.py", "negate-if", ["object_path_cmp", "path1.object_type_name < path2.object_type_name"], "C09.comparator-mirror"),
        ("copy-loses-not", "stix2/equivalence/pattern/transform/comparison.py", "text", ["ast.operator, new_object_path, ast.rhs, ast.negated,", "ast.operator, new_object_path, ast.rhs,"], "C09.copy-complete"),
        ("set-semantics-containment", "stix2/equivalence/pattern/transform/observation.py", "text", ["                    del container[i]\n", "                    pass\n"], "C09.distinct-bindings"),
        ("regexes-canonicalised-as-values", "stix2/equivalence/pattern/transform/comparison.py", "text", ['        if ast.operator in ("MATCHES", "LIKE", "<", ">", "<=", ">="):', '        if False:'], "C09.value-operators-only"),
        ("ordered-by-canonical-text", "stix2/equivalence/pattern/transform/comparison.py", "text", ['        if ast.operator in ("MATCHES", "LIKE", "<", ">", "<=", ">="):', '        if ast.operator in ("MATCHES", "LIKE"):'], "C09.value-operators-only"),
        ("wildcard-index-as-string", "stix2/equivalence/pattern/compare/comparison.py", "text", ["                yield ANY_INDEX\n", "                yield comp.index\n"], "C09.type-guard"),
        ("nul-in-address-escapes", "stix2/equivalence/pattern/transform/specials.py", "text", ["            ip_bytes = socket.inet_aton(ip_str)\n        except (OSError, ValueError):", "            ip_bytes = socket.inet_aton(ip_str)\n        except OSError:"], "C09.type-guard"),
        ("cidr-mask-zeroes-the-partial-byte", "stix2/equivalence/pattern/transform/specials.py", "text", ["    num_zero_bytes = (addr_size_bits - prefix_size) // 8", "    num_zero_bytes = addr_size_bytes - num_fixed_bytes"], "C09.special-values"),
        ("followedby-absorbs-and", "stix2/equivalence/pattern/transform/observation.py", "text", ["                    elif type(child1) is type(child2):", "                    elif isinstance(child1, _CompoundObservationExpression):"], "C09.absorption"),
    ],
    "C10": [
        ('equality-operator-known-by-its-text', 'stix2/pattern_visitor.py', 'text', ['        operator = children[2 if not_present else 1].symbol.type\n', '        operator = children[2 if not_present else 1].getText()\n', '        negated = not_present != (operator != self.parser_class.EQ)', '        negated = not_present != (operator != "=")'], 'C10.not-aware'),
        ('empty-binary-constant', 'stix2/patterns.py', 'text', ['        if not value:\n            # (Valid base64, for no bytes at all', '        if value is None:\n            # (Valid base64, for no bytes at all'], 'C10.binary-literal-form'),
        ('quoted-step-groups-swapped', 'stix2/patterns.py', 'text', ['return ListObjectPathComponent(name, m.group(2))', 'return ListObjectPathComponent(m.group(2), name)'], 'C10.path-text'),
        ('and-group-dropped', 'stix2/pattern_visitor.py', 'text', ['            return self.instantiate("ParentheticalExpression", children[1])\n        else:', '            return children[1]\n        else:'], 'C10.operator-table'),
        ('set-literal-loses-members', 'stix2/patterns.py', 'text', ['        self.value = [x if isinstance(x, _Constant) else make_constant(x) for x in values]', '        self.value = [x if isinstance(x, _Constant) else make_constant(x) for x in values if x is not None]'], 'C10.operator-table'),
        ('quoted-step-escaped-twice', 'stix2/pattern_visitor.py', 'text', ['current.property_name if isinstance(current, BasicObjectPathComponent) else str(current),', 'current.property_name if isinstance(current, BasicObjectPathComponent) else "\'%s\'" % escape_quotes_and_backslashes(current.value),'], 'C10.path-step-kinds'),
        ("negation-constant", "stix2/pattern_visitor.py", "last-arg-false", ["visitPropTestSet", "InComparisonExpression"], "C10.not-aware"),
        ("escape-order", "stix2/patterns.py", "swap-args", ["escape_quotes_and_backslashes", "replace("], "C10.escape-order"),
        ("within-refuses-float", "stix2/patterns.py", "text", ["if isinstance(number_of_seconds, (IntegerConstant, FloatConstant)):", "if isinstance(number_of_seconds, IntegerConstant):"], "C10.token-domain"),
        ("float-exponent-form", "stix2/patterns.py", "text", ['        if "e" in text or "E" in text:', '        if False:'], "C10.float-literal-form"),
        ("non-finite-float-constant", "stix2/patterns.py", "text", ['        if not math.isfinite(self.value):', '        if False:'], "C10.float-literal-form"),
        ("quoted-step-before-star", "stix2/pattern_visitor.py", "text", ["""                        current.property_name if isinstance(current, BasicObjectPathComponent) else str(current),
                        next.getText(),""", """                        current.property_name,
                        next.getText(),"""], "C10.path-step-kinds"),
        ("keyword-step-bare", "stix2/patterns.py", "text", ["if not _BARE_PATH_STEP_RE.match(x) or x in _PATTERN_KEYWORDS:", "if not _BARE_PATH_STEP_RE.match(x):"], "C10.step-quoting"),
        ("quoted-step-unescaped", "stix2/patterns.py", "text", ["return \"'\" + escape_quotes_and_backslashes(x) + \"'\"", "return \"'\" + x + \"'\""], "C10.step-quoting"),
        ("empty-hex-refused", "stix2/patterns.py", "text", ["^h'(([a-fA-F0-9]{2})*)'\\Z", "^h'(([a-fA-F0-9]{2})+)'\\Z"], "C10.hex-literal-form"),
        ("operand-root-types-aliased", "stix2/patterns.py", "text", ["self.root_types = set(arg.root_types)", "self.root_types = arg.root_types"], "C10.definite-init"),
        ("chain-extended-in-place", "stix2/pattern_visitor.py", "text", ['                return self.instantiate("OrBooleanExpression", children[0].operands + [children[2]])', '                children[0].operands.append(children[2])\n                return children[0]'], "C10.operator-table"),
        ("hex-validator-dollar", "stix2/patterns.py", "text", ["'^([a-fA-F0-9]{2})+\\Z'", "'^([a-fA-F0-9]{2})+$'"], "C10.hex-literal-form"),
        ("lenient-base64-validation", "stix2/patterns.py", "text", ["base64.b64decode(value, validate=True)", "base64.b64decode(value)"], "C10.binary-literal-form"),
        ("path-text-cut-at-dots", "stix2/patterns.py", "text", ["        steps = [m.group(0) for m in _PATH_STEP_RE.finditer(path)]\n", "        steps = path.split(\".\")\n"], "C10.path-text"),
        ("negative-float-literal-stays-a-raw-node", "stix2/pattern_visitor.py", "text", ["node.symbol.type == self.parser_class.FloatPosLiteral or node.symbol.type == self.parser_class.FloatNegLiteral", "node.symbol.type == self.parser_class.FloatPosLiteral"], "C10.token-domain"),
        ("string-only-operator-guesses-a-timestamp", "stix2/patterns.py", "text", ["        elif isinstance(rhs, str) and self.operator in (\n            \"LIKE\", \"MATCHES\", \"ISSUBSET\", \"ISSUPERSET\",\n        ):", "        elif isinstance(rhs, str) and self.operator in (\n            \"LIKE\", \"ISSUBSET\", \"ISSUPERSET\",\n        ):"], "C10.operand-kinds"),
    ],
    "C11": [
        ('bundle-members-deduplicated-by-id', 'stix2/datastore/filesystem.py', 'text', ['            for stix_obj in stix_data.get("objects", []):\n                self.add(stix_obj, version=version, pretty=pretty)', '            for stix_obj in stix_data.get("objects", []):\n                if stix_obj is not None:\n                    self.add(stix_obj, version=version, pretty=pretty)'], 'C11.all-versions-kept'),
        ('layout-guessed-from-the-query', 'stix2/datastore/filesystem.py', 'text', ['            type_is_versioned = _is_versioned_type_dir(type_path, type_dir)', '            type_is_versioned = _is_versioned_type_dir(type_path, type_dir) if auth_ids.auth_type != AuthSet.WHITE else True'], 'C11.filesystem-pruning'),
        ("overwrite-refusal-removed", "stix2/datastore/filesystem.py", "drop-raise-guard", ["_check_path_and_write", "os.path.isfile"], "C11.check-before-write"),
        ("sink-encoding-fixed", "stix2/datastore/filesystem.py", "text", ["bundlify=bundlify, encoding=encoding),", "bundlify=bundlify),"], "C11.encoding-agreement"),
        ("write-encoding-literal", "stix2/datastore/filesystem.py", "text", ["            encoding = self.encoding\n", "            encoding = 'utf-8'\n"], "C11.encoding-agreement"),
        ("oldest-returned", "stix2/datastore/memory.py", "text", ['candidate["modified"] > stix_obj["modified"]', 'candidate["modified"] < stix_obj["modified"]'], "C11.newest"),
    ],
    "C12": [
        ('whitelist-uses-lstat', 'stix2/datastore/filesystem.py', 'text', ['                    s = os.stat(os.path.join(parent_dir, filename))', '                    s = os.lstat(os.path.join(parent_dir, filename))'], 'C12.optimiser-table'),
        ('non-string-values-prune', 'stix2/datastore/filesystem.py', 'text', ['        if filter_.property in ("type", "id") and not (\n            isinstance(filter_.value, str) or (', '        if filter_.property in ("type", "id") and False and not (\n            isinstance(filter_.value, str) or ('], 'C12.optimiser-table'),
        ('dot-names-pass-the-entry-test', 'stix2/datastore/filesystem.py', 'text', ['                    or filename in (".", ".."):\n', '                    or filename in ():\n'], 'C12.optimiser-table'),
        ('layout-guessed-from-the-query', 'stix2/datastore/filesystem.py', 'text', ['            type_is_versioned = _is_versioned_type_dir(type_path, type_dir)', '            type_is_versioned = _is_versioned_type_dir(type_path, type_dir) if auth_ids.auth_type != AuthSet.WHITE else True'], 'C12.optimiser-table'),
        ("operator-flipped", "stix2/datastore/filters.py", "flip-compare", ["Filter._check_property", "GtE -> Gt", "stix_obj_property >= filter_value"], "C12.operator-table"),
        ("optimiser-unsound", "stix2/datastore/filesystem.py", "str-perturb", ["_find_search_optimizations", "'!='"], "C12.optimiser-table"),
        ("string-in-prunes-directories", "stix2/datastore/filesystem.py", "text", ['        if filter_.op == "in" and isinstance(filter_.value, str):', '        if False:'], "C12.optimiser-table"),
        ("collection-members-not-converted", "stix2/datastore/filters.py", "text", ["stix2.utils.parse_into_datetime(v)\n                if isinstance(v, (str, datetime)) else v", "v"], "C12.timestamp-coercion"),
        ("naive-datetime-value-compared-as-given", "stix2/datastore/filters.py", "text", ["isinstance(self.value, (str, datetime)):", "isinstance(self.value, str):"], "C12.timestamp-coercion"),
        ("path-step-into-plain-value-raises", "stix2/datastore/filters.py", "text", ["    if not isinstance(stix_obj, collections.abc.Mapping):\n", "    if False:\n"], "C12.conjunction"),
        ("answer-before-the-operator-table", "stix2/datastore/filters.py", "text", ["        if self.op == \"=\":\n            return stix_obj_property == filter_value", "        if self.op in (\">\", \"<\") and not isinstance(stix_obj_property, type(filter_value)):\n            return False\n        if self.op == \"=\":\n            return stix_obj_property == filter_value"], "C12.operator-table"),
        ("filter-value-joined-into-a-path-as-it-is", "stix2/datastore/filesystem.py", "text", ["            if os.path.basename(filename) != filename or \"\\0\" in filename \\\n                    or filename in (\".\", \"..\"):\n", "            if False:\n"], "C12.optimiser-table"),
    ],
    "C13": [
        ('resolved-type-written-back', 'stix2/base.py', 'text', ['                ref_type = self._STIXBase__valid_refs[ref]\n', '                ref_type = self._STIXBase__valid_refs[ref] = str(self._STIXBase__valid_refs[ref])\n'], 'C13.no-param-mutation'),
        ("copy-removed", "stix2/properties.py", "unwrap-copy", ["ExtensionsProperty.clean", "copy.deepcopy"], "C13.no-param-mutation"),
        ("setattr-guard-inverted", "stix2/base.py", "negate-if", ["_STIXBase.__setattr__"], "C13.immutable-api"),
        ("underscore-properties-assignable", "stix2/base.py", "text", ['        if not name.startswith("_") or \\\n                name in self.__dict__.get("_inner", ()):', '        if not name.startswith("_"):'], "C13.immutable-api"),
        ("shared-default-factory", "stix2/environment.py", "text", ["def __init__(self, factory=None, store=None, source=None, sink=None):", "def __init__(self, factory=ObjectFactory(), store=None, source=None, sink=None):"], "C13.history-independence"),
        ("class-properties-mutated-through-self", "stix2/v20/common.py", "text", ["self._properties = copy.deepcopy(self._properties)", "self._properties = self._properties"], "C13.history-independence"),
    ],
    "C14": [
        ('helper-asks-the-content', 'stix2/parsing.py', 'text', ['def dict_to_stix2(', 'def _claims_21(content):\n    return detect_spec_version(content) != "2.0"\n\n\ndef dict_to_stix2(', '        if version == "2.0" or not isinstance(extensions, collections.abc.Mapping):', '        if not _claims_21(stix_dict) or not isinstance(extensions, collections.abc.Mapping):'], 'C14.version-in-scope'),
        ("version-positional", "stix2/datastore/memory.py", "kw-to-positional", ["_add", "version=version", "parse("], "C14.binding"),
        ("version-not-forwarded", "stix2/datastore/filesystem.py", "drop-keyword", ["FileSystemSource.get", "drop version="], "C14.forward"),
        ("taxii-all-versions-drops-version", "stix2/datastore/taxii.py", "text", ["self.query(query=query, version=version, _composite_filters", "self.query(query=query, _composite_filters"], "C14.version-in-scope"),
        ("v20-property-built-with-default-version", "stix2/v20/sdo.py", "text", ["IDProperty(_type, spec_version='2.0')", "IDProperty(_type)"], "C14.version-in-scope"),
        ("toplevel-extensions-on-2.0-objects", "stix2/base.py", "text", ["        if isinstance(extensions, collections.abc.Mapping) and \\\n                not isinstance(self, stix2.v20._STIXBase20):", "        if isinstance(extensions, collections.abc.Mapping):"], "C14.version-constants"),
        ("new-object-escape-for-2.0", "stix2/parsing.py", "text", ['if version == "2.0" or not isinstance(extensions, collections.abc.Mapping):', 'if not isinstance(extensions, collections.abc.Mapping):'], "C14.version-constants"),
        ("version-guard-replaced-by-a-property-name-test", "stix2/base.py", "text", ["                not isinstance(self, stix2.v20._STIXBase20):\n            # (STIX 2.0 has no extension definitions.)", "                \"spec_version\" in self._properties:\n            # (STIX 2.0 has no extension definitions.)"], "C14.version-constants"),
    ],
    "C15": [
        ('plain-dates-written-a-minute-late', 'stix2/utils.py', 'text', ['        dttm = dt.datetime.combine(dttm, dt.time(0, 0, tzinfo=pytz.utc))', '        dttm = dt.datetime.combine(dttm, dt.time(0, 1, tzinfo=pytz.utc))'], 'C15.utc'),
        ('datetime-rebuilt-from-fields', 'stix2/utils.py', 'text', ['    if isinstance(value, dt.date):\n', '    if isinstance(value, dt.datetime):\n        value = dt.datetime(value.year, value.month, value.day, value.hour, value.minute, value.second, value.microsecond, value.tzinfo)\n    if isinstance(value, dt.date):\n'], 'C15.utc'),
        ('offset-cut-off-before-reading', 'stix2/utils.py', 'text', ['            parsed = dt.datetime.strptime(value, fmt)', "            value = value.replace('+00:00', 'Z')\n            parsed = dt.datetime.strptime(value, fmt)"], 'C15.api-domain'),
        ("millisecond-two-digits", "stix2/utils.py", "int-1", ["format_datetime", "3 -> 2", ":3"], "C15.branch-table"),
        ("utc-branches-swapped", "stix2/utils.py", "negate-if", ["format_datetime", "tzinfo is None"], "C15.utc"),
        ("millisecond-truncation-off", "stix2/utils.py", "int+1", ["parse_into_datetime", "1000 -> 1001"], "C15.truncate"),
        ("naive-stays-naive", "stix2/utils.py", "text", ["            if ts.tzinfo is None or ts.tzinfo.utcoffset(ts) is None:\n", "            if False:\n"], "C15.value-object"),
        ("fold-dropped", "stix2/utils.py", "text", ['            kwargs.setdefault("fold", dttm.fold)\n', ""], "C15.value-object"),
        ("truncated-on-local-reading", "stix2/utils.py", "text", ["                ts = ts.astimezone(pytz.utc)\n", "                pass\n"], "C15.utc"),
        ("copy-loses-precision", "stix2/utils.py", "text", ["    def __reduce_ex__(self, protocol):", "    def _unused_reduce(self, protocol):"], "C15.value-object"),
        ("plain-date-unconverted", "stix2/utils.py", "text", ["    if not isinstance(dttm, dt.datetime):\n", "    if False:\n"], "C15.api-domain"),
        ("precision-compared-with-a-string", "stix2/v20/common.py", "text", ["== Precision.MILLISECOND:", "== 'millisecond':"], "C15.value-object"),
        ("timestamp-text-rewritten-before-parsing", "stix2/properties.py", "text", ["    def clean(self, value, allow_custom=False):\n        return parse_into_datetime(\n            value, self.precision, self.precision_constraint,", "    def clean(self, value, allow_custom=False):\n        if isinstance(value, str):\n            value = value.replace(':60', ':59')\n        return parse_into_datetime(\n            value, self.precision, self.precision_constraint,"], "C15.property-forward"),
    ],
    "C16": [
        ('exponent-of-a-one-digit-mantissa-kept', 'stix2/canonicalization/NumberToJson.py', 'text', ["    q = pyDouble.find('e')\n    if q > 0:", "    q = pyDouble.find('e')\n    if q > 1:"], 'C16.number-constants'),
        ("window-off-by-one", "stix2/canonicalization/NumberToJson.py", "int+1", ["21 -> 22"], "C16.number-constants"),
        ("escape-entry-lost", "stix2/canonicalization/Canonicalize.py", "drop-dict-entry", ["drop entry '\\t'"], "C16.escapes"),
    ],
    "C17": [
        ('first-character-of-empty-text', 'stix2/utils.py', 'text', ['    else:\n        try:\n            try:\n                return json.loads(data)', "    else:\n        if isinstance(data, str) and data[0] == '\\ufeff':\n            data = data[1:]\n        try:\n            try:\n                return json.loads(data)"], 'C17.raw-deref'),
        ('decoder-recursion-escapes', 'stix2/utils.py', 'text', ['        except RecursionError:\n            raise ValueError(\n                "Cannot convert JSON text to dictionary: nested too deeply",', '        except ZeroDivisionError:\n            raise ValueError(\n                "Cannot convert JSON text to dictionary: nested too deeply",'], 'C17.recursion-converted'),
        ('family-written-before-the-comparison', 'stix2/datastore/memory.py', 'text', ['        self.all_versions[obj["modified"]] = obj\n        if is_latest:', '        if is_latest:', '        is_latest = (\n', '        self.all_versions[obj["modified"]] = obj\n        is_latest = (\n'], 'C17.commit-last'),
        ('bundle-members-written-one-by-one', 'stix2/datastore/filesystem.py', 'text', ['            parsed_data = parse(stix_data, allow_custom=self.allow_custom, version=version)\n', "            if isinstance(stix_data, dict) and stix_data.get('type') == 'bundle':\n                for member in stix_data.get('objects', []):\n                    self.add(member, version=version, pretty=pretty)\n                return\n            parsed_data = parse(stix_data, allow_custom=self.allow_custom, version=version)\n"], 'C17.commit-last'),
        ('method-of-any-extension', 'stix2/v21/observables.py', 'text', ['        super(Process, self)._check_object_constraints()\n', "        super(Process, self)._check_object_constraints()\n        for ext in self.get('extensions', {}).values():\n            ext._check_at_least_one_property()\n"], 'C17.optional-subscript'),
        ("wrapper-handler-lost", "stix2/base.py", "drop-except-handler", ["_STIXBase._check_property", "except Exception"], "C17.wrapper"),
        ("shape-test-removed", "stix2/parsing.py", "drop-raise-guard", ["dict_to_stix2", "'type' not in stix_dict"], "C17.raw-deref"),
        ("registry-class-attribute-unguarded", "stix2/base.py", "text", ["""getattr(
                                registered_ext_class, "_toplevel_properties",
                                None,
                            ) or {},""", "registered_ext_class._toplevel_properties,"], "C17.registry-class-attr"),
        ("validator-unguarded", "stix2/v20/sdo.py", "text", ["""        try:
            errors = run_validator(self.get('pattern'), '2.0')
        except Exception as exc:
            # A failure inside the pattern validator is a refusal of the
            # pattern, not an internal error of this library.
            errors = [exc]
""", "        errors = run_validator(self.get('pattern'), '2.0')\n"], "C17.input-parsers-guarded"),
        ("constraints-recursion-unguarded", "stix2/base.py", "text", ["""        try:
            self._check_object_constraints()
        except RecursionError:
            raise ValueError(
                "%s content is nested too deeply" % cls.__name__,
            ) from None
""", "        self._check_object_constraints()\n"], "C17.recursion-converted"),
        ("failed-write-keeps-file", "stix2/datastore/filesystem.py", "text", ["            os.remove(file_path)\n            raise\n", "            raise\n"], "C17.commit-last"),
        ("overflow-escapes-id-generation", "stix2/v21/base.py", "text", ["            except OverflowError:\n", "            except ZeroDivisionError:\n"], "C17.recursion-converted"),
        ("raw-value-rendered-unguarded", "stix2/utils.py", "text", ["            try:\n                shown = str(data)\n            except RecursionError:\n                shown = \"<%s nested too deeply to show>\" % type(data).__name__\n", "            shown = str(data)\n"], "C17.recursion-converted"),
        ("store-reads-id-unguarded", "stix2/datastore/memory.py", "text", ['        if "id" not in stix_obj:\n', '        if False:\n'], "C17.raw-deref"),
        ("filesystem-sink-reads-id-unguarded", "stix2/datastore/filesystem.py", "text", ["        if \"type\" not in stix_obj or \"id\" not in stix_obj:\n", "        if False:\n"], "C17.raw-deref"),
        ("content-value-joined-into-a-path-unchecked", "stix2/datastore/filesystem.py", "text", ["                    os.path.basename(name) != name:\n", "                    False:\n"], "C17.raw-deref"),
        ("empty-bundle-file-keyerror", "stix2/datastore/filesystem.py", "text", ["        if not stix_obj.get(\"objects\"):\n", "        if False:\n"], "C17.raw-deref"),
        ("registry-indexed-by-the-content-version", "stix2/registry.py", "text", ["    cat_map = STIX2_OBJ_MAPS.get(stix_version)\n", "    cat_map = STIX2_OBJ_MAPS[stix_version]\n"], "C17.raw-deref"),
    ],
    "C18": [
        ('self-relationship-answered-twice', 'stix2/datastore/__init__.py', 'text', ["target_filters.append(Filter('source_ref', '!=', obj_id))", "target_filters.append(Filter('source_ref', '!=', False))"], 'C18.navigation'),
        ('ids-skipped-by-type-prefix', 'stix2/datastore/__init__.py', 'text', ["            results.extend(self.query([f for f in filter_list] + [Filter('id', '=', i)]))", "            if i.startswith('x-'):\n                continue\n            results.extend(self.query([f for f in filter_list] + [Filter('id', '=', i)]))"], 'C18.navigation'),
        ('newest-by-text', 'stix2/datastore/__init__.py', 'text', ['            ver = obj.get("modified") or obj.get("created")\n\n            if stix_obj is None or ver is None or ver > latest_ver:', '            ver = str(obj.get("modified") or obj.get("created"))\n\n            if stix_obj is None or ver is None or ver > latest_ver:'], 'C18.newest'),
        ("own-filters-not-forwarded", "stix2/datastore/__init__.py", "delete-call-stmt", ["CompositeDataSource.query", "all_filters.add(self.filters)"], "C18.member-forward"),
        ("newest-reversed", "stix2/datastore/__init__.py", "reverse-compare", ["CompositeDataSource.get", "ver > latest_ver"], "C18.newest"),
        ("related-objects-per-member", "stix2/datastore/__init__.py", "text", ["        results = super(CompositeDataSource, self).related_to(*args, **kwargs)\n", "        results = []\n        for ds in self.data_sources:\n            results.extend(ds.related_to(*args, **kwargs))\n"], "C18.navigation-over-union"),
        ("self-loop-twice", "stix2/datastore/__init__.py", "text", ["                target_filters.append(Filter('source_ref', '!=', obj_id))\n", "                pass\n"], "C18.navigation-over-union"),
        ("source-dropped-when-a-store-is-given", "stix2/environment.py", "text", ["        if source:\n            self.source.add_data_source(source)", "        elif source:\n            self.source.add_data_source(source)"], "C18.member-forward"),
    ],
    "C19": [
        ('ready-made-extension-by-type-name', 'stix2/properties.py', 'text', ['                elif isinstance(subvalue, cls):', '                elif isinstance(subvalue, _STIXBase) and subvalue._type == key:'], 'C19.version-scope'),
        ('content-overrides-the-named-version', 'stix2/parsing.py', 'text', ['        if not version:\n            version = detect_spec_version(obj)', "        if not version or 'spec_version' in obj:\n            version = detect_spec_version(obj)"], 'C19.version-scope'),
        ("duplicate-refusal-removed", "stix2/registration.py", "drop-raise-guard", ["_register_observable", "OBJ_MAP_OBSERVABLE"], "C19.map-agreement"),
        ("wrong-category", "stix2/registration.py", "str-perturb", ["_register_marking", "'markings'"], "C19.map-agreement"),
        ("type-regex-backtracks", "stix2/properties.py", "text", ["TYPE_21_REGEX = re.compile(r'^[a-z][a-z0-9-]*\\Z')", "TYPE_21_REGEX = re.compile(r'^([a-z][a-z0-9]*)+([a-z0-9-]+)*-?\\Z')"], "C19.type-grammar"),
        ("name-taken-across-categories", "stix2/registration.py", "text", ["    if new_type._type in OBJ_MAP_OBSERVABLE.keys():", "    if False:"], "C19.map-agreement"),
        ("extension-left-behind", "stix2/v21/sdo.py", "text", ["                _unregister_extension(extension_name, '2.1')\n", "                pass\n"], "C19.composite-registration"),
        ("unregistered-extension-key-unvalidated", "stix2/properties.py", "text", ["                    _validate_id(\n                        key, self.spec_version, 'extension-definition--',\n                    )\n", "                    pass\n"], "C19.validation-before-write"),
        ("extension-20-reference-rule", "stix2/registration.py", "text", ['_validate_props(combined_props, version, is_observable20=version == "2.0")', "_validate_props(combined_props, version)"], "C19.validation-before-write"),
        ("lookup-without-category", "stix2/parsing.py", "text", ['obj_class = registry.class_for_type(obj_type, version, "observables")', 'obj_class = registry.class_for_type(obj_type, version)'], "C19.version-scope"),
        ("reference-names-by-the-text-after-the-last-underscore", "stix2/registration.py", "text", ["        if prop_name.endswith(\"_ref\") and not isinstance(prop_obj, ref_prop_type):", "        tail = prop_name.rsplit(\"_\", 1)[-1]\n        if tail == \"ref\" and not isinstance(prop_obj, ref_prop_type):"], "C19.validation-before-write"),
        ("property-table-aliases-the-callers-dict", "stix2/custom.py", "text", ["def _get_properties_dict(properties):\n    try:", "def _get_properties_dict(properties):\n    if isinstance(properties, dict):\n        return properties\n    try:"], "C19.validation-before-write"),
    ],
    "C20": [
        ('open-ended-top-bucket-of-a-bisect-table', 'stix2/confidence/scales.py', 'text', ['def none_low_med_high_to_value(', "import bisect\n\n_DNI_RANGE_STARTS = (0, 10, 20, 40, 60, 80, 90)\n_DNI_LABELS = (\n    'Almost No Chance / Remote',\n    'Very Unlikely / Highly Improbable',\n    'Unlikely / Improbable',\n    'Roughly Even Chance / Roughly Even Odds',\n    'Likely / Probable',\n    'Very Likely / Highly Probable',\n    'Almost Certain / Nearly Certain',\n)\n\n\ndef none_low_med_high_to_value(", '    if 9 >= confidence_value >= 0:\n        return \'Almost No Chance / Remote\'\n    elif 19 >= confidence_value >= 10:\n        return \'Very Unlikely / Highly Improbable\'\n    elif 39 >= confidence_value >= 20:\n        return \'Unlikely / Improbable\'\n    elif 59 >= confidence_value >= 40:\n        return \'Roughly Even Chance / Roughly Even Odds\'\n    elif 79 >= confidence_value >= 60:\n        return \'Likely / Probable\'\n    elif 89 >= confidence_value >= 80:\n        return \'Very Likely / Highly Probable\'\n    elif 100 >= confidence_value >= 90:\n        return \'Almost Certain / Nearly Certain\'\n    else:\n        raise ValueError("Range of values out of bounds: %s" % confidence_value)\n', '    index = bisect.bisect_right(_DNI_RANGE_STARTS, confidence_value) - 1\n    if index < 0 or index >= len(_DNI_LABELS):\n        raise ValueError("Range of values out of bounds: %s" % confidence_value)\n    return _DNI_LABELS[index]\n'], 'C20.refuse-outside'),
        ('error-built-but-not-raised', 'stix2/confidence/scales.py', 'text', ['def none_low_med_high_to_value(', 'def _out_of_bounds(v):\n    return ValueError(v)\n\n\ndef none_low_med_high_to_value(', '    elif 100 >= confidence_value >= 70:\n        return \'High\'\n    else:\n        raise ValueError("Range of values out of bounds: %s" % confidence_value)', "    elif confidence_value >= 70:\n        return 'High'\n    else:\n        _out_of_bounds(confidence_value)"], 'C20.refuse-outside'),
        ("boundary-overlap", "stix2/confidence/scales.py", "int+1", ["value_to_wep", "39 -> 40"], "C20.specification"),
        ("boundary-gap", "stix2/confidence/scales.py", "int-1", ["value_to_wep", "39 -> 38"], "C20.total"),
        ("label-value-swapped", "stix2/confidence/scales.py", "int+1", ["dni_to_value", "85 -> 86"], "C20.specification"),
    ],
}


def build_overlay(root, relpath, opname, needles):
    path = os.path.join(root, relpath)
    try:
        with open(path) as f:
            src = f.read()
    except OSError:
        return None
    if opname == "text":
        # plain replacement of one expression text by another (first occurrence); must still compile
        out = src
        for old, new in zip(needles[0::2], needles[1::2]):
            if old not in out:
                return None
            out = out.replace(old, new, 1)
        try:
            compile(out, relpath, "exec")
        except SyntaxError:
            return None
        return {relpath: out}
    idx = mutate.find_site(src, opname, lambda d: all(n in d for n in needles))
    if idx is None:
        return None
    new = mutate.apply(src, opname, idx)
    if new is None:
        return None
    return {relpath: new}


def run_canaries(prop, ctx):
    from sa.main import run_property
    run = ctx.run
    lst = CANARIES.get(prop, [])
    constructible = 0
    for name, relpath, opname, needles, rule in lst:
        if needles == ["nothing-matches-this"]:
            continue
        ov = build_overlay(ctx.root, relpath, opname, needles)
        if ov is None:
            run.canaries.append({"canary": name, "rule": rule, "status": "not constructible on this tree"})
            continue
        constructible += 1
        try:
            rc, sub = run_property(prop, root=ctx.root, tier="quick", seed=ctx.seed, write=False, quiet=True, overlay=ov, canaries=False)
        except AnalysisError as e:
            # the edit made the tree un-analysable for this property: that also is a detection (fail closed), but not by the rule
            run.canaries.append({"canary": name, "rule": rule, "status": "analysis-error", "detail": str(e)[:200]})
            continue
        fired = [i for i in sub.instances if i.verdict in ("violation",) and i.rule == rule]
        run.canaries.append({"canary": name, "rule": rule, "status": "fired" if fired else "SILENT",
                             "edit": "%s %s %s" % (relpath, opname, needles),
                             "reported": fired[0].construct if fired else None})
        if not fired:
            others = sorted({i.rule for i in sub.instances if i.verdict == "violation"})
            raise AnalysisError("canary %s/%s: rule %s did not report the edit (%s %s %s); other rules reporting: %s — the checker has "
                                "gone vacuous" % (prop, name, rule, relpath, opname, needles, others))
    if lst and constructible == 0:
        raise AnalysisError("no canary of %s is constructible on this tree" % prop)
