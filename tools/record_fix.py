"""Developer tool: append a `fixed:` line to known_findings.json.
usage: record_fix.py <property> <commit> <rule + construct> -- <what failed>"""
import json
import os
import sys

HERE = os.path.dirname(os.path.dirname(os.path.abspath(__file__)))
args = sys.argv[1:]
i = args.index("--")
prop, commit = args[0], args[1]
where = " ".join(args[2:i])
what = " ".join(args[i + 1:])
p = os.path.join(HERE, "known_findings.json")
d = json.load(open(p))
d["fixed"].append("fixed: property=%s %s %s — %s" % (prop, commit, where, what))
json.dump(d, open(p, "w"), indent=1)
print(d["fixed"][-1][:160])
