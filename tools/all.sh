#!/bin/sh
# run all 20 quick checks (in parallel), print one line per property; exit non-zero if any check does
cd "$(dirname "$0")/.."
rc=0
for i in 01 02 03 04 05 06 07 08 09 10 11 12 13 14 15 16 17 18 19 20; do
  ( ./check C$i "$@" > out/.all_C$i.log 2>&1; echo "C$i rc=$? $(grep -c 'violation:' out/.all_C$i.log) violations" ) &
done
wait
cat /dev/null
for i in 01 02 03 04 05 06 07 08 09 10 11 12 13 14 15 16 17 18 19 20; do
  tail -1 out/.all_C$i.log | grep -q . ; grep -H "ANALYSIS-ERROR\|^VIOLATION" out/.all_C$i.log | head -3
done
