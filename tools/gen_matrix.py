"""Developer tool: render the seeded-change catch matrix from seeded/*/meta.json into seeded/MATRIX.md and into DESIGN.md
(between the MATRIX markers)."""
import glob
import json
import os
import re

VERIF = os.path.dirname(os.path.dirname(os.path.abspath(__file__)))


def main():
    rows = []
    n = caught = 0
    for d in sorted(glob.glob(os.path.join(VERIF, "seeded", "C*-*"))):
        m = json.load(open(os.path.join(d, "meta.json")))
        pid = m["property"]
        own = m["reported_by"].get(pid, {})
        others = []
        for p, v in sorted(m["reported_by"].items()):
            if p != pid:
                others.append(", ".join(v["rules"]) if v["rules"] else "%s: analysis-error" % p)
        what = (m.get("what_it_changes") or "").replace("|", "/").replace("\n", " ")
        what = re.sub(r"\s+", " ", what)
        if len(what) > 150:
            what = what[:147] + "..."
        verdict = ", ".join(own.get("rules", [])) if own.get("exit") == 1 else ("**analysis-error only**" if own else "**missed**")
        n += 1
        caught += 1 if own.get("exit") == 1 else 0
        rows.append("| %s | %s | %s | %s |" % (m["id"], what, verdict, "; ".join(others) or "—"))
    head = ("%d confirmed seeded changes; %d reported as VIOLATION by the check of the property they were written against.\n\n"
            "| id | change (agent's summary) | reported by (own property) | also reported by |\n|---|---|---|---|\n" % (n, caught))
    text = head + "\n".join(rows) + "\n"
    with open(os.path.join(VERIF, "seeded", "MATRIX.md"), "w") as f:
        f.write("# Seeded changes and the rules that report them\n\n" + text)
    dp = os.path.join(VERIF, "DESIGN.md")
    s = open(dp).read()
    if "<!-- MATRIX:BEGIN -->" in s:
        s = re.sub(r"<!-- MATRIX:BEGIN -->.*<!-- MATRIX:END -->", "<!-- MATRIX:BEGIN -->\n" + text.replace("\\", "\\\\") + "<!-- MATRIX:END -->", s, flags=re.S)
        open(dp, "w").write(s)
    print(n, caught)


if __name__ == "__main__":
    main()
