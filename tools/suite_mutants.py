"""Developer tool: survey of SUITE-PASSING mutants -- the population the task is about ("realistic changes that break a
property while still compiling and passing the existing tests"), generated mechanically.

1. every mutation site (selftest/mutate.py operators) inside the functions / tables the 20 properties' rule instances lie in
   is enumerated; a seeded sample of them is applied, one at a time, to a scratch git worktree of /repo (under /tmp);
2. the repository's suite is run on the variant; a mutant "passes the suite" when every stable_pass test of BASELINE.json
   still passes and the failure count is the baseline's;
3. on every suite-passing mutant all 20 quick checks are run (in-memory overlay): reported by some check / by none.
The mutants reported by NO check are the reading list: equivalent mutants, changes that break no listed property, or gaps.
Nothing is written to /repo or /verif except the report (tools output, /tmp/suite_mutants.json); worktrees are removed.
usage: suite_mutants.py [budget] [workers] [seed]
"""
import json
import os
import random
import shutil
import subprocess
import sys
import xml.etree.ElementTree as ET
from concurrent.futures import ThreadPoolExecutor

VERIF = os.path.dirname(os.path.dirname(os.path.abspath(__file__)))
sys.path.insert(0, VERIF)
from selftest import mutate  # noqa: E402
from selftest.thorough import focus_ranges  # noqa: E402

BASE = "/tmp/suitemut"
DESELECT = ""
PROPS = ["C%02d" % i for i in range(1, 21)]


def sh(cmd, cwd=None, timeout=900):
    r = subprocess.run(cmd, shell=True, cwd=cwd, stdout=subprocess.PIPE, stderr=subprocess.STDOUT, text=True, timeout=timeout)
    return r.returncode, r.stdout


def collect_sites(seed, budget):
    from sa.main import run_property
    focus = {}
    for p in PROPS:
        rc, run = run_property(p, root="/repo", tier="quick", seed=0, write=False, quiet=True, canaries=False)
        for rel, ranges in focus_ranges(run, "/repo").items():
            focus.setdefault(rel, [])
            for r in ranges:
                if r[1] < 10 ** 9 and r not in focus[rel]:
                    focus[rel].append(r)
    sites = []
    for rel, ranges in sorted(focus.items()):
        if rel.startswith("stix2/test"):
            continue
        src = open(os.path.join("/repo", rel)).read()
        for opname, idx, desc, line in mutate.enumerate_sites(src):
            if any(lo <= line <= hi for lo, hi, _q in ranges):
                sites.append((rel, opname, idx, desc))
    rnd = random.Random(seed)
    by_op = {}
    for s in sites:
        by_op.setdefault(s[1], []).append(s)
    # stratified by operator; message strings are not interesting
    pick = []
    per = max(10, budget // max(1, len(by_op)))
    rest = []
    for op, lst in sorted(by_op.items()):
        rnd.shuffle(lst)
        if op == "str-perturb":
            lst = lst[:per // 3]
        pick += lst[:per]
        rest += lst[per:]
    rnd.shuffle(rest)
    pick += rest[:max(0, budget - len(pick))]
    return len(sites), pick[:budget]


def stable():
    return set(json.load(open("/root/.vp/BASELINE.json"))["stable_pass"])


def suite_ok(wt, base):
    out = os.path.join(wt, ".j.xml")
    rc, log = sh("/venv/bin/python -m pytest -q -x -p no:cacheprovider --timeout=300 --continue-on-collection-errors "
                 "--deselect stix2/test/test_workbench.py -o addopts='' --junitxml=%s stix2/test/v20 stix2/test/v21 stix2/test 2>&1 | tail -3" % out, cwd=wt, timeout=600)
    return None


def worker(args):
    k, jobs, base = args
    wt = os.path.join(BASE, "wt%d" % k)
    sh("git -C /repo worktree remove --force %s" % wt)
    rc, out = sh("git -C /repo worktree add --detach %s HEAD" % wt)
    res = []
    try:
        for rel, opname, idx, desc in jobs:
            src = open(os.path.join("/repo", rel)).read()
            new = mutate.apply(src, opname, idx)
            if new is None or new == src:
                continue
            fp = os.path.join(wt, rel)
            open(fp, "w").write(new)
            try:
                jx = os.path.join(BASE, "j%d.xml" % k)
                # the baseline's 45 failing tests are deselected and the two uncollectable TAXII files ignored, so that the run
                # can stop at the FIRST failure (-x): a mutant passes the suite iff this run exits 0
                r_ = subprocess.run(["/venv/bin/python", "-m", "pytest", "-q", "-x", "-p", "no:cacheprovider", "--timeout=30"] + DESELECT,
                                    cwd=wt, stdout=subprocess.DEVNULL, stderr=subprocess.DEVNULL, timeout=400)
                ok = r_.returncode == 0
                res.append({"file": rel, "op": opname, "index": idx, "desc": desc, "suite_passes": ok, "missing_stable": 0 if ok else 1})
            except subprocess.TimeoutExpired:
                res.append({"file": rel, "op": opname, "index": idx, "desc": desc, "suite_passes": False, "missing_stable": -1})
            finally:
                open(fp, "w").write(src)
    finally:
        sh("git -C /repo worktree remove --force %s" % wt)
    return res


ROOT = "/repo"


def checks_on(m):
    """which properties report the mutant (overlay, in-process)"""
    from sa.loader import AnalysisError
    from sa.main import run_property
    from sa import cfg as _cfg, forward as _fw
    src = open(os.path.join(ROOT, m["file"])).read()
    new = mutate.apply(src, m["op"], m["index"])
    fired = {}
    for p in PROPS:
        try:
            rc, sub = run_property(p, root=ROOT, tier="quick", seed=0, write=False, quiet=True, overlay={m["file"]: new}, canaries=False)
            rules = sorted({i.rule for i in sub.instances if i.verdict == "violation"})
            if rules:
                fired[p] = rules
        except AnalysisError as e:
            fired[p] = "AE"
        except Exception as e:
            fired[p] = "crash:" + repr(e)[:60]
        finally:
            _cfg._CFGS.clear()
            _fw._FLOWS.clear()
    return fired


def _checks_job(m):
    m = dict(m)
    m["reported_by"] = checks_on(m)
    return m


def rejudge(path):
    """second phase only, on the suite-passing mutants of an earlier report: the checks are run against a frozen scratch
    worktree of /repo HEAD (so that neither /repo nor the rules may move under the run); a mutant whose site cannot be found
    again in today's source (same operator, same description) is counted as 'moved' and left out"""
    global ROOT
    import importlib
    import multiprocessing
    d = json.load(open(path))
    old = d["reported"] + d["analysis_error_only"] + d["silent"]
    ROOT = os.path.join(BASE + "_rejudge", "root")
    sh("git -C /repo worktree remove --force %s" % ROOT)
    shutil.rmtree(os.path.dirname(ROOT), ignore_errors=True)
    os.makedirs(os.path.dirname(ROOT))
    rc, out = sh("git -C /repo worktree add --detach %s HEAD" % ROOT)
    assert rc == 0, out
    try:
        from sa.main import run_property
        for p in PROPS:
            importlib.import_module("sa.rules." + p)
        for extra in ("pitfalls", "hidden_state", "regexlang"):
            importlib.import_module("sa.rules." + extra)
        dirty = []
        for p in PROPS:
            rc, sub = run_property(p, root=ROOT, tier="quick", seed=0, write=False, quiet=True, canaries=False)
            if sub.unknown_violations():
                dirty.append(p)
        if dirty:
            print("the unchanged tree is not clean for", dirty, "-- abort (every mutant would count as reported)")
            return
        todo, moved = [], 0
        cache = {}
        for m in old:
            if m["file"] not in cache:
                cache[m["file"]] = list(mutate.enumerate_sites(open(os.path.join(ROOT, m["file"])).read()))
            sites = cache[m["file"]]
            same = [i for (o, i, ds, ln) in sites if o == m["op"] and ds == m["desc"]]
            if m["index"] in same:
                idx = m["index"]
            elif len(same) == 1:
                idx = same[0]
            else:
                moved += 1
                continue
            todo.append({"file": m["file"], "op": m["op"], "index": idx, "desc": m["desc"], "suite_passes": True})
        print("suite-passing mutants of %s: %d, found again: %d, moved: %d" % (path, len(old), len(todo), moved), flush=True)
        with multiprocessing.get_context("fork").Pool(min(14, os.cpu_count() or 4)) as pool:
            judged = list(pool.imap_unordered(_checks_job, todo, chunksize=2))
    finally:
        sh("git -C /repo worktree remove --force %s" % ROOT)
        shutil.rmtree(os.path.dirname(ROOT), ignore_errors=True)
    caught = [m for m in judged if any(v != "AE" and not str(v).startswith("crash") for v in m["reported_by"].values())]
    ae = [m for m in judged if m not in caught and m["reported_by"]]
    silent = [m for m in judged if not m["reported_by"]]
    print("suite-passing mutants: %d reported by some check, %d only analysis-error, %d by none" % (len(caught), len(ae), len(silent)))
    d.update({"reported": caught, "analysis_error_only": ae, "silent": silent, "moved": moved, "rejudged": True})
    json.dump(d, open(path.replace(".json", "_rejudged.json"), "w"), indent=1)
    for m in sorted(silent, key=lambda m: (m["file"], m["op"], m["desc"])):
        print("SILENT %s [%s] %s" % (m["file"], m["op"], m["desc"]))


def main():
    if len(sys.argv) > 2 and sys.argv[1] == "--rejudge":
        return rejudge(sys.argv[2])
    budget = int(sys.argv[1]) if len(sys.argv) > 1 else 600
    workers = int(sys.argv[2]) if len(sys.argv) > 2 else 12
    seed = int(sys.argv[3]) if len(sys.argv) > 3 else 1
    total, pick = collect_sites(seed, budget)
    print("sites in anchored functions:", total, "sampled:", len(pick), flush=True)
    shutil.rmtree(BASE, ignore_errors=True)
    os.makedirs(BASE)
    base = stable()
    global DESELECT
    rc, out = sh("/venv/bin/python -m pytest -q -p no:cacheprovider --timeout=900 --continue-on-collection-errors 2>&1 | grep '^FAILED'", cwd="/repo")
    failing = [l[len("FAILED "):].split(" - ")[0].strip() for l in out.splitlines() if l.startswith("FAILED ")]
    DESELECT = []
    for f in failing:
        DESELECT += ["--deselect", f]
    DESELECT += ["--ignore", "stix2/test/v20/test_datastore_taxii.py", "--ignore", "stix2/test/v21/test_datastore_taxii.py"]
    r_ = subprocess.run(["/venv/bin/python", "-m", "pytest", "-q", "-x", "-p", "no:cacheprovider", "--timeout=30"] + DESELECT, cwd="/repo",
                        stdout=subprocess.PIPE, stderr=subprocess.STDOUT, text=True)
    print("baseline with the %d failing tests deselected:" % len(failing), r_.stdout.strip().splitlines()[-1], flush=True)
    if r_.returncode != 0:
        print("baseline does not pass with the deselection; abort")
        return
    chunks = [(k, pick[k::workers], base) for k in range(workers)]
    results = []
    try:
        with ThreadPoolExecutor(max_workers=workers) as ex:
            for r in ex.map(worker, chunks):
                results += r
    finally:
        sh("git -C /repo worktree prune")
        shutil.rmtree(BASE, ignore_errors=True)
    passing = [m for m in results if m["suite_passes"]]
    print("applied:", len(results), "suite-passing:", len(passing), flush=True)
    import multiprocessing
    with multiprocessing.get_context("fork").Pool(min(14, os.cpu_count() or 4)) as pool:
        judged = list(pool.imap_unordered(_checks_job, passing, chunksize=2))
    caught = [m for m in judged if any(v != "AE" and not str(v).startswith("crash") for v in m["reported_by"].values())]
    ae = [m for m in judged if m not in caught and m["reported_by"]]
    silent = [m for m in judged if not m["reported_by"]]
    print("suite-passing mutants: %d reported by some check, %d only analysis-error, %d by none" % (len(caught), len(ae), len(silent)))
    json.dump({"seed": seed, "sites": total, "applied": len(results), "suite_passing": len(passing), "reported": caught,
               "analysis_error_only": ae, "silent": silent}, open("/tmp/suite_mutants_%d.json" % seed, "w"), indent=1)
    for m in sorted(silent, key=lambda m: (m["file"], m["op"], m["desc"])):
        print("SILENT %s [%s] %s" % (m["file"], m["op"], m["desc"]))


if __name__ == "__main__":
    main()
