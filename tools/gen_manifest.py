"""Writes MANIFEST.json from the table below (kept in one place so it stays valid)."""
import json
import os

HERE = os.path.dirname(os.path.dirname(os.path.abspath(__file__)))
import sys
sys.path.insert(0, HERE)
from manifest_data import CHECKS, NOT_APPLICABLE, NOTES  # noqa: E402

checks = []
for pid, d in sorted(CHECKS.items()):
    checks.append({
        "property_id": pid,
        "quick_cmd": "./check %s --tier quick" % pid,
        "thorough_cmd": "./check %s --tier thorough" % pid,
        "evidence_file": "/verif/evidence/%s.json" % pid,
        "replay_cmd_template": "./check %s --replay {path}" % pid,
        "engine": "sa",
        "level_claimed": {"category": d["category"], "text": d["text"], "design_ref": d["design_ref"]},
        "level_note": d["note"],
        "technique": d["technique"],
    })
man = {
    "version": 1,
    "setup_cmd": "sh ./setup.sh",
    "hooks": {
        "guard": "STIX2_VERIF",
        "enable": "none needed: static analysis reads /repo's working tree; no instrumentation exists",
        "baseline_off_cmd": "cd /repo && /venv/bin/python -m pytest -ra -q -p no:cacheprovider --timeout=900 --continue-on-collection-errors",
        "source_commits": [],
        "add_only": True,
    },
    "engines": [{
        "name": "sa",
        "path": "/verif/sa",
        "serves_properties": sorted(CHECKS),
        "kind_free_text": "repository-specific static analysis on the Python ast: resolved program model (imports, C3 MRO, call "
                          "resolution with argument binding), statement CFGs with must-pass-through / reaching definitions, "
                          "abstract evaluation of declarative tables, decision-table interval algebra (chain + symbolic readers), regex structure and regex language inclusion (automata) via re._parser, effect / shape / provenance analyses",
    }],
    "checks": checks,
    "notes": NOTES,
    "not_applicable": [{"property_id": p, "reason": r} for p, r in sorted(NOT_APPLICABLE.items())],
}
with open(os.path.join(HERE, "MANIFEST.json"), "w") as f:
    json.dump(man, f, indent=1)
    f.write("\n")
print("MANIFEST.json: %d checks, %d not applicable" % (len(checks), len(NOT_APPLICABLE)))
