"""Refactoring-tolerance test (developer tool, not a registered check).

Applies behaviour-preserving transformations to an in-memory variant of every
non-test module and runs all checks on it.  Expected: exit 0 everywhere (at
worst ANALYSIS-ERROR, never VIOLATION).  Transformations:
  rename   every function-local variable gets the suffix _r (parameters, globals, attributes untouched)
  kwrev    keyword arguments of every call are written in reverse order
usage: refactor_test.py [rename|kwrev|both] [--write DIR]   (DIR: also write the variant tree, e.g. to run the test suite on it)
"""
import ast
import os
import sys

HERE = os.path.dirname(os.path.dirname(os.path.abspath(__file__)))
sys.path.insert(0, HERE)
from sa.main import run_property  # noqa: E402
from sa.loader import AnalysisError  # noqa: E402


def local_names(fn):
    """names bound in function fn itself (not params, not global/nonlocal, not bound only in nested defs)"""
    params = {a.arg for a in fn.args.posonlyargs + fn.args.args + fn.args.kwonlyargs}
    if fn.args.vararg:
        params.add(fn.args.vararg.arg)
    if fn.args.kwarg:
        params.add(fn.args.kwarg.arg)
    decl = set()
    bound = set()

    def walk(n, top=True):
        for ch in ast.iter_child_nodes(n):
            if isinstance(ch, (ast.FunctionDef, ast.AsyncFunctionDef, ast.ClassDef)):
                bound.add(ch.name)
                continue           # nested scope: its own business
            if isinstance(ch, ast.Lambda):
                continue
            if isinstance(ch, (ast.Global, ast.Nonlocal)):
                decl.update(ch.names)
            if isinstance(ch, ast.Name) and isinstance(ch.ctx, (ast.Store, ast.Del)):
                bound.add(ch.id)
            if isinstance(ch, ast.ExceptHandler) and ch.name:
                bound.add(ch.name)
            if isinstance(ch, (ast.Import, ast.ImportFrom)):
                for al in ch.names:
                    bound.add((al.asname or al.name).split(".")[0])
            if isinstance(ch, (ast.ListComp, ast.SetComp, ast.DictComp, ast.GeneratorExp)):
                # comprehension targets live in their own scope; leave them alone (walk only the outermost iterable)
                walk(ch.generators[0].iter)
                continue
            walk(ch, False)
    walk(fn)
    # nested defs/classes and imports keep their names (they may be looked up elsewhere by name)
    keep = set()
    for ch in ast.walk(fn):
        if ch is not fn and isinstance(ch, (ast.FunctionDef, ast.AsyncFunctionDef, ast.ClassDef)):
            keep.add(ch.name)
        if isinstance(ch, (ast.Import, ast.ImportFrom)):
            for al in ch.names:
                keep.add((al.asname or al.name).split(".")[0])
    return (bound - params - decl - keep), params


class Renamer(ast.NodeTransformer):
    def __init__(self):
        self.stack = []

    def _visit_func(self, node):
        names, params = local_names(node)
        # a nested function sees the enclosing function's renamed locals unless it rebinds them itself
        inherited = {}
        for m in self.stack:
            inherited.update(m)
        for p in params:
            inherited.pop(p, None)
        mine = {n: n + "_r" for n in names if not n.startswith("__")}
        for n in names:
            inherited.pop(n, None)
        cur = dict(inherited)
        cur.update(mine)
        self.stack.append(cur)
        node.body = [self.visit(s) for s in node.body]
        self.stack.pop()
        return node

    def visit_FunctionDef(self, node):
        node.decorator_list = [self.visit(d) for d in node.decorator_list]
        node.args = self.visit(node.args)
        return self._visit_func(node)

    visit_AsyncFunctionDef = visit_FunctionDef

    def visit_Lambda(self, node):
        params = {a.arg for a in node.args.args + node.args.kwonlyargs}
        cur = dict(self.stack[-1]) if self.stack else {}
        for p in params:
            cur.pop(p, None)
        self.stack.append(cur)
        node.body = self.visit(node.body)
        self.stack.pop()
        return node

    def visit_ClassDef(self, node):
        # class bodies: names are attributes, do not rename; methods are visited with an empty inherited map for class-level names
        saved = self.stack
        self.stack = list(saved)
        node.body = [self.visit(s) for s in node.body]
        self.stack = saved
        return node

    def _comp(self, node):
        # comprehension targets shadow
        shadow = set()
        for g in node.generators:
            for x in ast.walk(g.target):
                if isinstance(x, ast.Name):
                    shadow.add(x.id)
        cur = dict(self.stack[-1]) if self.stack else {}
        # the first iterable is evaluated in the enclosing scope
        first_iter = self.visit(node.generators[0].iter)
        for s in shadow:
            cur.pop(s, None)
        self.stack.append(cur)
        for i, g in enumerate(node.generators):
            if i > 0:
                g.iter = self.visit(g.iter)
            g.ifs = [self.visit(c) for c in g.ifs]
        if isinstance(node, ast.DictComp):
            node.key = self.visit(node.key)
            node.value = self.visit(node.value)
        else:
            node.elt = self.visit(node.elt)
        self.stack.pop()
        node.generators[0].iter = first_iter
        return node

    visit_ListComp = visit_SetComp = visit_GeneratorExp = visit_DictComp = _comp

    def visit_Name(self, node):
        if self.stack and node.id in self.stack[-1]:
            return ast.copy_location(ast.Name(id=self.stack[-1][node.id], ctx=node.ctx), node)
        return node

    def visit_ExceptHandler(self, node):
        if node.name and self.stack and node.name in self.stack[-1]:
            node.name = self.stack[-1][node.name]
        self.generic_visit(node)
        return node


class KwReverse(ast.NodeTransformer):
    def visit_Call(self, node):
        self.generic_visit(node)
        named = [k for k in node.keywords if k.arg is not None]
        star = [k for k in node.keywords if k.arg is None]
        if len(named) >= 2 and not star:
            node.keywords = list(reversed(named))
        return node


def transform(src, mode):
    tree = ast.parse(src)
    if mode in ("rename", "both"):
        tree = Renamer().visit(tree)
    if mode in ("kwrev", "both"):
        tree = KwReverse().visit(tree)
    ast.fix_missing_locations(tree)
    new = ast.unparse(tree)
    compile(new, "<variant>", "exec")
    return new


def main():
    mode = sys.argv[1] if len(sys.argv) > 1 and not sys.argv[1].startswith("-") else "both"
    out = None
    if "--write" in sys.argv:
        out = sys.argv[sys.argv.index("--write") + 1]
    root = "/repo"
    overlay = {}
    for dp, dn, fn in os.walk(os.path.join(root, "stix2")):
        rel = os.path.relpath(dp, root)
        if rel.split(os.sep)[:2] == ["stix2", "test"] or "__pycache__" in dp:
            continue
        for f in fn:
            if f.endswith(".py"):
                p = os.path.join(dp, f)
                src = open(p).read()
                overlay[os.path.relpath(p, root)] = transform(src, mode)
    if out:
        for rel, src in overlay.items():
            p = os.path.join(out, rel)
            os.makedirs(os.path.dirname(p), exist_ok=True)
            open(p, "w").write(src)
        print("variant written to", out)
        return 0
    bad = 0
    for i in range(1, 21):
        prop = "C%02d" % i
        try:
            rc, run = run_property(prop, root=root, write=False, quiet=True, overlay=overlay, canaries=False)
            viols = [x for x in run.instances if x.verdict == "violation"]
            print("%s rc=%d violations=%d" % (prop, rc, len(viols)))
            for v in viols[:40]:
                print("     ", v.rule, v.construct[:110], "::", str(v.detail)[:90])
            bad += len(viols)
        except AnalysisError as e:
            print("%s ANALYSIS-ERROR %s" % (prop, str(e)[:200]))
        except Exception as e:
            import traceback
            print("%s CRASH %r" % (prop, e))
            traceback.print_exc(limit=3)
    return 1 if bad else 0


if __name__ == "__main__":
    sys.exit(main())
