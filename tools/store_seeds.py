"""Developer tool: keep the confirmed seeded changes under /verif/seeded/<id>/.

Reads /tmp/seedeval/results.json (written by tools/seed_eval.py) and the agents' output directories /tmp/seed/<P>.out;
for every change that was confirmed (applies to /repo HEAD, unedited suite unchanged, demonstration exits 0 on the clean
tree and non-zero with the change) it writes
    seeded/<id>/patch.diff   the change, re-exported against the current /repo HEAD
    seeded/<id>/demo.py      the demonstration (run with the scratch worktree as current directory)
    seeded/<id>/meta.json    property, what the change is, what it needs to manifest, what was run, which rules report it
Nothing here is ever applied to /repo by this tool; the re-export happens in a scratch worktree under /tmp that is removed.
"""
import json
import os
import shutil
import subprocess
import sys

VERIF = os.path.dirname(os.path.dirname(os.path.abspath(__file__)))
WT = "/tmp/seedstore/wt"


def sh(cmd, cwd=None):
    r = subprocess.run(cmd, shell=True, cwd=cwd, stdout=subprocess.PIPE, stderr=subprocess.STDOUT, text=True)
    return r.returncode, r.stdout


def main():
    res = json.load(open("/tmp/seedeval/results.json"))
    head = sh("git -C /repo rev-parse --short HEAD")[1].strip()
    sh("git -C /repo worktree remove --force %s" % WT)
    shutil.rmtree(os.path.dirname(WT), ignore_errors=True)
    os.makedirs(os.path.dirname(WT))
    rc, out = sh("git -C /repo worktree add --detach %s HEAD" % WT)
    assert rc == 0, out
    kept = 0
    try:
        for name, r in sorted(res.items()):
            ok = r.get("applies") and r.get("suite_ok") and r.get("demo_clean_exit") == 0 and r.get("demo_changed_exit")
            if not ok:
                print(name, "NOT confirmed, skipped:", {k: r.get(k) for k in ("applies", "suite_ok", "demo_clean_exit", "demo_changed_exit")})
                continue
            pid, k = name.split("-")
            src_dir = os.path.dirname(r["patch"])
            stored = os.path.join(VERIF, "seeded", name)
            if os.path.abspath(src_dir) == os.path.abspath(stored):
                # already kept: refresh only which rules report it
                mp = os.path.join(stored, "meta.json")
                meta = json.load(open(mp))
                fired = r.get("fired", {})
                meta["reported_by"] = {p: {"exit": v["rc"], "rules": v["rules"], "first_report": v["first"]} for p, v in sorted(fired.items())}
                meta["caught_by_its_property"] = bool(r.get("caught_by_target"))
                meta["checks_last_run_against_commit"] = head
                json.dump(meta, open(mp, "w"), indent=1)
                kept += 1
                continue
            notes = {}
            off = int(os.environ.get("SEED_OFFSET", "0"))
            try:
                nl = json.load(open(os.path.join(src_dir, "notes.json")))
                nl = nl if isinstance(nl, list) else nl.get("changes") or nl.get("seeds") or []
                for n in nl:
                    if str(n.get("k")) == str(int(k) - off):
                        notes = n
            except Exception:
                pass
            sh("git checkout -q -- . && git clean -fdq", cwd=WT)
            rc, out = sh("git apply --whitespace=nowarn %s || git apply --3way --whitespace=nowarn %s" % (r["patch"], r["patch"]), cwd=WT)
            if rc != 0:
                print(name, "does not apply to HEAD any more:", out[-200:])
                continue
            sh("git reset -q", cwd=WT)
            rc, diff = sh("git diff", cwd=WT)
            d = os.path.join(VERIF, "seeded", name)
            os.makedirs(d, exist_ok=True)
            with open(os.path.join(d, "patch.diff"), "w") as f:
                f.write(diff)
            shutil.copy(r["demo"], os.path.join(d, "demo.py"))
            fired = r.get("fired", {})
            meta = {
                "id": name,
                "property": pid,
                "round": 1 if int(k) <= 3 else (2 if int(k) <= 6 else (3 if int(k) <= 9 else (4 if int(k) <= 12 else (5 if int(k) <= 15 else (6 if int(k) <= 18 else 7))))),  # (rounds 7 and 8 share the numbers 19-21: see meta["round"] fixed after storing)
                "origin": "written by a fresh sub-agent that was given only the text of property %s and a scratch git worktree of "
                          "/repo; it saw nothing of /verif" % pid,
                "what_it_changes": notes.get("summary"),
                "needs_to_manifest": notes.get("needs"),
                "base_commit": head,
                "files_touched": sorted({l[6:] for l in diff.splitlines() if l.startswith("+++ b/")}),
                "what_was_run": {
                    "scratch_worktree": "git -C /repo worktree add --detach <tmp> HEAD (removed afterwards)",
                    "demo_on_clean_tree": "cd <tmp> && /venv/bin/python demo.py -> exit %s" % r.get("demo_clean_exit"),
                    "apply": "git apply patch.diff -> ok",
                    "demo_with_change": "cd <tmp> && /venv/bin/python demo.py -> exit %s" % r.get("demo_changed_exit"),
                    "suite_with_change": "%s  (baseline command of /root/.vp/BASELINE.json; every stable_pass test still passes)" % r.get("suite"),
                    "checks": "for every property: /verif/check <P> --root <tmp> --no-write --no-canaries",
                },
                "reported_by": {p: {"exit": v["rc"], "rules": v["rules"], "first_report": v["first"]} for p, v in sorted(fired.items())},
                "caught_by_its_property": bool(r.get("caught_by_target")),
                "to_reproduce_against_repo": "git -C /repo apply /verif/seeded/%s/patch.diff && /verif/check %s ; git -C /repo checkout -- ." % (name, pid),
            }
            with open(os.path.join(d, "meta.json"), "w") as f:
                json.dump(meta, f, indent=1)
            kept += 1
    finally:
        sh("git -C /repo worktree remove --force %s" % WT)
        shutil.rmtree(os.path.dirname(WT), ignore_errors=True)
    print("kept", kept, "seeded changes under", os.path.join(VERIF, "seeded"))


if __name__ == "__main__":
    sys.exit(main())
