"""Developer tool: confirm seeded changes and run the checks against them.

For every /tmp/seed/<P>.out/patch_k.diff (or the patches named on the command line as P:k):
  1. fresh scratch worktree of /repo HEAD; demo on the clean tree must exit 0
  2. apply the patch; the suite must pass as the baseline does; the demo must now fail
  3. run all 20 quick checks with --root <worktree>; record which properties / rules report a violation
Writes /tmp/seedeval/results.json and prints a table.  The scratch worktree is removed afterwards.
"""
import glob
import json
import os
import re
import subprocess
import sys

VERIF = os.path.dirname(os.path.dirname(os.path.abspath(__file__)))
WT = os.environ.get("SEED_WT", "/tmp/seedeval/wt")
OUT = os.environ.get("SEED_RESULTS", "/tmp/seedeval/results.json")


def sh(cmd, cwd=None, timeout=900):
    r = subprocess.run(cmd, shell=True, cwd=cwd, stdout=subprocess.PIPE, stderr=subprocess.STDOUT, text=True, timeout=timeout)
    return r.returncode, r.stdout


def fresh():
    sh("git -C /repo worktree remove --force %s" % WT)
    sh("rm -rf %s" % WT)
    os.makedirs(os.path.dirname(WT), exist_ok=True)
    rc, out = sh("git -C /repo worktree add --detach %s %s" % (WT, os.environ.get("REPO_BASE", "HEAD")))
    assert rc == 0, out


def main():
    fast = "--fast" in sys.argv
    sel = [a for a in sys.argv[1:] if not a.startswith("--")]
    patches = []
    seen = set()
    if "--tmp" not in sys.argv:
        for d in sorted(glob.glob(os.path.join(VERIF, "seeded", "C*-*"))):
            pid, k = os.path.basename(d).split("-")
            if sel and ("%s:%s" % (pid, k)) not in sel and pid not in sel:
                continue
            patches.append((pid, k, os.path.join(d, "patch.diff"), os.path.join(d, "demo.py")))
            seen.add((pid, k))
    for d in sorted(glob.glob(os.path.join(os.environ.get("SEED_DIR", "/tmp/seed"), "C*.out"))):
        pid = os.path.basename(d)[:3]
        for pf in sorted(glob.glob(os.path.join(d, "patch_*.diff"))):
            k0 = re.search(r"patch_(\d+)", pf).group(1)
            # later rounds are numbered after the changes already kept for the property
            off = int(os.environ.get("SEED_OFFSET", "0"))
            k = str(int(k0) + off)
            if (pid, k) in seen:
                continue
            if sel and ("%s:%s" % (pid, k)) not in sel and pid not in sel:
                continue
            patches.append((pid, k, pf, os.path.join(d, "demo_%s.py" % k0)))
    results = {}
    if os.path.exists(OUT):
        results = json.load(open(OUT))
    for pid, k, pf, demo in patches:
        name = "%s-%s" % (pid, k)
        fresh()
        rec = {"property": pid, "patch": pf, "demo": demo}
        prev = results.get(name, {})
        skip = fast and prev.get("suite_ok") and prev.get("demo_clean_exit") == 0 and prev.get("demo_changed_exit")
        if "--trust-stored" in sys.argv and os.path.dirname(pf).startswith(os.path.join(VERIF, "seeded")):
            # developer shortcut: a stored change was confirmed when it was stored; only the checks are re-run
            m_ = json.load(open(os.path.join(os.path.dirname(pf), "meta.json")))
            w_ = m_.get("what_was_run", {})
            prev = {"suite_ok": True, "demo_clean_exit": 0, "demo_changed_exit": 1, "suite": w_.get("suite_with_change", "")}
            skip = True
        if skip:
            rec.update({k_: prev[k_] for k_ in ("demo_clean_exit", "demo_changed_exit", "suite", "suite_ok")})
        else:
            rc, out = sh("/venv/bin/python %s" % demo, cwd=WT)
            rec["demo_clean_exit"] = rc
        rc, out = sh("git apply --whitespace=nowarn %s" % pf, cwd=WT)
        if rc != 0:
            rc, out = sh("git apply --3way --whitespace=nowarn %s" % pf, cwd=WT)
        rec["applies"] = rc == 0
        if rc != 0:
            rec["apply_error"] = out[-400:]
            results[name] = rec
            print(name, "DOES NOT APPLY")
            continue
        if not skip:
            rc, out = sh("/venv/bin/python %s" % demo, cwd=WT)
            rec["demo_changed_exit"] = rc
            rc, out = sh("%s/tools/suite.sh %s" % (VERIF, WT))
            rec["suite"] = out.strip().splitlines()[0] if out.strip() else ""
            rec["suite_ok"] = rc == 0 and "45 failed, 2433 passed" in out
        fired = {}
        from concurrent.futures import ThreadPoolExecutor
        props = ["C%02d" % i for i in range(1, 21)] if "--own-only" not in sys.argv else [pid]
        with ThreadPoolExecutor(max_workers=10) as ex:
            outs = list(ex.map(lambda p_: sh("%s/check %s --root %s --no-write --no-canaries" % (VERIF, p_, WT)), props))
        for p, (rc, out) in zip(props, outs):
            if rc != 0:
                rules = sorted(set(re.findall(r"violation: rule=(\S+)", out)))
                fired[p] = {"rc": rc, "rules": rules, "first": (re.findall(r"violation: (.*)", out) or re.findall(r"ANALYSIS-ERROR.*", out) or [""])[0][:300]}
        rec["fired"] = fired
        rec["caught_by_target"] = pid in fired and fired[pid]["rc"] == 1
        rec["caught_by_any"] = any(v["rc"] == 1 for v in fired.values())
        results[name] = rec
        print("%s applies=%s demo %s->%s suite_ok=%s caught_target=%s fired=%s" % (
            name, rec["applies"], rec["demo_clean_exit"], rec.get("demo_changed_exit"), rec["suite_ok"], rec["caught_by_target"],
            {p: v["rules"] or "AE" for p, v in fired.items()}))
        json.dump(results, open(OUT, "w"), indent=1)
    sh("git -C /repo worktree remove --force %s" % WT)
    sh("rm -rf %s" % WT)


if __name__ == "__main__":
    main()
