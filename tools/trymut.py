"""Developer helper: copy /repo/stix2 to a temp dir, apply textual edits, run a check on it, remove the copy.
usage: trymut.py Cxx file 'old' 'new' [file old new ...]     (old must occur exactly once unless prefixed with 'all:')
"""
import os
import shutil
import subprocess
import sys
import tempfile

prop = sys.argv[1]
edits = sys.argv[2:]
tmp = tempfile.mkdtemp(prefix="verif-mut-")
try:
    shutil.copytree("/repo/stix2", os.path.join(tmp, "stix2"), ignore=shutil.ignore_patterns("__pycache__", "test"))
    for i in range(0, len(edits), 3):
        f, old, new = edits[i:i + 3]
        p = os.path.join(tmp, f)
        s = open(p).read()
        if old.startswith("all:"):
            old = old[4:]
            assert old in s, "pattern not found: %r" % old
        else:
            assert s.count(old) == 1, "pattern occurs %d times: %r" % (s.count(old), old)
        s = s.replace(old, new)
        compile(s, p, "exec")
        open(p, "w").write(s)
    props = prop.split(",")
    rc = 0
    for pr in props:
        r = subprocess.run([os.path.join(os.path.dirname(os.path.dirname(os.path.abspath(__file__))), "check"), pr, "--root", tmp, "--no-write"])
        print("rc=%d" % r.returncode)
        rc = max(rc, r.returncode)
    sys.exit(rc)
finally:
    shutil.rmtree(tmp, ignore_errors=True)
