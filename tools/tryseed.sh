#!/bin/sh
# Developer helper: apply one patch to a scratch worktree of /repo HEAD and run the named checks against it.
# usage: tools/tryseed.sh <patch> <Cxx> [<Cyy> ...]
P="$1"; shift
W=$(mktemp -d /tmp/tryseed.XXXXXX)
rmdir "$W"
git -C /repo worktree add --detach "$W" HEAD -q || exit 2
(cd "$W" && (git apply --whitespace=nowarn "$P" || git apply --3way --whitespace=nowarn "$P")) || { echo "DOES NOT APPLY"; git -C /repo worktree remove --force "$W"; exit 2; }
for c in "$@"; do
  /verif/check "$c" --root "$W" --no-write --no-canaries 2>&1 | grep "violation:\|ANALYSIS-ERROR" | cut -c1-${COLS:-260}
  echo "-- $c done"
done
git -C /repo worktree remove --force "$W"
