"""Developer tool: render the tables of DESIGN.md section 6 from known_findings.json and hunt/*/clean_findings.json
(+ hunt/status.json: which hunted findings pass at the current /repo HEAD and my triage note for the open ones)."""
import glob
import json
import os
import re

VERIF = os.path.dirname(os.path.dirname(os.path.abspath(__file__)))


def esc(t):
    return re.sub(r"\s+", " ", str(t).replace("|", "/")).strip()


def main():
    kf = json.load(open(os.path.join(VERIF, "known_findings.json")))
    rows = []
    for i, f in enumerate(kf["fixed"], 1):
        m = re.match(r"fixed: property=(C\d+) (\S+) (.*?) — (.*)$", f, flags=re.S)
        assert m, f[:80]
        prop, commit, where, what = m.groups()
        rows.append("| %d | %s | `%s` | %s | %s |" % (i, prop, commit, esc(where), esc(what)))
    fixed = "| # | property | commit | rule and construct | failing input → observed |\n|---|---|---|---|---|\n" + "\n".join(rows) + "\n"
    frows = []
    for f in kf["findings"]:
        frows.append("| %s | %s | `%s` | %s | %s |" % (f["property"], f["rule"], esc(f["construct"]), esc(f["input"] + " → " + f["observed"]), esc(f["why_not_fixed"])))
    known = "| property | rule | construct | failing input → observed | why not repaired |\n|---|---|---|---|---|\n" + "\n".join(frows) + "\n"
    st = json.load(open(os.path.join(VERIF, "hunt", "status.json")))
    hrows = []
    n_open = n_rep = 0
    for d in sorted(glob.glob(os.path.join(VERIF, "hunt", "C*"))):
        pid = os.path.basename(d)
        items = []
        for fn, pre in (("clean_findings.json", ""), ("r3_clean_findings.json", "r3-"), ("r4_clean_findings.json", "r4-"), ("r5_clean_findings.json", "r5-"), ("r6_clean_findings.json", "r6-"), ("r7_clean_findings.json", "r7-"), ("r8_clean_findings.json", "r8-")):
            try:
                items += [(pre, it) for it in json.load(open(os.path.join(d, fn)))]
            except Exception:
                pass
        for pre, it in items:
            k = "%s-%s%s" % (pid, pre, it.get("j"))
            s_ = st.get(k, {})
            if s_.get("status") == "repaired":
                n_rep += 1
                continue
            n_open += 1
            hrows.append("| %s | %s | %s | %s |" % (k, esc((it.get("input") or ""))[:170], esc((it.get("observed") or ""))[:150], esc(s_.get("note", "not decided"))))
    hunt = ("%d findings reported by the hunt; %d of them no longer reproduce at the current `/repo` HEAD (repaired, section 6.1); the "
            "%d below are open.\n\n| id | input | observed | disposition |\n|---|---|---|---|\n" % (n_open + n_rep, n_rep, n_open)) + "\n".join(hrows) + "\n"
    dp = os.path.join(VERIF, "DESIGN.md")
    s = open(dp).read()
    for tag, text in (("FIXED", fixed), ("KNOWN", known), ("HUNT", hunt)):
        a, b = "<!-- %s:BEGIN -->" % tag, "<!-- %s:END -->" % tag
        assert a in s and b in s, tag
        i, j = s.index(a) + len(a), s.index(b)
        s = s[:i] + "\n" + text + s[j:]
    open(dp, "w").write(s)
    print(len(rows), "fixed lines,", len(frows), "known findings,", n_open, "open hunted findings,", n_rep, "repaired")


if __name__ == "__main__":
    main()
