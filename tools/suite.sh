#!/bin/sh
# Developer helper: run the repository suite and compare the pass set with BASELINE.json stable_pass.
# usage: tools/suite.sh [repo-dir]
REPO="${1:-/repo}"
OUT="$(mktemp -d)"
cd "$REPO" && /venv/bin/python -m pytest -q -p no:cacheprovider --timeout=900 --continue-on-collection-errors --junitxml="$OUT/j.xml" > "$OUT/log" 2>&1
tail -1 "$OUT/log"
/venv/bin/python - "$OUT/j.xml" <<'PY'
import json, sys
import xml.etree.ElementTree as ET
base = set(json.load(open('/root/.vp/BASELINE.json'))['stable_pass'])
t = ET.parse(sys.argv[1])
passed = set()
for tc in t.iter('testcase'):
    if not any(ch.tag in ('failure', 'error', 'skipped') for ch in tc):
        passed.add("%s::%s" % (tc.get('classname'), tc.get('name')))
missing = sorted(base - passed)
print("stable_pass=%d passed_now=%d missing_from_stable=%d" % (len(base), len(passed), len(missing)))
for m in missing[:20]:
    print("  MISSING", m)
sys.exit(1 if missing else 0)
PY
rc=$?
rm -rf "$OUT"
exit $rc
