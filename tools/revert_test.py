"""Developer tool: "reports the violation again if it ever returns", exercised for real.

For every `fixed:` line of known_findings.json: take a scratch worktree of /repo HEAD under /tmp, revert that one `fix:`
commit in it (git revert --no-commit), run the check of the recorded property against the worktree and expect exit 1 with a
VIOLATION line.  A revert that conflicts with later commits is reported as 'not revertible' (the canary of that repair
is then the only exercise).  Nothing is written to /repo or /verif; the worktrees are removed.
"""
import json
import os
import re
import shutil
import subprocess
import sys
from concurrent.futures import ThreadPoolExecutor

VERIF = os.path.dirname(os.path.dirname(os.path.abspath(__file__)))
BASE = "/tmp/reverttest"

# repairs that `git revert` cannot undo any more (later commits touched the same lines): the defect is re-created by hand
# at the construct as it stands today -- (file, old text, new text) edits, every `old` must be present
MANUAL = {
    "f9cbbe8": [("stix2/hashes.py", 'Hash.MD6: r"^(?:[a-f0-9]{32}|[a-f0-9]{40}|[a-f0-9]{56}|[a-f0-9]{64}|[a-f0-9]{96}|[a-f0-9]{128})\\Z"',
                 'Hash.MD6: r"^[a-f0-9]{32}|[a-f0-9]{40}|[a-f0-9]{56}|[a-f0-9]{64}|[a-f0-9]{96}|[a-f0-9]{128}\\Z"')],
    "be11e9a": [("stix2/hashes.py", '{32}\\Z",\n    Hash.MD6', '{32}$",\n    Hash.MD6')],
    "9e70063": [("stix2/v20/sdo.py", "        super(Indicator, self)._check_object_constraints()\n\n        try:", "        try:")],
    "34f5bf6": [("stix2/markings/utils.py", "            index = '[{0}]'.format(idx)", "            index = '[{0}]'.format(value.index(item))")],
    "7bc341e": [("stix2/base.py", "                if isinstance(ext, collections.abc.Mapping) and \\\n                        ext.get(\"extension_type\")",
                 "                if ext.get(\"extension_type\")")],
    "0bed2f3": [("stix2/parsing.py", "        if version == \"2.0\" or not isinstance(extensions, collections.abc.Mapping):\n", "        if version == \"2.0\":\n")],
    "161f126": [("stix2/patterns.py", "if not _BARE_PATH_STEP_RE.match(x) or x in _PATTERN_KEYWORDS:", 'if x.find("-") != -1 or x in _PATTERN_KEYWORDS:')],
    "bcd4133": [("stix2/v21/common.py", "                    allow_custom=kwargs.get('allow_custom', False),\n                    interoperability=kwargs.get('interoperability', False),\n                    **defn\n",
                 "                    interoperability=kwargs.get('interoperability', False),\n                    **defn\n"),
                ("stix2/v21/common.py", "            if not allow_custom and value.has_custom:\n                raise CustomContentError(\"custom content encountered\")\n            return value, value.has_custom\n",
                 "            return value, False\n")],
    "6e9352a": [("stix2/utils.py", "            if ts.tzinfo is None or ts.tzinfo.utcoffset(ts) is None:\n", "            if False:\n"),
                ("stix2/utils.py", "                ts = ts.astimezone(pytz.utc)\n        else:\n", "                pass\n        else:\n")],
    "1931542": [("stix2/base.py", "        try:\n            self._check_object_constraints()\n        except RecursionError:\n            raise ValueError(\n                \"%s content is nested too deeply\" % cls.__name__,\n            ) from None\n",
                 "        self._check_object_constraints()\n"),
                ("stix2/v21/base.py", "            except RecursionError:\n                raise ValueError(\n                    \"%s content is nested too deeply\" % self.__class__.__name__,\n                ) from None\n", "")],
    "f7968df": [("stix2/v20/common.py", "    if getattr(cr, 'precision', None) == Precision.MILLISECOND:", "    if cr.precision == Precision.MILLISECOND:")],
    "59f657c": [("stix2/v21/base.py", "        if kwargs.get('id') in (None, []):", "        if 'id' not in kwargs:")],
    "e01f0d6": [("stix2/patterns.py", "re.match(r\"^h'(([a-fA-F0-9]{2})*)'\\Z\", value)", "re.match(r\"^h'(([a-fA-F0-9]{2})+)'\\Z\", value)")],
    "83c0cb5": [("stix2/equivalence/pattern/transform/comparison.py", '        if ast.operator in ("MATCHES", "LIKE", "<", ">", "<=", ">="):', '        if ast.operator in ("<", ">", "<=", ">="):')],
    "7d5eca6": [("stix2/patterns.py", "        if not _BARE_PATH_STEP_RE.match(x) or x in _PATTERN_KEYWORDS:", "        if not _BARE_PATH_STEP_RE.match(x):")],
    "39e48ba": [("stix2/patterns.py", "                return \"'\" + escape_quotes_and_backslashes(x) + \"'\"", "                return \"'\" + x + \"'\"")],
    "57ad8c0": [("stix2/patterns.py", "            if not component_name.needs_to_be_quoted:\n", "            if False:\n")],
    "d7c5ace": [("stix2/datastore/filesystem.py", "bundlify=bundlify, encoding=encoding),", "bundlify=bundlify),")],
    "03d1fa7": [("stix2/versioning.py", "        changed_properties.update(kwargs[\"custom_properties\"])\n", "        pass\n")],
    "f507229": [("stix2/datastore/filesystem.py", "        if \"type\" not in stix_obj or \"id\" not in stix_obj:\n", "        if False:\n")],
    "ff7a5eb": [("stix2/datastore/filters.py", "        elif isinstance(stix_obj_property, datetime) and \\\n                isinstance(self.value, (list, tuple, set, frozenset)):\n", "        elif False:\n")],
    "27b0e09": [("stix2/markings/utils.py", "    if isinstance(value, collections.abc.Mapping):\n\n        for item in iterpath(value, path):",
                 "    if isinstance(value, dict):\n\n        for item in iterpath(value, path):")],
}


def sh(cmd, cwd=None):
    r = subprocess.run(cmd, shell=True, cwd=cwd, stdout=subprocess.PIPE, stderr=subprocess.STDOUT, text=True)
    return r.returncode, r.stdout


def one(job):
    i, prop, commits = job
    wt = os.path.join(BASE, "wt%d" % i)
    sh("git -C /repo worktree remove --force %s" % wt)
    rc, out = sh("git -C /repo worktree add --detach %s HEAD" % wt)
    if rc:
        return (prop, commits, "worktree failed", out[-200:])
    try:
        how = "reported"
        for c in commits:
            rc, out = sh("git revert --no-commit %s" % c, cwd=wt)
            if rc:
                sh("git revert --abort; git checkout -q -- .", cwd=wt)
                if c not in MANUAL:
                    return (prop, commits, "not revertible", out.strip().splitlines()[-1][:160] if out.strip() else "")
                for rel, old, new in MANUAL[c]:
                    fp = os.path.join(wt, rel)
                    text = open(fp).read()
                    if old not in text:
                        return (prop, commits, "manual edit stale", "%s: %r not found" % (rel, old[:50]))
                    open(fp, "w").write(text.replace(old, new, 1))
                if sh("/venv/bin/python -m py_compile " + " ".join(os.path.join(wt, e[0]) for e in MANUAL[c]))[0]:
                    return (prop, commits, "manual edit does not compile", "")
                how = "reported (re-created by hand)"
        rc, out = sh("%s/check %s --root %s --no-write --no-canaries" % (VERIF, prop, wt))
        vio = [l for l in out.splitlines() if l.startswith("VIOLATION")]
        rules = sorted(set(re.findall(r"^\s*\[VIOLATION\]\s+(\S+)", out, flags=re.M)))[:4] or sorted(set(re.findall(r"rule=(\S+)", out)))[:4]
        return (prop, commits, how if rc == 1 and vio else ("analysis-error" if rc == 2 else "SILENT"), ",".join(rules))
    finally:
        sh("git -C /repo worktree remove --force %s" % wt)


def main():
    kf = json.load(open(os.path.join(VERIF, "known_findings.json")))
    jobs = []
    seen = set()
    for f in kf["fixed"]:
        m = re.match(r"fixed: property=(C\d+) (\S+) ", f)
        prop, cs = m.group(1), m.group(2).split("+")
        k = (prop, tuple(cs))
        if k in seen:
            continue
        seen.add(k)
        jobs.append((len(jobs), prop, cs))
    shutil.rmtree(BASE, ignore_errors=True)
    os.makedirs(BASE)
    try:
        with ThreadPoolExecutor(max_workers=12) as ex:
            res = list(ex.map(one, jobs))
    finally:
        sh("git -C /repo worktree prune")
        shutil.rmtree(BASE, ignore_errors=True)
    tally = {}
    for prop, cs, st, info in res:
        tally[st] = tally.get(st, 0) + 1
        print("%-4s %-18s %-30s %s" % (prop, "+".join(cs), st, info))
    print(tally)
    json.dump([{"property": p, "commits": c, "status": s, "info": i} for p, c, s, i in res], open("/tmp/revert_results.json", "w"), indent=1)
    return 0 if not tally.get("SILENT") else 1


if __name__ == "__main__":
    sys.exit(main())
