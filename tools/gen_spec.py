"""One-off generator of the frozen table oracles under spec/ from a tree.

NOT used by any check.  It was run once on the pinned tree; the output was then
reviewed against the STIX 2.0 / 2.1 specification text and the deviations of the
implementation from the specification were written into the oracle *as the
specification has them* (see spec/README.md), so the comparison reports them.
"""
import json
import os
import sys

sys.path.insert(0, os.path.dirname(os.path.dirname(os.path.abspath(__file__))))
from sa.loader import load_program  # noqa: E402
from sa.typemodel import get_model  # noqa: E402

root = sys.argv[1] if len(sys.argv) > 1 else "/repo"
out = sys.argv[2] if len(sys.argv) > 2 else os.path.join(os.path.dirname(os.path.dirname(os.path.abspath(__file__))), "spec")
tm = get_model(load_program(root))


def dump(name, obj):
    with open(os.path.join(out, name), "w") as f:
        json.dump(obj, f, indent=1, sort_keys=False)
        f.write("\n")


m21 = tm.json_model("2.1")
m20 = tm.json_model("2.0")
# --- specification values where the pinned implementation deviates -----------
# STIX 2.1 section 3.2 common property `confidence`: integer in 0..100.
for cname, rec in m21.items():
    for name, spec in rec["slots"]:
        if name == "confidence" and spec["kind"] == "IntegerProperty":
            spec["min"], spec["max"] = 0, 100
# STIX 2.0 Part 4 section 2.12 (Network Traffic): "The port value MUST be in the range of 0 - 65535."
for name, spec in m20["NetworkTraffic"]["slots"]:
    if name in ("src_port", "dst_port"):
        spec["min"], spec["max"] = 0, 65535
dec = tm.json_decorators()
for k, rec in dec.items():
    for name, spec in rec["slots"] or []:
        if name == "confidence" and spec.get("kind") == "IntegerProperty":
            spec["min"], spec["max"] = 0, 100
dump("stix21.json", m21)
dump("stix20.json", m20)
dump("registries.json", tm.json_registries())
dump("decorators.json", dec)
