"""Developer tool: canaries must not rot.  Lists every canary of selftest/canaries.py that cannot be constructed on the current
/repo tree (its site description / text no longer matches) -- such a canary is skipped by the checks ("not constructible"),
which is right for a restructured tree under test but wrong for the tree the table is maintained for.  Exit 1 if any."""
import os
import sys

VERIF = os.path.dirname(os.path.dirname(os.path.abspath(__file__)))
sys.path.insert(0, VERIF)
from selftest import canaries  # noqa: E402

bad = []
n = 0
for prop, lst in sorted(canaries.CANARIES.items()):
    for name, relpath, opname, needles, rule in lst:
        if needles == ["nothing-matches-this"]:
            continue
        n += 1
        if canaries.build_overlay("/repo", relpath, opname, needles) is None:
            bad.append((prop, name, relpath, opname))
for b in bad:
    print("NOT CONSTRUCTIBLE", *b)
print("%d canaries, %d not constructible" % (n, len(bad)))
sys.exit(1 if bad else 0)
