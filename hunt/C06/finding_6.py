import os, sys; sys.path.insert(0, os.getcwd())
# C06: "different contributing values give different ids".  Integers are pushed
# through float() by the canonicalizer (NumberToJson.convert2Es6Format), so
# integer property values that differ only beyond 2**53 collide; very large
# ones crash construction with a bare OverflowError.
from stix2 import v21
a = v21.AutonomousSystem(number=2**53)
b = v21.AutonomousSystem(number=2**53 + 1)
assert a.number != b.number
print(a.id, b.id)
assert a.id != b.id, "different 'number' values, same id"
