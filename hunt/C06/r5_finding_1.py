import os, sys; sys.path.insert(0, os.getcwd())
"""A bytes value inside a dictionary-valued part of an id contributing property
(here File.extensions -> raster-image-ext.exif_tags) is accepted and serialized
by the library as the JSON string it decodes to.  When it holds a control
character (other than \b \f \n \r \t) id generation breaks: the object cannot
be created without an explicit id, although the very same content can be
created with one, serializes fine, and gets a deterministic id after a
serialization round trip."""
import json
import uuid

import stix2
from stix2 import v21

NS = uuid.UUID("00abedb4-aa42-466c-9c01-fed23315a9b7")
FIXED = "file--e1bd4405-6ecd-5374-b3e1-ec82ba3cd528"


def ext(v):
    return {"raster-image-ext": {"exif_tags": {"MakerNote": v}}}


# The library accepts and serializes the value.
with_id = v21.File(id=FIXED, name="x", extensions=ext(b"\x01A"))
text = with_id.serialize()
assert json.loads(text)["extensions"] == ext("\x01A"), text

# Round trip without the id: deterministic id from the contributing values.
d = json.loads(text)
del d["id"]
parsed = stix2.parse(d, version="2.1")
expected = "file--" + str(uuid.uuid5(
    NS,
    '{"extensions":{"raster-image-ext":{"exif_tags":{"MakerNote":"\\u0001A"}}},"name":"x"}',
))
assert parsed.id == expected, (parsed.id, expected)

# Same contributing values, str instead of bytes: fine as well.
assert v21.File(name="x", extensions=ext("\x01A")).id == expected

# bytes without a control character: fine
assert v21.File(name="x", extensions=ext(b"A")).id == v21.File(name="x", extensions=ext("A")).id

# The object itself, created without an explicit id, must get that id too.
fresh = v21.File(name="x", extensions=ext(b"\x01A"))   # ValueError: Unrecognized JSON escape: \u
assert fresh.id == expected, (fresh.id, expected)
print("ok")
