import os, sys; sys.path.insert(0, os.getcwd())
"""
C06 finding 1: the id depends on the ORDER of the hashes dictionary when two
of its keys are spellings of the same algorithm ("md5" / "MD5", "SHA1" /
"SHA-1", "sha256" / "SHA-256", ...).  Both spellings are accepted without
allow_custom; HashesProperty.clean() maps both onto the spec name and the one
that comes last in dictionary order silently wins.  The two dictionaries below
are equal (Python dict equality; JSON objects are unordered), yet the two
observables get different hashes values and therefore different ids.
"""
import json

import stix2
from stix2 import v21

A = "a" * 32
B = "b" * 32

d1 = {"md5": A, "MD5": B}
d2 = {"MD5": B, "md5": A}
assert d1 == d2

o1 = v21.File(hashes=d1)
o2 = v21.File(hashes=d2)

# the same through parse(): two texts of one and the same JSON object
p1 = stix2.parse(json.dumps({"type": "file", "spec_version": "2.1", "hashes": d1}))
p2 = stix2.parse(json.dumps({"type": "file", "spec_version": "2.1", "hashes": d2}))

# and for another contributing hashes property / another alias pair
x1 = v21.X509Certificate(hashes={"SHA1": "c" * 40, "SHA-1": "d" * 40})
x2 = v21.X509Certificate(hashes={"SHA-1": "d" * 40, "SHA1": "c" * 40})

assert o1.id == o2.id, (
    "equal hashes dictionaries, different ids: %s %s / %s %s"
    % (o1.id, dict(o1.hashes), o2.id, dict(o2.hashes))
)
assert p1.id == p2.id, (p1.id, p2.id)
assert x1.id == x2.id, (x1.id, x2.id)
print("finding_1: property holds")
