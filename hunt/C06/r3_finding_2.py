import os, sys; sys.path.insert(0, os.getcwd())
# C06 finding 2: a namedtuple inside a contributing dictionary is serialized (simplejson,
# namedtuple_as_object) as a JSON *object* {"x": 1, "y": 2}, but id generation treats it as
# a tuple and hashes the JSON *array* [1,2].  The id is therefore not the UUIDv5 of the
# object's contributing JSON, collides with the id of the different value [1, 2], and is
# not reproduced by a serialization round trip.
import json, uuid, collections
import stix2
from stix2 import v21

NS = uuid.UUID("00abedb4-aa42-466c-9c01-fed23315a9b7")
Point = collections.namedtuple('Point', 'x y')

a = v21.File(name='x', extensions={'raster-image-ext': {'exif_tags': {'GPS': Point(1, 2)}}})
b = v21.File(name='x', extensions={'raster-image-ext': {'exif_tags': {'GPS': [1, 2]}}})

ja = json.loads(a.serialize()); jb = json.loads(b.serialize())
print(a.serialize()); print(b.serialize())
assert ja['extensions']['raster-image-ext']['exif_tags']['GPS'] == {'x': 1, 'y': 2}
assert jb['extensions']['raster-image-ext']['exif_tags']['GPS'] == [1, 2]

canon = '{"extensions":{"raster-image-ext":{"exif_tags":{"GPS":{"x":1,"y":2}}}},"name":"x"}'
expected = 'file--' + str(uuid.uuid5(NS, canon))
ida = ja.pop('id')
reparsed = stix2.parse(ja, version='2.1')
assert reparsed.id == expected, ("reparsed", reparsed.id, expected)
assert a.id != b.id, "different contributing values ({'x':1,'y':2} vs [1,2]) got the same id %s" % a.id
assert a.id == expected, "id is not the UUIDv5 of the object's contributing JSON: %s != %s" % (a.id, expected)
assert reparsed.id == a.id, "serialization round trip changed the id"
