import os, sys; sys.path.insert(0, os.getcwd())
# C06: an observable created without an explicit id must get the UUIDv5 of its
# contributing properties.  Everywhere in the library a property passed as
# None means "not given" (it is dropped), but stix2/v21/base.py tests
# `'id' not in kwargs`, so id=None (python) / "id": null (parsed dict)
# silently yields a random UUIDv4 although contributing properties are present.
import uuid
import stix2
from stix2 import v21

ref = v21.File(name="x")
a = v21.File(name="x", id=None)
b = stix2.parse({"type": "file", "spec_version": "2.1", "id": None, "name": "x"}, version="2.1")
print(ref.id, a.id, b.id)
assert uuid.UUID(ref.id[-36:]).version == 5
assert a.id == ref.id, "id=None -> random UUIDv4 instead of deterministic id"
assert b.id == ref.id, "'id': None in parsed dict -> random UUIDv4"
