import os, sys; sys.path.insert(0, os.getcwd())
# C06: the id must be the UUIDv5 of the canonical JSON of the contributing
# properties, stable across serialization round trips.  A tuple nested in a
# contributing property (dictionary value / extension content) is serialized
# by the library as a JSON array, but _make_json_serializable() only knows
# `list`; a tuple falls into the "convenience type" branch and is hashed as
# the *string* "[1, 2]".
import json, uuid
import stix2
from stix2 import v21

NS = uuid.UUID("00abedb4-aa42-466c-9c01-fed23315a9b7")
x = v21.File(name="x", extensions={"raster-image-ext": {"exif_tags": {"GPS": (1, 2)}}})
y = v21.File(name="x", extensions={"raster-image-ext": {"exif_tags": {"GPS": [1, 2]}}})
assert json.loads(x.serialize()).keys() == json.loads(y.serialize()).keys()
dx = json.loads(x.serialize()); dy = json.loads(y.serialize())
idx = dx.pop("id"); idy = dy.pop("id")
assert dx == dy                       # same JSON content
expected = "file--" + str(uuid.uuid5(NS, '{"extensions":{"raster-image-ext":{"exif_tags":{"GPS":[1,2]}}},"name":"x"}'))
z = stix2.parse(dx, version="2.1")
print(x.id, y.id, z.id, expected)
assert y.id == expected
assert x.id == expected, "tuple value hashed as the string '[1, 2]' instead of the JSON array [1,2]"
assert z.id == x.id, "round trip changed the id"
