import os, sys; sys.path.insert(0, os.getcwd())
# C06 (registered custom observables): a custom observable registered with
# extension_name=... gets its "new-sco" extension added to `extensions` only
# AFTER the deterministic id was computed (stix2/custom.py:
# _custom_observable_builder.__init__).  If "extensions" is an id-contributing
# property (as it is for file / network-traffic), the id of a freshly
# constructed object is computed without the extension that the object
# actually carries, and differs from the id of the same object after a
# serialize/parse round trip.
import json, uuid
import stix2
from stix2 import v21
from stix2.properties import StringProperty

NS = uuid.UUID("00abedb4-aa42-466c-9c01-fed23315a9b7")
EXT = "extension-definition--11111111-0000-4000-8000-000000000000"

@v21.CustomObservable('x-c06-b', [('s', StringProperty())], ['s', 'extensions'], extension_name=EXT)
class B:
    pass

o = B(s="x")
d = json.loads(o.serialize()); del d["id"]
assert d["extensions"] == {EXT: {"extension_type": "new-sco"}}
o2 = stix2.parse(d, version="2.1")
expected = "x-c06-b--" + str(uuid.uuid5(NS, '{"extensions":{"%s":{"extension_type":"new-sco"}},"s":"x"}' % EXT))
print(o.id, o2.id, expected)
assert o2.id == expected
assert o.id == expected, "id computed before the with_extension extension was added"
assert o.id == o2.id, "round trip changed the id"
