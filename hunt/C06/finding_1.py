import os, sys; sys.path.insert(0, os.getcwd())
# C06: equal contributing values must give equal ids across dictionary orders
# and serialization round trips.  When "hashes" holds none of MD5/SHA-1/
# SHA-256/SHA-512, the hash that is fed into the UUIDv5 is "the first one in
# dict iteration order", so the same set of hashes gives different ids
# depending on the order the dict was written in (and e.g. a
# serialize(sort_keys=True) / parse round trip changes the id).
import json
import stix2
from stix2 import v21

SHA3 = "e3b0c44298fc1c149afbf4c8996fb92427ae41e4649b934ca495991b7852b855"
SSDEEP = "3:AXGBicFlgVNhBGcL6wCrFQEv:AXGHsNhxLsr2C"

a = v21.File(hashes={"SSDEEP": SSDEEP, "SHA3-256": SHA3})
b = v21.File(hashes={"SHA3-256": SHA3, "SSDEEP": SSDEEP})
assert a.hashes == b.hashes          # equal contributing values ...
d = json.loads(a.serialize(sort_keys=True)); del d["id"]
c = stix2.parse(d, version="2.1")
assert c.hashes == a.hashes
print(a.id, b.id, c.id)
assert a.id == b.id, "same hashes, different dict order -> different ids"
assert a.id == c.id, "serialize(sort_keys=True)/parse round trip changed the id"
