import os, sys; sys.path.insert(0, os.getcwd())
# C06 finding 3: the library treats a property given as None or [] as "not given" (both are
# dropped in _STIXBase.__init__, and the id then gets its default), but the 2.1 observable
# constructor only regenerates the deterministic id when kwargs.get('id') is None.  An
# observable created / parsed with id=[] therefore has no explicit id, contributing
# properties present, and yet a random UUIDv4.
import uuid
import stix2
from stix2 import v21

ref = v21.Mutex(name='x')
assert v21.Mutex(name='x', id=None).id == ref.id
a = v21.Mutex(name='x', id=[])
b = stix2.parse({'type': 'mutex', 'spec_version': '2.1', 'name': 'x', 'id': []}, version='2.1')
print(ref.id, a.id, b.id)
assert uuid.UUID(a.id[-36:]).version == 5, "contributing property present but id is UUIDv%d" % uuid.UUID(a.id[-36:]).version
assert a.id == ref.id and b.id == ref.id, "equal contributing values gave different ids"
