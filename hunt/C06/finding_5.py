import os, sys; sys.path.insert(0, os.getcwd())
# C06: the id must be the UUIDv5 of the canonical JSON of exactly the
# contributing properties that are PRESENT.  For a registered custom
# observable with a contributing property that has a default, the default value
# is hashed although the property was not given and is not part of the
# object's JSON (serialize() omits defaulted optional properties), so an
# independent canonicalizer + uuid5 over the object's JSON disagrees.
import json, uuid
import stix2
from stix2 import v21
from stix2.properties import StringProperty, BooleanProperty

NS = uuid.UUID("00abedb4-aa42-466c-9c01-fed23315a9b7")

@v21.CustomObservable('x-c06-e', [('s', StringProperty()), ('flag', BooleanProperty(default=lambda: False))], ['s', 'flag'])
class E:
    pass

o = E(s="x")
d = json.loads(o.serialize())
assert "flag" not in d                 # not present in the object's JSON
expected = "x-c06-e--" + str(uuid.uuid5(NS, '{"s":"x"}'))
print(o.id, expected)
assert o.id == expected, "absent (defaulted) property contributed to the id"
