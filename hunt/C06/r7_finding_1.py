import os, sys; sys.path.insert(0, os.getcwd())
"""C06 on the clean tree: a contributing dictionary (an unregistered extension
of a file, allow_custom=True) with a NON-STRING key.  The library accepts the
object when an id is given and serialises the key as the JSON string "1"; made
without an id, the same content must get the UUIDv5 of the canonical JSON
{"extensions":{"x-u-ext":{"1":"a"}},"name":"x"} -- instead id generation dies
with a bare AttributeError from the canonicaliser's sort key."""
import json
import uuid

from stix2 import v21

NS = uuid.UUID("00abedb4-aa42-466c-9c01-fed23315a9b7")

ext = {"x-u-ext": {1: "a"}}

# accepted and serialised with an explicit id
given = v21.File(
    id="file--e1bd4405-6ecd-4374-b3e1-ec82ba3cd528", name="x",
    extensions=ext, allow_custom=True,
)
d = json.loads(given.serialize())
assert d["extensions"] == {"x-u-ext": {"1": "a"}}, d

canonical = '{"extensions":{"x-u-ext":{"1":"a"}},"name":"x"}'
want = "file--" + str(uuid.uuid5(NS, canonical))

made = v21.File(name="x", extensions=ext, allow_custom=True)   # AttributeError on the clean tree
assert made["id"] == want, (made["id"], want)
print("ok")
