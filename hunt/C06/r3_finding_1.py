import os, sys; sys.path.insert(0, os.getcwd())
# C06 finding 1: a decimal.Decimal inside a contributing dictionary (File.extensions ->
# raster-image-ext.exif_tags) is serialized as the JSON number 1.5, but the id is hashed
# over the JSON *string* "1.5"; the id therefore is not the UUIDv5 of the object's own
# contributing values, differs from the id of the equal float value, and is not
# reproduced by parsing the object's own JSON without the id.
import json, uuid
from decimal import Decimal
import stix2
from stix2 import v21

NS = uuid.UUID("00abedb4-aa42-466c-9c01-fed23315a9b7")

a = v21.File(name='x', extensions={'raster-image-ext': {'exif_tags': {'FNumber': Decimal('1.5')}}})
b = v21.File(name='x', extensions={'raster-image-ext': {'exif_tags': {'FNumber': 1.5}}})

ja = json.loads(a.serialize()); jb = json.loads(b.serialize())
ida = ja.pop('id'); idb = jb.pop('id')
assert ja == jb, "the two objects should have identical JSON apart from the id"

# independent recomputation (all values here are plain ASCII, 1.5 is '1.5' in RFC 8785)
canon = '{"extensions":{"raster-image-ext":{"exif_tags":{"FNumber":1.5}}},"name":"x"}'
expected = 'file--' + str(uuid.uuid5(NS, canon))
assert b.id == expected, ("float", b.id, expected)

reparsed = stix2.parse(ja, version='2.1')
print("Decimal id :", a.id)
print("float id   :", b.id)
print("expected   :", expected)
print("reparsed id:", reparsed.id)
assert a.id == expected, "id of object with Decimal value is not the UUIDv5 of its contributing JSON: %s != %s" % (a.id, expected)
assert a.id == b.id, "equal contributing values (identical JSON) gave different ids"
assert reparsed.id == a.id, "serialization round trip changed the id"
