import os, sys; sys.path.insert(0, os.getcwd())
# C14, clause "with no version named, content the library produced for version V
# is recognised as version V".  (Weakest of the findings: it needs an unregistered
# custom object that claims a spec_version the library does not implement.)
# A v21.Bundle built by the library is not recognised as a 2.1 bundle when one of
# the (unregistered, allow_custom) objects in it carries a spec_version greater
# than 2.1: detect_spec_version() takes the max over the contained objects and
# there is no Bundle class for that version, so parse() hands back a plain dict
# (or raises ParseError with allow_custom=False) instead of a v21.Bundle.
import stix2
from stix2 import v21

inner = {"type": "x-foo", "id": "x-foo--311b2d2d-f010-4473-83ec-1edf84858f4c", "spec_version": "2.2"}
b = v21.Bundle(objects=[inner], allow_custom=True)
text = b.serialize()

assert isinstance(stix2.parse(text, allow_custom=True, version="2.1"), v21.Bundle)   # fine when named
back = stix2.parse(text, allow_custom=True)
assert isinstance(back, v21.Bundle), "2.1 bundle produced by the library came back as %r" % type(back)
print("ok")
