import os, sys; sys.path.insert(0, os.getcwd())
# C14, clause "with no version named, content the library produced for version V
# is recognised as version V".
# A custom 2.0 object type that shares its name with a custom 2.1 observable
# type (registration allows this: the collision check is per version) is
# recognised as 2.1 when no version is named.
import stix2
from stix2 import v20, v21
from stix2.properties import StringProperty


@v21.CustomObservable('x-c14-sensor', [('name', StringProperty(required=True))], ['name'])
class Sensor21(object):
    pass


@v20.CustomObject('x-c14-sensor', [('name', StringProperty(required=True))])
class Sensor20(object):
    pass


text = Sensor20(name="a").serialize()
assert '"spec_version"' not in text
assert isinstance(stix2.parse(text, version="2.0"), Sensor20)   # fine when named

back = stix2.parse(text, allow_custom=True)
assert isinstance(back, Sensor20), "2.0 content produced by the library came back as %r (2.1 class: %s)" % (type(back), isinstance(back, Sensor21))
back = stix2.MemoryStore([stix2.utils._get_dict(text)]).query()[0]
assert isinstance(back, Sensor20)
print("ok")
