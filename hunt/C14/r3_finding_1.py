import os, sys; sys.path.insert(0, os.getcwd())
# C14, clause "with no version named, content the library produced for version V
# is recognised as version V".
# A STIX 2.0 cyber observable produced by the library (v20.File) that carries a
# custom property named "id" is recognised as a 2.1 SCO, because
# detect_spec_version() treats "has an id and its type is a 2.1 observable type"
# as proof of 2.1.
import stix2
from stix2 import v20, v21

obs = v20.File(name="notes.txt", id="file--5eef3404-6a94-4db3-9a1a-5684cbea0dfe", allow_custom=True)
text = obs.serialize()
assert '"spec_version"' not in text

for entry in (stix2.parse_observable, stix2.parse):
    back = entry(text, allow_custom=True)
    assert isinstance(back, v20.File), "%s: 2.0 content produced by v20.File came back as %r" % (entry.__name__, type(back))
print("ok")
