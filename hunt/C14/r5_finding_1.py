import os, sys; sys.path.insert(0, os.getcwd())
"""C14 -- content named as STIX 2.0 must be interpreted as exactly STIX 2.0,
with the strictness of that version.

'extension-definition--<uuid>' extension keys are the STIX 2.1 extension
definition mechanism; STIX 2.0 has no extension definitions (the library says
so itself in parsing.dict_to_stix2 and base._STIXBase.__init__).  In content
handled as 2.0 such a key is simply an extension the library does not know,
i.e. custom content, exactly like the key 'x-unknown-ext': a strict parse
(allow_custom=False) must refuse both.  Instead the 2.1-only escape is applied
to 2.0 observables too: the unknown extension is let through unvalidated and
the object does not even count as customised.
"""
import json
import shutil
import tempfile

import stix2
from stix2 import v20
from stix2.datastore.filesystem import FileSystemSink
from stix2.datastore.memory import MemoryStore
from stix2.exceptions import STIXError

EXT = "extension-definition--a932fcc6-e032-476c-826f-cb970a5a1ade"


def sample(ext_key):
    return {"type": "file", "name": "x", "extensions": {ext_key: {"anything": ["goes", 1]}}}


def observed_data(ext_key):
    d = json.loads(
        v20.ObservedData(
            first_observed="2020-01-01T00:00:00Z", last_observed="2020-01-01T00:00:00Z",
            number_observed=1, objects={"0": {"type": "file", "name": "x"}},
        ).serialize(),
    )
    d["objects"]["0"] = sample(ext_key)
    return d


def accepted(f):
    try:
        return f()
    except STIXError:
        return None


# reference behaviour: an extension unknown to 2.0 is refused by a strict parse
assert accepted(lambda: stix2.parse_observable(sample("x-unknown-ext"), version="2.0")) is None
assert accepted(lambda: stix2.parse(observed_data("x-unknown-ext"), version="2.0")) is None

problems = []
for label, f in [
    ("parse_observable(file, version='2.0')", lambda: stix2.parse_observable(sample(EXT), version="2.0")),
    ("parse(file, version='2.0')", lambda: stix2.parse(sample(EXT), version="2.0")),
    ("parse(file)  [recognised as 2.0]", lambda: stix2.parse(sample(EXT))),
    ("parse(observed-data, version='2.0')", lambda: stix2.parse(observed_data(EXT), version="2.0")),
]:
    obj = accepted(f)
    if obj is not None:
        problems.append("%s accepted it as %s.%s, has_custom=%s" % (
            label, type(obj).__module__, type(obj).__name__, obj.has_custom,
        ))

od = observed_data(EXT)
store = MemoryStore(allow_custom=False)
if accepted(lambda: store.add(json.loads(json.dumps(od)), version="2.0") or store.get(od["id"])) is not None:
    problems.append("MemoryStore(allow_custom=False).add(observed-data, version='2.0') accepted it")
tmp = tempfile.mkdtemp()
try:
    sink = FileSystemSink(tmp, allow_custom=False)
    if accepted(lambda: sink.add(json.loads(json.dumps(od)), version="2.0") or True) is not None:
        problems.append("FileSystemSink(allow_custom=False).add(observed-data, version='2.0') accepted it")
finally:
    shutil.rmtree(tmp)

assert not problems, "\n".join(problems)
print("ok")
