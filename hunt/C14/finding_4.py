import os, sys; sys.path.insert(0, os.getcwd())
# C14: content parsed with version="2.0" is interpreted as exactly 2.0.  The
# STIX 2.1 "toplevel-property-extension" rule (extra top-level properties are
# legitimate when an extension announces them) is applied to 2.0 classes too:
# the object constructor looks extensions up with a hard-coded "2.1", so a
# strict (allow_custom=False) 2.0 parse accepts undefined properties.
import stix2
from stix2 import parse

V4 = "aea334ae-dcd9-4c9c-96a1-afcbd24c4dc3"
ident = {
    "type": "identity", "id": "identity--" + V4,
    "created": "2017-01-01T00:00:00.000Z", "modified": "2017-01-01T00:00:00.000Z",
    "name": "n", "identity_class": "individual",
}
# baseline: strict 2.0 parse refuses an undefined property
try:
    parse(dict(ident, foo="bar"), version="2.0")
    raise SystemExit("baseline broken")
except stix2.exceptions.ExtraPropertiesError:
    pass

d = dict(
    ident, foo="bar",
    extensions={"extension-definition--" + V4: {"extension_type": "toplevel-property-extension"}},
)
try:
    obj = parse(d, version="2.0")
except Exception:
    obj = None
assert obj is None, (
    "strict parse(version='2.0') accepted a 2.0 identity with undefined "
    "properties via a 2.1-only mechanism: %s" % obj.serialize()
)
print("ok")
