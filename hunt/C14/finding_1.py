import os, sys; sys.path.insert(0, os.getcwd())
# C14: a version named to the parser must govern the whole content, with the
# same strictness as a direct parse.  parse(bundle, version=V) applies V to the
# bundle wrapper only; the contained objects are re-detected (STIXObjectProperty
# calls parse() without a version).
import stix2
from stix2 import parse

V1 = "5676a286-b994-11f1-827d-02fc00000001"      # a UUIDv1 (RFC 4122 variant)
V4 = "aea334ae-dcd9-4c9c-96a1-afcbd24c4dc3"

ident = {
    "type": "identity", "id": "identity--" + V4,
    "created": "2017-01-01T00:00:00.000Z", "modified": "2017-01-01T00:00:00.000Z",
    "name": "n", "identity_class": "individual",
}
failures = []

# (a) version="2.1" named: direct parse gives a 2.1 object ...
direct = parse(ident, version="2.1")
assert type(direct).__module__.startswith("stix2.v21")
# ... the same dictionary inside a bundle parsed with version="2.1" must too.
b = parse({"type": "bundle", "id": "bundle--" + V4, "objects": [ident]}, version="2.1")
inner = b.objects[0]
if not type(inner).__module__.startswith("stix2.v21"):
    failures.append("parse(bundle, version='2.1') produced inner %s" % type(inner))

# (b) strictness: an id with a UUIDv1 is fine for a direct 2.1 parse ...
ident_v1 = dict(ident, id="identity--" + V1)
parse(ident_v1, version="2.1")
try:
    parse({"type": "bundle", "id": "bundle--" + V4, "objects": [ident_v1]}, version="2.1")
except Exception as e:
    failures.append("parse(bundle, version='2.1') rejected an id a direct 2.1 parse accepts: %s" % type(e).__name__)

# (c) version="2.0" named: a 2.1-style SCO (top-level id, UUIDv1) is rejected by
# a direct 2.0 parse ...
sco = {"type": "file", "id": "file--" + V1, "name": "x"}
try:
    parse(sco, version="2.0")
    direct_ok = True
except Exception:
    direct_ok = False
assert not direct_ok
# ... so it must not be accepted (as a 2.1 object!) through a 2.0 bundle.
try:
    b = parse({"type": "bundle", "id": "bundle--" + V4, "spec_version": "2.0", "objects": [sco]}, version="2.0")
    failures.append("parse(bundle, version='2.0') accepted inner %s with a UUIDv1 id" % type(b.objects[0]))
except Exception:
    pass

assert not failures, "\n".join(failures)
print("ok")
