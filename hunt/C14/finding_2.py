import os, sys; sys.path.insert(0, os.getcwd())
# C14: FileSystemSink.add(..., version=V) must interpret the content as V for
# every accepted input shape.  For a bundle given as dict / JSON text the
# version is applied to the bundle wrapper only; the contained objects are
# auto-detected, unlike add(obj), add([obj]) and MemorySink.add(bundle).
import json, tempfile
import stix2
from stix2 import FileSystemSink, MemoryStore

V1 = "5676a286-b994-11f1-827d-02fc00000001"
V4 = "aea334ae-dcd9-4c9c-96a1-afcbd24c4dc3"
ident = {
    "type": "identity", "id": "identity--" + V4,
    "created": "2017-01-01T00:00:00.000Z", "modified": "2017-01-01T00:00:00.000Z",
    "name": "n", "identity_class": "individual",
}


def stored(data, version):
    d = tempfile.mkdtemp()
    FileSystemSink(d).add(data, version=version)
    out = []
    for root, _, files in os.walk(d):
        for f in files:
            with open(os.path.join(root, f)) as fh:
                out.append(json.load(fh))
    return out


failures = []
single = stored(ident, "2.1")
assert single[0].get("spec_version") == "2.1"          # direct: honoured
aslist = stored([ident], "2.1")
assert aslist[0].get("spec_version") == "2.1"          # list: honoured
ms = MemoryStore()
ms.add({"type": "bundle", "id": "bundle--" + V4, "objects": [ident]}, version="2.1")
assert type(ms.get(ident["id"])).__module__.startswith("stix2.v21")   # memory sink: honoured

bundle = {"type": "bundle", "id": "bundle--" + V4, "objects": [ident]}
for form in (bundle, json.dumps(bundle)):
    got = stored(form, "2.1")
    if got[0].get("spec_version") != "2.1":
        failures.append("FileSystemSink.add(%s bundle, version='2.1') stored the identity as %r" % (type(form).__name__, got[0].get("spec_version", "2.0 (no spec_version)")))

# strictness: id with UUIDv1 is accepted by a direct 2.1 add, must be through a bundle too
ident_v1 = dict(ident, id="identity--" + V1)
stored(ident_v1, "2.1")
try:
    stored({"type": "bundle", "id": "bundle--" + V4, "objects": [ident_v1]}, "2.1")
except Exception as e:
    failures.append("FileSystemSink.add(bundle, version='2.1') rejected an id that add(obj, version='2.1') accepts: %s" % type(e).__name__)

assert not failures, "\n".join(failures)
print("ok")
