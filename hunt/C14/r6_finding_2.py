import os, sys; sys.path.insert(0, os.getcwd())
# C14, clause "... to any store, source or sink operation that accepts one --
# the content is interpreted as exactly that version, with the same
# validation strictness as a direct parse" / "acceptance of ids that only
# relaxed mode admits".
#
# memory._add() never looks at a bundle wrapper: it only takes the members
# out.  So MemorySink.add / MemoryStore(...) / load_from_file accept, under
# any named version, a bundle that parse(..., version=...) refuses:
#   (a) a bundle id that only the relaxed (interoperability) mode admits
#       (nil UUID), version='2.0' and version='2.1';
#   (b) a 2.0 bundle (it has "spec_version") given with version='2.1' and
#       allow_custom=False - as 2.1 content that is an unexpected property.
import json, tempfile, shutil
import stix2
from stix2.datastore.memory import MemorySink, MemoryStore, MemorySource

TS = "2020-01-01T00:00:00.000Z"
ident = {
    "type": "identity", "id": "identity--2d5b7c9e-3f1a-4b6d-8e2f-0a1b2c3d4e5f",
    "created": TS, "modified": TS, "name": "x", "identity_class": "individual",
}
nil_bundle = {
    "type": "bundle", "id": "bundle--00000000-0000-0000-0000-000000000000",
    "spec_version": "2.0", "objects": [ident],
}
nil21_bundle = {k: v for k, v in nil_bundle.items() if k != "spec_version"}
good20_bundle = dict(nil_bundle, id="bundle--2d5b7c9e-3f1a-4b6d-8e2f-0a1b2c3d4e5f")


def refused(f):
    try:
        f()
    except Exception:
        return True
    return False


def via_file(data, version):
    tmp = tempfile.mkdtemp()
    try:
        p = os.path.join(tmp, "b.json")
        with open(p, "w") as f:
            json.dump(data, f)
        MemorySource(allow_custom=False).load_from_file(p, version=version)
    finally:
        shutil.rmtree(tmp)


problems = []
for data, version, label in (
    (nil_bundle, "2.0", "nil-uuid bundle id, version='2.0'"),
    (nil21_bundle, "2.1", "nil-uuid bundle id, version='2.1'"),
    (good20_bundle, "2.1", "2.0 bundle (spec_version) read as 2.1"),
):
    # the direct parse refuses it ...
    assert refused(lambda: stix2.parse(data, allow_custom=False, version=version)), label
    # ... so every store operation given the same version has to refuse it too
    for name, op in (
        ("MemorySink.add", lambda: MemorySink(allow_custom=False).add(data, version=version)),
        ("MemoryStore()", lambda: MemoryStore(data, allow_custom=False, version=version)),
        ("MemorySource.load_from_file", lambda: via_file(data, version)),
    ):
        if not refused(op):
            problems.append("%s accepted: %s" % (name, label))

assert not problems, "\n".join(problems)
print("ok")
