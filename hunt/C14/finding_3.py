import os, sys; sys.path.insert(0, os.getcwd())
# C14: FileSystemSource.get/all_versions/query(version=V) must interpret what is
# read as V.  When the object file is a bundle (written by a sink with
# bundlify=True) the version is applied to the bundle wrapper only and the
# object that is actually returned is auto-detected.
import tempfile
import stix2
from stix2 import FileSystemSink, FileSystemSource

V4 = "aea334ae-dcd9-4c9c-96a1-afcbd24c4dc3"
ident = {
    "type": "identity", "id": "identity--" + V4,
    "created": "2017-01-01T00:00:00.000Z", "modified": "2017-01-01T00:00:00.000Z",
    "name": "n", "identity_class": "individual",
}

plain = tempfile.mkdtemp()
FileSystemSink(plain).add(ident)
bundled = tempfile.mkdtemp()
FileSystemSink(bundled, bundlify=True).add(ident)

ref = FileSystemSource(plain).get(ident["id"], version="2.1")
assert type(ref).__module__.startswith("stix2.v21"), type(ref)     # plain file: honoured

src = FileSystemSource(bundled)
failures = []
for name, call in (
    ("get", lambda: src.get(ident["id"], version="2.1")),
    ("all_versions", lambda: src.all_versions(ident["id"], version="2.1")[0]),
    ("query", lambda: src.query(version="2.1")[0]),
):
    obj = call()
    if not type(obj).__module__.startswith("stix2.v21"):
        failures.append("FileSystemSource.%s(version='2.1') on a bundlified file returned %s" % (name, type(obj)))
assert not failures, "\n".join(failures)
print("ok")
