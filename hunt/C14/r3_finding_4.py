import os, sys; sys.path.insert(0, os.getcwd())
# C14, clause "Naming a version never relaxes identifier or any other validation."
# Naming a version in which the object's type has no class makes the parser (and
# every store operation forwarding to it with allow_custom=True, the stores'
# default) return / store the raw dictionary with NO validation at all, whereas
# the same content without version= is validated and refused.
import stix2
from stix2.exceptions import STIXError

loc = {
    "type": "location", "spec_version": "2.1",
    "id": "location--NOT-A-UUID",
    "created": "2020-01-01T00:00:00.000Z", "modified": "2020-01-01T00:00:00.000Z",
    "country": "us",
}


def accepted(f):
    try:
        f()
        return True
    except (STIXError, ValueError):
        return False


# no version named: the malformed identifier is refused
assert not accepted(lambda: stix2.parse(loc, allow_custom=True))
assert not accepted(lambda: stix2.MemoryStore().add(loc))
assert not accepted(lambda: stix2.parse(loc, allow_custom=True, version="2.1"))

relaxed = []
if accepted(lambda: stix2.parse(loc, allow_custom=True, version="2.0")):
    relaxed.append("parse(..., allow_custom=True, version='2.0')")
if accepted(lambda: stix2.MemoryStore().add(loc, version="2.0")):
    relaxed.append("MemoryStore().add(..., version='2.0')")
if accepted(lambda: stix2.MemoryStore(loc, version="2.0")):
    relaxed.append("MemoryStore(..., version='2.0')")
assert not relaxed, "naming a version let an invalid identifier through: %s" % relaxed
print("ok")
