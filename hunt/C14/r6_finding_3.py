import os, sys; sys.path.insert(0, os.getcwd())
# C14, clause "with no version named, content the library produced for
# version V is recognised as version V".
#
# detect_spec_version() decides "2.1" for any object which has an id, no
# spec_version, and a type found among the *registered 2.1 observables*.  The
# two versions have separate registries, so the same custom type name may be
# a 2.0 custom object and a 2.1 custom observable.  From the moment the 2.1
# observable is registered, the 2.0 objects of that type which the library
# itself produced are no longer recognised as 2.0: parse() hands them to the
# 2.1 observable class (silently with allow_custom=True, ExtraPropertiesError
# otherwise).  With version="2.0" named they are still read correctly.
import json
import stix2
from stix2 import v20, v21
from stix2.properties import StringProperty
from stix2.datastore.memory import MemoryStore


@v20.CustomObject('x-c14-dual', [('name', StringProperty(required=True))])
class Dual20(object):
    pass


obj = Dual20(name='a')
text = obj.serialize()

assert type(stix2.parse(text)) is Dual20            # recognised as 2.0
assert type(stix2.parse(text, version="2.0")) is Dual20


@v21.CustomObservable('x-c14-dual', [('name', StringProperty(required=True))], ['name'])
class Dual21(object):
    pass


assert type(stix2.parse(text, version="2.0")) is Dual20, "named version"

problems = []
for allow_custom in (False, True):
    try:
        r = stix2.parse(text, allow_custom=allow_custom)
        if type(r) is not Dual20:
            problems.append("parse(allow_custom=%s): %s, a %s" % (allow_custom, type(r).__name__, type(r).__mro__[2]))
    except Exception as e:
        problems.append("parse(allow_custom=%s): %s: %s" % (allow_custom, type(e).__name__, e))

ms = MemoryStore()       # allow_custom=True is the default of the memory store
ms.add(json.loads(text))
r = ms.get(obj.id)
if type(r) is not Dual20:
    problems.append("MemoryStore.add/get: %s, a %s" % (type(r).__name__, type(r).__mro__[2]))

assert not problems, "2.0 content no longer recognised as 2.0:\n  " + "\n  ".join(problems)
print("ok")
