import os, sys; sys.path.insert(0, os.getcwd())
"""
C14 on the clean tree: TAXIICollectionSink.add(<dict>, version=...) accepts a
version but ignores it for a non-bundle dict: the wrapper (and therefore the
interpretation of the object) is chosen from the presence of 'spec_version'
in the content, never from the requested version.

taxii2client is not installed here, so the module-level availability flag is
switched on and a minimal stand-in collection records what is pushed; the code
under test (TAXIICollectionSink.add) is the library's own, unmodified.
"""
import json

import stix2
import stix2.datastore.taxii as taxii
from stix2 import parse

if not taxii._taxii2_client:
    taxii._taxii2_client = True
    taxii.ValidationError = type("ValidationError", (Exception,), {})


class FakeCollection(object):
    can_write = True
    can_read = True

    def __init__(self):
        self.pushed = []

    def add_objects(self, bundle):
        if isinstance(bundle, bytes):
            bundle = bundle.decode("utf-8")
        self.pushed.append(json.loads(bundle))


ident = {
    "type": "identity",
    "id": "identity--311b2d2d-f010-4473-83ec-1edf84858f4c",
    "created": "2020-01-01T00:00:00.000Z",
    "modified": "2020-01-01T00:00:00.000Z",
    "name": "ACME",
    "identity_class": "organization",
}

# what a direct parse with the named version says this content is
direct = parse(dict(ident), version="2.1")
assert type(direct) is stix2.v21.Identity
expected = json.loads(direct.serialize())
assert expected["spec_version"] == "2.1"

# the same content, as a JSON string, IS interpreted as 2.1 by the sink ...
coll = FakeCollection()
taxii.TAXIICollectionSink(coll).add(json.dumps(ident), version="2.1")
assert coll.pushed[0]["objects"][0].get("spec_version") == "2.1", coll.pushed[0]

# ... and so must the dict be.
coll = FakeCollection()
taxii.TAXIICollectionSink(coll).add(dict(ident), version="2.1")
pushed = coll.pushed[0]
obj = pushed["objects"][0]
assert obj.get("spec_version") == "2.1", (
    "TAXIICollectionSink.add(dict, version='2.1') pushed the object as 2.0 "
    "content: %r" % (pushed,)
)
assert "spec_version" not in pushed, pushed   # a 2.1 bundle wrapper

# strictness: a UUIDv1 identifier is fine in 2.1, invalid in 2.0
ident1 = dict(ident, id="identity--a9e0f1de-7d3c-11ee-b962-0242ac120002")
parse(dict(ident1), version="2.1")
coll = FakeCollection()
taxii.TAXIICollectionSink(coll).add(dict(ident1), version="2.1")
assert coll.pushed and coll.pushed[0]["objects"][0].get("spec_version") == "2.1"
print("ok")
