import os, sys; sys.path.insert(0, os.getcwd())
# C14, clauses "the content is interpreted as exactly that version, with the same
# validation strictness as a direct parse" (store / sink operations that accept a
# version).
# When the content is handed over as an already instantiated STIX object instead
# of a dict, parse() honours the named version but the store operations that
# accept a version silently ignore it.
import tempfile
import stix2
from stix2 import v20, v21

i20 = v20.Identity(name="a", identity_class="individual")

direct = stix2.parse(i20, version="2.1")
assert isinstance(direct, v21.Identity)          # the parser honours version=

problems = []

s = stix2.MemoryStore()
s.add(i20, version="2.1")
if not isinstance(s.get(i20.id), v21.Identity):
    problems.append("MemoryStore.add(obj, version='2.1') -> %s" % type(s.get(i20.id)))

s = stix2.MemoryStore(i20, version="2.1")
if not isinstance(s.get(i20.id), v21.Identity):
    problems.append("MemoryStore(obj, version='2.1') -> %s" % type(s.get(i20.id)))

s = stix2.MemorySource([i20], version="2.1")
if not isinstance(s.get(i20.id), v21.Identity):
    problems.append("MemorySource([obj], version='2.1') -> %s" % type(s.get(i20.id)))

d = tempfile.mkdtemp()
stix2.FileSystemSink(d).add(i20, version="2.1")
back = stix2.FileSystemSource(d).get(i20.id)
if not isinstance(back, v21.Identity):
    problems.append("FileSystemSink.add(obj, version='2.1') wrote %s" % type(back))

assert not problems, problems
print("ok")
