import os, sys; sys.path.insert(0, os.getcwd())
# C14, clause "with no version named, content the library produced for
# version V is recognised as version V".
#
# A STIX 2.0 SDO that carries a custom property called "spec_version" (legal
# with allow_custom=True: 2.0 SDOs define no such property) is produced by the
# v20 classes, but when its serialisation is read back with no version named,
# detect_spec_version() believes the custom property and the content comes
# back as a 2.1 object (parse, MemoryStore, FileSystemStore alike).
import json, tempfile, shutil
import stix2
from stix2 import v20
from stix2.datastore.memory import MemoryStore
from stix2.datastore.filesystem import FileSystemStore

obj = v20.Identity(
    name="x", identity_class="individual", spec_version="2.1",
    allow_custom=True,
)
assert type(obj).__module__ == "stix2.v20.sdo"
text = obj.serialize()

problems = []

back = stix2.parse(text, allow_custom=True)
if type(back).__module__ != "stix2.v20.sdo":
    problems.append("parse: %r" % type(back))

ms = MemoryStore(allow_custom=True)
ms.add(json.loads(text))
got = ms.get(obj.id)
if type(got).__module__ != "stix2.v20.sdo":
    problems.append("MemoryStore.add/get: %r" % type(got))

tmp = tempfile.mkdtemp()
try:
    fs = FileSystemStore(tmp, allow_custom=True)
    fs.add(obj)                      # written as it is (a v20 object)
    got = fs.get(obj.id)             # read back, no version named
    if type(got).__module__ != "stix2.v20.sdo":
        problems.append("FileSystemStore.add/get: %r" % type(got))
finally:
    shutil.rmtree(tmp)

assert not problems, "2.0 content recognised as another version: %s" % problems
print("ok")
