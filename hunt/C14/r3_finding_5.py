import os, sys; sys.path.insert(0, os.getcwd())
# C14, clauses "interpreted as exactly that version" / "Naming a version never
# relaxes identifier or any other validation."
# The 2.1-only "new-sdo / new-sco / new-sro extension definition" escape hatch of
# dict_to_stix2() is applied whatever version is named.  With version='2.0'
# (a version that has no extension definitions) and allow_custom=False, content
# that is refused without version= is returned as an unvalidated dict.
import stix2
from stix2.exceptions import STIXError

loc = {
    "type": "location", "spec_version": "2.1",
    "id": "location--NOT-A-UUID",
    "created": "2020-01-01T00:00:00.000Z", "modified": "2020-01-01T00:00:00.000Z",
    "country": "us",
    "extensions": {
        "extension-definition--04e8054c-ec69-4029-aee3-8bb2ab6ee041": {"extension_type": "new-sdo"},
    },
}


def outcome(f):
    try:
        return ("accepted", type(f()).__name__)
    except (STIXError, ValueError) as e:
        return ("refused", type(e).__name__)


plain = outcome(lambda: stix2.parse(loc))                      # strict, no version named
named = outcome(lambda: stix2.parse(loc, version="2.0"))        # strict, version named
assert plain[0] == "refused", plain

# the same dictionary without the 2.1 extension mechanism is refused under 2.0
bare = {k: v for k, v in loc.items() if k != "extensions"}
assert outcome(lambda: stix2.parse(bare, version="2.0"))[0] == "refused"

assert named[0] == "refused", "parse(content, version='2.0') with allow_custom=False: %r (without version=: %r)" % (named, plain)
print("ok")
