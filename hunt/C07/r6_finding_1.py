import os, sys; sys.path.insert(0, os.getcwd())
import stix2
from stix2 import markings

# An SDO which the library itself accepted (parse(..., interoperability=True)
# admits identifiers whose UUID part is not an RFC 4122 variant / not a UUIDv4
# for STIX 2.0).  C07: after adding, the marking is reported for those
# selectors, and every result is a valid new version with unchanged content.

RED = stix2.TLP_RED.id

cases = [
    # 2.1 SDO, UUID with a non-RFC-4122 variant nibble ("0" instead of 8..b)
    {"type": "malware", "spec_version": "2.1", "id": "malware--c8d2fae5-7271-100c-081d-931a4caf20b9",
     "created": "2017-01-01T12:34:56.000Z", "modified": "2017-01-01T12:34:56.000Z", "name": "x", "is_family": False},
    # 2.0 SDO whose id is a (perfectly ordinary) UUIDv1, created_by_ref likewise
    {"type": "malware", "id": "malware--6ba7b810-9dad-11d1-80b4-00c04fd430c8",
     "created_by_ref": "identity--6ba7b811-9dad-11d1-80b4-00c04fd430c8",
     "created": "2017-01-01T12:34:56.000Z", "modified": "2017-01-01T12:34:56.000Z", "name": "x", "labels": ["trojan"]},
]

for data in cases:
    obj = stix2.parse(data, interoperability=True)     # accepted by the library
    assert obj.id == data["id"]
    assert obj.get_markings("name") == [] and not obj.is_marked(RED, "name")

    new = markings.add_markings(obj, RED, "name")       # granular
    assert markings.get_markings(new, "name") == [RED]
    assert new.is_marked(RED, "name")
    assert new.id == obj.id and new.name == obj.name and new.modified > obj.modified

    new = obj.add_markings(RED)                         # object level
    assert new.get_markings() == [RED]
    back = new.remove_markings(RED)
    assert back.get_markings() == []

print("ok")
