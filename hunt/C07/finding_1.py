import os, sys; sys.path.insert(0, os.getcwd())
# C07 clean-tree finding 1: is_marked() with a LIST of markings is not a function of the
# marking set that get_markings() reports under the same options: the granular half demands
# ALL listed markings, the object-level half (and the documented contract: "if ANY of the
# provided marking identifiers match, True is returned") demands ANY, and the combined
# dispatcher ORs the two.  So two queries about the same property with the same flags, both
# naming one marking that IS reported and one that is NOT, give opposite answers depending
# on whether the reported marking happens to be object-level or granular.
import stix2
from stix2 import markings

OBJ_M = "marking-definition--613f2e26-407d-48c7-9eca-b8e91df99dc9"   # object level
GRAN_M = "marking-definition--34098fce-860f-48ae-8e50-ebd3cc5e41da"  # granular on description
ABSENT = "marking-definition--f88d31f6-486f-44da-b317-01333bde0b82"  # nowhere

m = stix2.v21.Malware(
    name="n", is_family=False, description="d",
    object_marking_refs=[OBJ_M],
    granular_markings=[{"marking_ref": GRAN_M, "selectors": ["description"]}],
)

reported = set(markings.get_markings(m, "description", inherited=True))
assert reported == {OBJ_M, GRAN_M}, reported

# single-marking queries agree with get_markings
for mk in (OBJ_M, GRAN_M, ABSENT):
    assert markings.is_marked(m, mk, "description", inherited=True) == (mk in reported)

a = markings.is_marked(m, [OBJ_M, ABSENT], "description", inherited=True)
b = markings.is_marked(m, [GRAN_M, ABSENT], "description", inherited=True)
print("is_marked([reported-object-level, absent]) =", a)
print("is_marked([reported-granular,     absent]) =", b)
# Whatever list semantics one picks (ANY or ALL), it must be the same function of the
# reported set for both calls: both lists contain exactly one reported and one absent marking.
assert a == b, "is_marked(list) disagrees with get_markings: %r vs %r for equally-reported lists" % (a, b)

# and the documented ANY semantics for the purely granular query
assert markings.is_marked(m, [GRAN_M, ABSENT], "description") == \
    any(x in markings.get_markings(m, "description") for x in [GRAN_M, ABSENT])
print("ok")
