import os, sys; sys.path.insert(0, os.getcwd())
# C07 clean-tree finding 2: the property quantifies over marking-definition objects (they carry
# the add/remove/set/clear methods via _MarkingsMixin and the module docs advertise them:
# "These functions are also available as methods on SDOs, SROs, and Marking Definitions"),
# but every mutating operation on a MarkingDefinition raises TypeNotVersionableError because
# all of them go through versioning.new_version().  "After adding, the marking is reported"
# therefore never holds for marking definitions; only the read-only queries work.
import stix2
from stix2 import markings

M0 = "marking-definition--613f2e26-407d-48c7-9eca-b8e91df99dc9"
for v in (stix2.v20, stix2.v21):
    md = v.MarkingDefinition(definition_type="statement", definition=v.StatementMarking("c"))
    assert md.get_markings() == [] and not md.is_marked(M0)
    new = md.add_markings(M0)                        # object level
    assert new.is_marked(M0) and new.get_markings() == [M0]
    new = md.add_markings(M0, "definition_type")     # granular
    assert new.is_marked(M0, "definition_type")
    assert markings.get_markings(new, "definition_type") == [M0]
    back = new.remove_markings(M0, "definition_type")
    assert markings.get_markings(back, "definition_type") == []
print("ok")
