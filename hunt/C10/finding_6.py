import os, sys; sys.path.insert(0, os.getcwd())
# C10 finding 6: a programmatically built object path whose key contains a quote or a backslash is printed
# quoted but NOT escaped, so the printed pattern does not parse (or parses to a different key).
from stix2.patterns import (ObjectPath, EqualityComparisonExpression, ObservationExpression,
                            BasicObjectPathComponent, StringConstant)
from stix2.pattern_visitor import create_pattern_object as cpo

def unescape(s):
    out = []; i = 0
    while i < len(s):
        if s[i] == "\\" and i + 1 < len(s):
            out.append(s[i+1]); i += 2
        else:
            out.append(s[i]); i += 1
    return "".join(out)

bad = []
for key in ("it's", "a\\b", "x'", "tail\\"):
    for comp in (key, BasicObjectPathComponent(key, True), StringConstant(key)):
        pat = ObservationExpression(EqualityComparisonExpression(ObjectPath("file", ["extensions", comp]), 1))
        text = str(pat)
        try:
            back = cpo(text, version="2.1")
            got = unescape(back.operand.lhs.property_path[1].property_name)
            if got != key:
                bad.append((key, type(comp).__name__, text, "parsed key %r" % got))
        except Exception as e:
            bad.append((key, type(comp).__name__, text, "%s: %s" % (type(e).__name__, str(e)[:60])))
for b in bad:
    print(b)
assert not bad
