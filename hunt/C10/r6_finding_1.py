import os, sys; sys.path.insert(0, os.getcwd())
from stix2patterns.v21.pattern import Pattern
from stix2.pattern_visitor import create_pattern_object

# A timestamp literal with year 0000 is a valid literal of the installed
# 2.1 (and 2.0) grammar and a valid RFC 3339 timestamp; the model cannot hold
# it (datetime.MINYEAR is 1) and create_pattern_object() raises ValueError
# instead of giving a model that prints the same pattern.
text = "[x:y = t'0000-06-15T12:00:00Z']"
Pattern(text)       # the installed parser accepts it
for version in ("2.1", "2.0"):
    printed = str(create_pattern_object(text, version=version))
    assert printed == text, printed
# (the neighbouring year 0001 works)
assert str(create_pattern_object("[x:y = t'0001-06-15T12:00:00Z']")) == "[x:y = t'0001-06-15T12:00:00Z']"
print("ok")
