import os, sys; sys.path.insert(0, os.getcwd())
"""C10 (the string-only part of hunt/C10/r5_finding_1.py; the `=` / IN part is the documented best-effort guess of make_constant):
a Python str given to LIKE / MATCHES / ISSUBSET / ISSUPERSET must print as a string literal whatever it looks like."""
from stix2.patterns import *
from stix2.pattern_visitor import create_pattern_object
v = "2020-01-01T00:00:00Z"
for k, op in ((LikeComparisonExpression, "LIKE"), (MatchesComparisonExpression, "MATCHES"),
              (IsSubsetComparisonExpression, "ISSUBSET"), (IsSupersetComparisonExpression, "ISSUPERSET")):
    t = str(ObservationExpression(k("file:name", v)))
    assert t == "[file:name %s '%s']" % (op, v), t
    assert str(create_pattern_object(t, version="2.1")) == t
print("ok")
