import os, sys; sys.path.insert(0, os.getcwd())
# A float literal too large for a double is printed as "inf", which is not a pattern constant.
from stix2.pattern_visitor import create_pattern_object
from stix2patterns.v21.pattern import Pattern

for text in ["[file:size = " + "1" + "0" * 309 + ".0]",
             "[file:size > -" + "9" * 320 + ".5]",
             "[file:size = 1] WITHIN " + "9" * 320 + ".0 SECONDS"]:
    Pattern(text)  # the input is a valid 2.1 pattern
    out = str(create_pattern_object(text, version="2.1"))
    assert "inf" not in out, out[:80]
    Pattern(out)
print("ok")
