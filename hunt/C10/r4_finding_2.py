import os, sys; sys.path.insert(0, os.getcwd())
"""BinaryConstant checks its argument with base64.b64decode(value), which
(validate=False) silently skips every character outside the base64 alphabet.
So e.g. the text produced by base64.encodebytes() (ends with a newline, has a
newline every 76 characters) or 'YW Jj' is accepted, stored verbatim and printed
into the pattern, which then does not parse.
"""
import base64
from stix2.patterns import *
from stix2.pattern_visitor import create_pattern_object

for data in (b"a", b"this is a test", b"x" * 100):
    for text in (base64.encodebytes(data).decode("ascii"), base64.b64encode(data).decode("ascii")):
        try:
            const = BinaryConstant(text)
        except ValueError:
            continue   # refusing the value is fine
        printed = str(ObservationExpression(EqualityComparisonExpression("artifact:payload_bin", const)))
        parsed = create_pattern_object(printed, version="2.1")   # must parse back
        assert base64.b64decode(parsed.operand.rhs.value) == data, (text, printed)
        assert str(parsed) == printed
print("ok")
