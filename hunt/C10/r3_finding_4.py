import os, sys; sys.path.insert(0, os.getcwd())
# BinaryConstant "supports [the value] with or without a 'b'" (comment in __init__), as HexConstant
# does for h'..', but only strips the b'..' wrapper when from_parse_tree=True.  Given the literal
# form directly, the lenient base64.b64decode() check lets it through and the model prints text
# that is not a pattern.
import stix2
from stix2.pattern_visitor import create_pattern_object

assert str(stix2.HexConstant("h'00ff'")) == "h'00ff'"
for v in ["b'YQ=='", "b'YWI='"]:
    expr = stix2.ObservationExpression(stix2.EqualityComparisonExpression("artifact:payload_bin", stix2.BinaryConstant(v)))
    text = str(expr)
    back = create_pattern_object(text, version="2.1")   # ParseException on the clean tree
    assert str(back) == text
    assert back.operand.rhs.value == v[2:-1]
print("ok")
