import os, sys; sys.path.insert(0, os.getcwd())
# A quoted object-path key whose (unescaped) text begins with a quote character
# loses its quoting/escaping when printed.
from stix2.pattern_visitor import create_pattern_object
from stix2patterns.v21.pattern import Pattern

def roundtrip(text):
    out = str(create_pattern_object(text, version="2.1"))
    Pattern(out)  # must still be a valid pattern (raises ParseException otherwise)
    again = str(create_pattern_object(out, version="2.1"))
    assert again == out, (text, out, again)
    return out

# key is the 4 characters  'abc   (quote a b c); valid 2.1 pattern
t1 = r"[file:extensions.'\'abc' = 1]"
Pattern(t1)
o1 = roundtrip(t1)
assert o1 == t1, (t1, o1)

# key is the 3 characters  'a'  ; printing must not turn it into the key  a
t2 = r"[file:extensions.'\'a\'' = 1]"
Pattern(t2)
o2 = roundtrip(t2)
assert o2 == t2, (t2, o2)
print("ok")
