import os, sys; sys.path.insert(0, os.getcwd())
# A valid, satisfiable pattern is refused: the visitor appends the 3rd, 4th ... operand of an
# OR chain to the existing OrBooleanExpression without updating its root_types, so the
# parenthesised OR group is believed to be about {a, b} only and the AND with c:... "cannot
# be satisfied".
from stix2.pattern_visitor import create_pattern_object
from stix2patterns.v21.pattern import Pattern

two = "[(domain-name:value = 'x' OR file:name = 'a') AND domain-name:value LIKE '%.com']"
assert str(create_pattern_object(two, version="2.1")) == two

for text in [
    "[(file:name = 'a' OR ipv4-addr:value = '1.2.3.4' OR domain-name:value = 'x') AND domain-name:value LIKE '%.com']",
    "[domain-name:value LIKE '%.com' AND (file:name = 'a' OR ipv4-addr:value = '1.2.3.4' OR domain-name:value = 'x')]",
]:
    Pattern(text)  # valid 2.1 pattern
    out = str(create_pattern_object(text, version="2.1"))  # ValueError on the clean tree
    assert out == text, (text, out)
print("ok")
