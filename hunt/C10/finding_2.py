import os, sys; sys.path.insert(0, os.getcwd())
# C10 finding 2: a quoted key path step whose text is a grammar keyword loses its quotes on print,
# and the printed text is no longer a valid pattern.
from stix2.pattern_visitor import create_pattern_object as cpo

bad = []
for version in ("2.1", "2.0"):
    for kw in ("NOT", "IN", "AND", "OR", "LIKE", "MATCHES", "START", "STOP", "true", "false", "WITHIN", "TIMES", "LAST"):
        src = "[file:extensions.'%s' = 1]" % kw
        text = str(cpo(src, version=version))     # parses fine
        try:
            again = str(cpo(text, version=version))
        except Exception as e:
            bad.append((version, src, text, "%s: %s" % (type(e).__name__, e)))
            continue
        if again != text:
            bad.append((version, src, text, again))
for b in bad:
    print(b)
assert not bad, "%d printed patterns are not valid patterns" % len(bad)
