import os, sys; sys.path.insert(0, os.getcwd())
# C10 finding 8: StartStopQualifier accepts StringConstant arguments and prints them as plain string
# literals; neither installed grammar (2.0 or 2.1) accepts that, both require t'...' literals.
from stix2.patterns import (StartStopQualifier, StringConstant, QualifiedObservationExpression,
                            ObservationExpression, EqualityComparisonExpression)
from stix2.pattern_visitor import create_pattern_object as cpo

q = StartStopQualifier(StringConstant("2020-01-01T00:00:00Z"), StringConstant("2020-01-02T00:00:00Z"))
pat = QualifiedObservationExpression(ObservationExpression(EqualityComparisonExpression("file:a", 1)), q)
text = str(pat)
print(text)
errors = []
for version in ("2.1", "2.0"):
    try:
        assert str(cpo(text, version=version)) == text
    except Exception as e:
        errors.append((version, type(e).__name__, str(e)[:80]))
print(errors)
assert len(errors) < 2, "printed qualifier is not valid for any installed grammar"
