import os, sys; sys.path.insert(0, os.getcwd())
"""HexConstant validates with re.match('^([a-fA-F0-9]{2})+$', value); '$' also
matches before a trailing newline, so HexConstant('00ff\\n') (a line read from a
file) is accepted, the newline is stored and printed inside h'...' and the
pattern does not parse.
"""
from stix2.patterns import *
from stix2.pattern_visitor import create_pattern_object

for text in ("00ff", "00ff\n", "h'00ff'"):
    try:
        const = HexConstant(text)
    except ValueError:
        continue   # refusing the value is fine
    printed = str(ObservationExpression(EqualityComparisonExpression("file:magic_number_hex", const)))
    parsed = create_pattern_object(printed, version="2.1")   # must parse back
    assert parsed.operand.rhs.value.lower() == "00ff", (text, printed)
print("ok")
