import os, sys; sys.path.insert(0, os.getcwd())
# A python str given as right-hand side of a comparison is a STRING constant
# of the pattern.  make_constant() first tries TimestampConstant(value), so a
# str that happens to look like a timestamp silently becomes a t'...' literal:
# the constant kind changes, and for LIKE / MATCHES / ISSUBSET / ISSUPERSET
# (which only take string literals) the printed pattern does not parse.
from stix2.patterns import (
    EqualityComparisonExpression, InComparisonExpression,
    LikeComparisonExpression, MatchesComparisonExpression,
    ObservationExpression, StringConstant,
)
from stix2.pattern_visitor import create_pattern_object

value = "2020-01-01T00:00:00Z"

for klass, op in (
    (LikeComparisonExpression, "LIKE"), (MatchesComparisonExpression, "MATCHES"),
    (EqualityComparisonExpression, "="),
):
    text = str(ObservationExpression(klass("file:name", value)))
    expected = "[file:name %s '%s']" % (op, value)
    # must be the same as what an explicit StringConstant gives ...
    assert str(ObservationExpression(klass("file:name", StringConstant(value)))) == expected
    # ... and must parse back to itself
    try:
        back = str(create_pattern_object(text, version="2.1"))
    except Exception as e:
        raise AssertionError("%r does not parse: %s" % (text, e))
    assert back == text, (text, back)
    assert text == expected, (text, expected)

text = str(ObservationExpression(InComparisonExpression("file:name", [value, "abc"])))
assert text == "[file:name IN ('%s', 'abc')]" % value, text
print("ok")
