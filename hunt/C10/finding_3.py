import os, sys; sys.path.insert(0, os.getcwd())
# C10 finding 3: two index steps in a row (legal: objectPathComponent objectPathComponent, e.g. a list of lists)
# crash the visitor with AttributeError instead of producing a model.
from stix2.pattern_visitor import create_pattern_object as cpo
from stix2patterns.v21.pattern import Pattern

for src in ("[file:x[1][2] = 1]", "[file:x[*][*] = 1]", "[file:x.y[1][*].z = 1]"):
    Pattern(src)                       # the grammar accepts it (raises ParseException otherwise)
    text = str(cpo(src, version="2.1"))
    print(repr(text))
    assert text == src, (src, text)
    assert str(cpo(text, version="2.1")) == text
