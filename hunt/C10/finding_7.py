import os, sys; sys.path.insert(0, os.getcwd())
# C10 finding 7: the string form of lhs accepted by every comparison class is split naively on ':' and '.',
# so a quoted key containing one of those characters is torn apart and printed as an invalid pattern.
from stix2.patterns import EqualityComparisonExpression, ObservationExpression
from stix2.pattern_visitor import create_pattern_object as cpo

bad = []
for lhs in ("file:extensions.'a.b'", "file:extensions.'a:b'", "windows-registry-key:values[*].'x.y'"):
    wanted = "[%s = 1]" % lhs
    cpo(wanted, version="2.1")          # this is a valid pattern
    text = str(ObservationExpression(EqualityComparisonExpression(lhs, 1)))
    if text != wanted:
        bad.append((lhs, text))
for b in bad:
    print(b)
assert not bad
