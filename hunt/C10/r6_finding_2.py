import os, sys; sys.path.insert(0, os.getcwd())
import stix2
from stix2.pattern_visitor import create_pattern_object

# BinaryConstant("") (the base64 text of zero bytes) is accepted by the model
# class, but it prints as b'', which neither installed grammar accepts (a
# binary literal needs at least one base64 group): a pattern assembled from
# the public classes prints to text that does not parse back.
expr = stix2.ObservationExpression(
    stix2.EqualityComparisonExpression("artifact:payload_bin", stix2.BinaryConstant("")),
)
text = str(expr)
for version in ("2.1", "2.0"):
    again = str(create_pattern_object(text, version=version))   # ParseException
    assert again == text
print("ok")
