import os, sys; sys.path.insert(0, os.getcwd())
"""A quoted key step that contains '[' , given in an object path STRING to a
comparison class, is taken for an index step: the text printed is not a pattern.
(create_ObjectPathComponent looks for '[' anywhere in the step, also inside the quotes.)
"""
from stix2.patterns import *
from stix2.pattern_visitor import create_pattern_object

for lhs, key in [
    ("file:extensions.'a[b'", "a[b"),
    ("file:extensions.'a[0]'.x", "a[0]"),
    ("windows-registry-key:values[*].'x[y]z'", "x[y]z"),
]:
    expr = ObservationExpression(EqualityComparisonExpression(lhs, 1))
    printed = str(expr)
    assert printed == "[%s = 1]" % lhs, (lhs, printed)
    parsed = create_pattern_object(printed, version="2.1")   # must parse
    names = [c.property_name for c in parsed.operand.lhs.property_path]
    assert key in names, (lhs, printed, names)
print("ok")
