import os, sys; sys.path.insert(0, os.getcwd())
# C10 finding 1: the 2.1 grammar's EXISTS comparison is not translated by the visitor.
from stix2.pattern_visitor import create_pattern_object as cpo

src = "[EXISTS file:name]"
obj = cpo(src, version="2.1")          # valid 2.1 pattern: the parser accepts it
text = str(obj)
print(repr(text))
# printing must yield a valid pattern with the same meaning
assert "EXISTS" in text and "file:name" in text, "EXISTS comparison lost on print: %r" % text
again = str(cpo(text, version="2.1"))   # must re-parse
assert again == text, (text, again)

# and combined with another comparison it must not crash either
src2 = "[file:name = 'a' AND EXISTS file:size]"
text2 = str(cpo(src2, version="2.1"))
assert str(cpo(text2, version="2.1")) == text2
