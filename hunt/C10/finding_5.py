import os, sys; sys.path.insert(0, os.getcwd())
# C10 finding 5: the empty hex literal h'' is a valid constant of the grammar (TwoHexDigits*), but the
# visitor's HexConstant(from_parse_tree=True) rejects it.
from stix2.pattern_visitor import create_pattern_object as cpo
from stix2patterns.v21.pattern import Pattern

src = "[file:content = h'']"
Pattern(src)                           # valid for the 2.1 grammar
text = str(cpo(src, version="2.1"))    # ValueError on the clean tree
assert text == src, text
