import os, sys; sys.path.insert(0, os.getcwd())
# C10 finding 4: timestamp literals that the grammar (and the STIX timestamp definition) allow but that
# cannot be turned into the model: more than 6 fractional digits, and a leap second.
from stix2.pattern_visitor import create_pattern_object as cpo
from stix2patterns.v21.pattern import Pattern

for src in ("[file:created = t'2020-01-01T00:00:00.1234567Z']",
            "[file:created = t'2016-12-31T23:59:60Z']",
            "[file:a = 1] START t'2020-01-01T00:00:00.0000001Z' STOP t'2020-01-02T00:00:00Z'"):
    Pattern(src)                       # valid for the 2.1 grammar
    text = str(cpo(src, version="2.1"))    # ValueError on the clean tree
    print(repr(text))
    assert str(cpo(text, version="2.1")) == text
