import os, sys; sys.path.insert(0, os.getcwd())
# A valid pattern made of a few hundred comparison expressions joined by OR
# (an ordinary "list of indicators" pattern) is parsed fine by the
# stix2-patterns parser, but stix2's visitor recurses once per operand of the
# left-deep parse tree and dies with RecursionError (default recursion limit
# 1000; the limit is hit between 300 and 400 operands).  The same happens for
# AND chains, for chains of observation expressions and for long object paths.
from stix2patterns.v21.pattern import Pattern
from stix2.pattern_visitor import create_pattern_object

n = 400
chains = {
    "comparison OR": "[" + " OR ".join("file:size = %d" % i for i in range(n)) + "]",
    "comparison AND": "[" + " AND ".join("file:size = %d" % i for i in range(n)) + "]",
    "observation OR": " OR ".join("[file:size = %d]" % i for i in range(n)),
    "object path": "[file:a" + "".join(".x%d" % i for i in range(n)) + " = 1]",
}
failed = []
for name, text in chains.items():
    Pattern(text)   # the pattern is valid: the parser accepts it
    try:
        out = str(create_pattern_object(text, version="2.1"))
    except RecursionError:
        failed.append(name)
        continue
    assert out == text, name
assert not failed, "RecursionError for valid patterns with %d operands/steps: %s" % (n, failed)
print("ok")
