import os, sys; sys.path.insert(0, os.getcwd())
# A non-empty tuple as the value of a custom property (or inside a dictionary
# property) is kept as a tuple at construction, written as a JSON array and
# parsed back as a list: the parsed object is not equal to the original.
import stix2
from stix2 import v21

obj = v21.Identity(name="a", x_foo=(1, 2), allow_custom=True)
back = stix2.parse(obj.serialize(), allow_custom=True)
assert type(back) is type(obj)
assert back == obj, "x_foo: %r became %r" % (obj["x_foo"], back["x_foo"])
print("ok")
