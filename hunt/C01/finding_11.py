import os, sys; sys.path.insert(0, os.getcwd())
# C01: a custom 2.1 object type declared with extension_name=... gets its 'extensions'
# property appended to the object AFTER construction, i.e. behind the x_ / custom
# properties; the parsed copy has it at its specification position, so the
# re-serialized text differs, and pretty output is not in specification order.
import json
import stix2
from stix2 import v21
from stix2.properties import StringProperty

@v21.CustomObject(
    'x-with-ext', [('name', StringProperty(required=True)), ('x_z', StringProperty())],
    extension_name='extension-definition--c932fcc6-e032-476c-826f-cb970a5a1ade',
)
class WithExt:
    pass

obj = WithExt(name='a', x_z='z')
for opts in ({}, {'pretty': True}, {'indent': 2}, {'include_optional_defaults': True}):
    text = obj.serialize(**opts)
    back = stix2.parse(text)
    assert type(back) is type(obj) and back == obj
    assert back.serialize(**opts) == text, "re-serialization differs for %r:\n%s\n%s" % (opts, text, back.serialize(**opts))
keys = list(json.loads(obj.serialize(pretty=True)))
spec = [k for k in WithExt._properties if k in keys]
assert keys == spec, (keys, spec)
