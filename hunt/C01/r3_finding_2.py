import os, sys; sys.path.insert(0, os.getcwd())
# C01: a STIX 2.0 custom object whose type name is also registered as a STIX 2.1
# custom observable is parsed back as the 2.1 observable class.
import stix2
from stix2 import v20, v21
from stix2.properties import StringProperty


@v20.CustomObject('x-c01-thing', [('name', StringProperty(required=True))])
class Thing20(object):
    pass


@v21.CustomObservable('x-c01-thing', [('name', StringProperty(required=True))], ['name'])
class Thing21(object):
    pass


o = Thing20(name='a')
t = o.serialize()
p = stix2.parse(t, allow_custom=True)
assert type(p) is type(o), "parsed as %r, not %r" % (type(p), type(o))
assert p == o
assert p.serialize() == t
