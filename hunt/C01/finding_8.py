import os, sys; sys.path.insert(0, os.getcwd())
# C01: a STIX 2.0 cyber observable with object references, constructed stand-alone
# (with _valid_refs), serializes fine but stix2.parse() of that text raises.
import stix2
from stix2 import v20

obj = v20.DomainName(value='example.com', resolves_to_refs=['1'], _valid_refs={'1': 'ipv4-addr'})
text = obj.serialize()
back = stix2.parse(text)           # InvalidObjRefError on the clean tree
assert type(back) is type(obj) and back == obj and back.serialize() == text
