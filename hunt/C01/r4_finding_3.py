import os, sys; sys.path.insert(0, os.getcwd())
# A custom property (or any uninterpreted place: dictionary value, unregistered extension) may hold a
# datetime: the library constructs the object and its encoders write the value as a STIX timestamp
# string.  Nothing turns the string back on parse, so the parsed object is not equal to the original.
import datetime
import stix2
from stix2 import v21

o = v21.Identity(name='x', x_seen=datetime.datetime(2020, 1, 2, 3, 4, 5, tzinfo=datetime.timezone.utc), allow_custom=True)
t = o.serialize()
p = stix2.parse(t, allow_custom=True)
assert type(p) is type(o)
assert p.serialize() == t
assert p == o, "x_seen: %r (original) != %r (parsed)" % (o['x_seen'], p['x_seen'])
