import os, sys; sys.path.insert(0, os.getcwd())
# C01: boundary values that construct fine but cannot be serialized at all:
#  (a) a timestamp within a few hours of datetime.min with a positive UTC offset
#      (OverflowError in format_datetime's astimezone),
#  (b) a NaN float in a FloatProperty (min/max comparisons are all False for NaN).
import datetime as dt
import stix2
from stix2 import v21

errors = []
a = v21.Identity(name='x', created=dt.datetime(1, 1, 1, 0, 0, tzinfo=dt.timezone(dt.timedelta(hours=5))),
                 modified=dt.datetime(2000, 1, 1, tzinfo=dt.timezone.utc))
b = v21.Location(latitude=float('nan'), longitude=1.0)
for obj in (a, b):
    try:
        text = obj.serialize()
        back = stix2.parse(text)
        assert back.serialize() == text and type(back) is type(obj)
    except Exception as e:
        errors.append(repr(e))
assert not errors, errors
