import os, sys; sys.path.insert(0, os.getcwd())
# ObservableProperty.clean() does not look at the keys of the 'objects' mapping:
# integer keys are accepted and kept, JSON turns them into strings.
import warnings
warnings.simplefilter('ignore')
import stix2
from stix2 import v20, v21

o = v20.ObservedData(
    first_observed='2020-01-01T00:00:00Z', last_observed='2020-01-01T00:00:00Z',
    number_observed=1,
    objects={0: v20.File(name='x'), 1: {'type': 'directory', 'path': '/'}},
)
t = o.serialize()
p = stix2.parse(t)
assert type(p) is type(o)
assert p.serialize() == t
assert p == o, "round trip not equal: keys %r vs %r" % (list(o['objects']), list(p['objects']))

o = v21.ObservedData(
    first_observed='2020-01-01T00:00:00Z', last_observed='2020-01-01T00:00:00Z',
    number_observed=1, objects={0: v21.File(name='x')},
)
p = stix2.parse(o.serialize())
assert p == o
print("ok")
