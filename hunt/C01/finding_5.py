import os, sys; sys.path.insert(0, os.getcwd())
# C01: pretty=True raises for a legal object one of whose nested dictionary keys is a
# character for which str.isdigit() is true but int() fails (e.g. SUPERSCRIPT TWO);
# every other option set serializes it fine, so the options do not denote the same value.
import json
import stix2
from stix2 import v21

EXT = 'extension-definition--d83fce45-ef58-4c6c-a3f4-1fbc32e98c6e'
obj = v21.Identity(name='x', extensions={EXT: {'extension_type': 'property-extension', '²': 1}})
compact = obj.serialize()
assert stix2.parse(compact) == obj
pretty = obj.serialize(pretty=True)      # ValueError on the clean tree
assert json.loads(pretty) == json.loads(compact)
