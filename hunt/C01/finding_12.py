import os, sys; sys.path.insert(0, os.getcwd())
# C01: an object that went through pickle (the library explicitly supports pickling)
# has timestamps without their precision metadata: it serializes to a different text
# than the equal original, and its own round trip does not reproduce its text.
import pickle
import stix2
from stix2 import v20, v21

for orig in (
    v21.Identity(name='x', created='2020-01-01T00:00:00.120Z', modified='2020-01-01T00:00:00.120Z'),
    v20.Identity(name='x', identity_class='individual', created='2020-01-01T00:00:00.000Z', modified='2020-01-01T00:00:00.000Z'),
):
    obj = pickle.loads(pickle.dumps(orig))
    assert obj == orig and type(obj) is type(orig)
    text = obj.serialize()
    back = stix2.parse(text)
    assert back == obj and type(back) is type(obj)
    assert back.serialize() == text, "%s\n%s" % (text, back.serialize())
