import os, sys; sys.path.insert(0, os.getcwd())
# IntegerProperty.clean() puts no bound on the magnitude (File.size has min=0 only);
# an integer of more than 4300 decimal digits is accepted at construction but the
# object can then not be serialized at all (Python's int -> str conversion limit).
import stix2
from stix2 import v21

o = v21.File(name='x', size=10 ** 4300)        # constructs fine
t = o.serialize()                              # ValueError on the clean tree
p = stix2.parse(t)
assert type(p) is type(o) and p == o and p.serialize() == t
print("ok")
