import os, sys; sys.path.insert(0, os.getcwd())
# C01: a 2.1 bundle that carries an (unparsed, custom) object whose spec_version is
# newer than 2.1 is dispatched to that version on parse; no Bundle class exists for
# it, so parse(..., allow_custom=True) returns a plain dict, not a Bundle.
import stix2
from stix2 import v21

obj = v21.Bundle(
    v21.Identity(name='a'),
    {'type': 'x-foo', 'id': 'x-foo--d83fce45-ef58-4c6c-a3f4-1fbc32e98c6e', 'spec_version': '2.2', 'x': 1},
    allow_custom=True,
)
text = obj.serialize()
back = stix2.parse(text, allow_custom=True)
assert type(back) is type(obj), "parsed as %r instead of %r" % (type(back), type(obj))
assert back == obj
assert back.serialize() == text
