import os, sys; sys.path.insert(0, os.getcwd())
# Two REGISTERED toplevel-property extensions, named in the 'extensions' map in
# non-alphabetical order.  pretty=True writes the nested 'extensions' map with
# its keys sorted, the parser derives the order of the toplevel extension
# properties from the order of that map, so the re-parsed object lists them in
# another order and serialising it again does not reproduce the text.
import stix2
from stix2 import v21
from stix2.properties import IntegerProperty, StringProperty

E1 = "extension-definition--11111111-1111-4111-8111-111111111111"
E3 = "extension-definition--33333333-3333-4333-8333-333333333333"


@v21.CustomExtension(E1, [("rank", IntegerProperty())])
class TL1:
    extension_type = "toplevel-property-extension"


@v21.CustomExtension(E3, [("aaa", StringProperty())])
class TL3:
    extension_type = "toplevel-property-extension"


obj = v21.Identity(
    name="a", rank=1, aaa="q",
    extensions={
        E3: {"extension_type": "toplevel-property-extension"},
        E1: {"extension_type": "toplevel-property-extension"},
    },
)
for opts in ({}, {"sort_keys": True}, {"pretty": True}, {"pretty": True, "include_optional_defaults": True}):
    text = obj.serialize(**opts)
    back = stix2.parse(text)
    assert type(back) is type(obj) and back == obj, opts
    text2 = back.serialize(**opts)
    assert text2 == text, "not byte for byte with %r:\n%s\n---\n%s" % (opts, text, text2)
print("ok")
