import os, sys; sys.path.insert(0, os.getcwd())
# BinaryProperty.clean() accepts a bytes value (base64.b64decode takes bytes) and
# stores it unchanged; the encoder writes it as a JSON string; parse gives a str.
import stix2
from stix2 import v20, v21

for mk in (
    lambda: v21.Artifact(payload_bin=b'YWJj', mime_type='text/plain'),
    lambda: v20.Artifact(payload_bin=b'YWJj', mime_type='text/plain'),
):
    o = mk()
    t = o.serialize()
    p = stix2.parse(t)
    assert type(p) is type(o)
    assert p.serialize() == t
    assert p == o, "round trip not equal: %r vs %r" % (o['payload_bin'], p['payload_bin'])
print("ok")
