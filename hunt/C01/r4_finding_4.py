import os, sys; sys.path.insert(0, os.getcwd())
# An embedded STIX object held in a custom property keeps its defaulted optional properties
# ('defanged': False) in memory, the encoder leaves them out of the text, and parse gives a plain
# dict without them: the parsed object is not equal to the original (no timestamps involved).
import stix2
from stix2 import v21

inner = v21.DomainName(value='example.com')
o = v21.Identity(name='x', x_seen_on=inner, allow_custom=True)
t = o.serialize()
p = stix2.parse(t, allow_custom=True)
assert type(p) is type(o)
assert p.serialize() == t
assert p == o, "x_seen_on: %r (original) != %r (parsed)" % (dict(o['x_seen_on']), p['x_seen_on'])
