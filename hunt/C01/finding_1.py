import os, sys; sys.path.insert(0, os.getcwd())
# C01: an object constructed with a timezone-naive datetime is not equal to its
# own serialize/parse round trip (naive datetime kept naive, text says UTC).
import datetime as dt
import stix2
from stix2 import v20, v21

for obj in (
    v21.Identity(name='x', created=dt.datetime(2020, 1, 1), modified=dt.datetime(2020, 1, 2)),
    v20.Identity(name='x', identity_class='individual', created=dt.datetime(2020, 1, 1), modified=dt.datetime(2020, 1, 2)),
    v21.Indicator(pattern="[file:name = 'a']", pattern_type='stix', valid_from=dt.datetime(2020, 1, 1, 12, 30)),
):
    text = obj.serialize()
    back = stix2.parse(text)
    assert type(back) is type(obj)
    assert back.serialize() == text
    assert back == obj, "round trip not equal: %r vs %r" % (obj, back)
