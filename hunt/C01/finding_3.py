import os, sys; sys.path.insert(0, os.getcwd())
# C01: properties contributed by an (unregistered) toplevel-property-extension are
# ordered by iterating a Python set; the order depends on insertion history, so the
# re-serialized text of the parsed object is not byte-identical to the first text.
import random, string
import stix2
from stix2 import v21

EXT = 'extension-definition--d83fce45-ef58-4c6c-a3f4-1fbc32e98c6e'
rnd = random.Random(1)
bad = []
for trial in range(400):
    names = set()
    while len(names) < 6:
        names.add('p' + ''.join(rnd.choice(string.ascii_lowercase) for _ in range(3)))
    names = sorted(names)
    rnd.shuffle(names)
    obj = v21.Identity(
        name='x',
        extensions={EXT: {'extension_type': 'toplevel-property-extension'}},
        **{n: i for i, n in enumerate(names)}
    )
    for opts in ({}, {'pretty': True}):
        text = obj.serialize(**opts)
        back = stix2.parse(text)
        assert back == obj and type(back) is type(obj)
        text2 = back.serialize(**opts)
        if text2 != text:
            bad.append((names, text, text2))
assert not bad, "%d of 800 re-serializations differ, e.g.\n%s\n%s" % (len(bad), bad[0][1], bad[0][2])
