import os, sys; sys.path.insert(0, os.getcwd())
# A REGISTERED toplevel-property-extension given as a mapping that does not spell out
# "extension_type" (the extension class supplies it: fixed value).  _STIXBase.__init__
# looks for toplevel extensions in the RAW 'extensions' argument, finds none, and treats
# the extension's top-level properties as plain custom properties (uncleaned, sorted
# among the custom ones).  The cleaned extension is serialized WITH its extension_type,
# so on parse the same properties are extension properties: cleaned and ordered as such.
import stix2
from stix2 import v21
from stix2.properties import IntegerProperty, StringProperty

EXT = 'extension-definition--a83fce45-ef58-4c6c-a3f4-1fbc32e98c6e'


@v21.CustomExtension(EXT, [('rank', IntegerProperty()), ('zone', StringProperty())])
class RankExtension:
    extension_type = 'toplevel-property-extension'


# (a) value not converted at construction, converted on parse
o = v21.Identity(name='x', rank='5', extensions={EXT: {}}, allow_custom=True)
t = o.serialize()
p = stix2.parse(t, allow_custom=True)
assert type(p) is type(o)
assert p == o, "not equal: rank %r vs %r" % (o['rank'], p['rank'])
assert p.serialize() == t

# (b) order: custom 'aaa_note' sorts before 'rank' at construction, after it on parse
o = v21.Identity(name='x', rank=5, aaa_note='n', extensions={EXT: {}}, allow_custom=True)
t = o.serialize()
p = stix2.parse(t, allow_custom=True)
assert p == o
assert p.serialize() == t, "text differs:\n%s\n%s" % (t, p.serialize())
print("ok")
