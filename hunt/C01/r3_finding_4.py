import os, sys; sys.path.insert(0, os.getcwd())
# C01: custom property names that coincide with constructor keyword arguments
# ('allow_custom', 'interoperability', 'self', 'custom_properties') can be
# constructed and serialized, but do not survive parse().
import stix2
from stix2 import v21

failures = []

o = v21.Identity(name='x', custom_properties={'allow_custom': True})
t = o.serialize()
try:
    p = stix2.parse(t, allow_custom=True)
    if not (type(p) is type(o) and p == o and p.serialize() == t):
        failures.append(('allow_custom', 'not equal'))
except TypeError as e:
    failures.append(('allow_custom', repr(e)))

o = v21.Identity(name='x', custom_properties={'custom_properties': {'x_a': 1}})
t = o.serialize()
p = stix2.parse(t, allow_custom=True)
if not (p == o and p.serialize() == t):
    failures.append(('custom_properties', t, p.serialize()))

assert not failures, failures
