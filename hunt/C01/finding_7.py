import os, sys; sys.path.insert(0, os.getcwd())
# C01: a STIX 2.0 object carrying a custom property named 'spec_version' comes back
# as the 2.1 class (version detection trusts any 'spec_version' key), and the
# re-serialized text differs.
import stix2
from stix2 import v20

obj = v20.Identity(name='x', identity_class='individual', spec_version='2.1', allow_custom=True)
text = obj.serialize()
back = stix2.parse(text, allow_custom=True)
assert type(back) is type(obj), "parsed as %r instead of %r" % (type(back), type(obj))
assert back.serialize() == text
