import os, sys; sys.path.insert(0, os.getcwd())
# C01: the top-level properties defined by a REGISTERED toplevel-property-extension
# are emitted in set-iteration order (varies with the string hash seed), not in the
# order in which the extension defines them, also with pretty=True.
import json, subprocess
CHILD = r'''
import os, sys; sys.path.insert(0, os.getcwd())
import json
from stix2 import v21
from stix2.properties import IntegerProperty
EID = 'extension-definition--a932fcc6-e032-476c-826f-cb970a5a1ade'
names = ['zeta', 'alpha', 'mid', 'beta', 'yank', 'core']
@v21.CustomExtension(EID, [(n, IntegerProperty()) for n in names])
class TopExt:
    extension_type = 'toplevel-property-extension'
o = v21.Identity(id='identity--d83fce45-ef58-4c6c-a3f4-1fbc32e98c6e', created='2020-01-01T00:00:00.000Z',
                 modified='2020-01-01T00:00:00.000Z', name='x',
                 extensions={EID: {'extension_type': 'toplevel-property-extension'}},
                 **{n: i for i, n in enumerate(names)})
print(json.dumps(list(json.loads(o.serialize(pretty=True)))))
'''
orders = []
for seed in range(8):
    env = dict(os.environ, PYTHONHASHSEED=str(seed))
    out = subprocess.run([sys.executable, '-c', CHILD], env=env, check=True, capture_output=True, text=True).stdout
    orders.append(json.loads(out))
spec_head = ['type', 'spec_version', 'id', 'created', 'modified', 'name', 'extensions']
expected = spec_head + ['zeta', 'alpha', 'mid', 'beta', 'yank', 'core']
wrong = [o for o in orders if o != expected]
assert not wrong, "pretty top-level order differs from definition order in %d of %d runs, e.g. %s" % (len(wrong), len(orders), wrong[0])
