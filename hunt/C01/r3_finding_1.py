import os, sys; sys.path.insert(0, os.getcwd())
# C01: with pretty=True, serialize -> parse -> serialize does not reproduce the text
# when two nested dictionaries share a (key, value) pair.
import stix2
from stix2 import v21

o = v21.LanguageContent(
    id='language-content--b86bd89f-98bb-4fa9-8cb2-9ad421da981d',
    created='2020-01-01T00:00:00.000Z', modified='2020-01-01T00:00:00.000Z',
    object_ref='identity--dd6db400-5983-4a0a-bf3e-fb00cbfaca09',
    object_modified='2020-01-01T00:00:00Z',
    contents={
        'fr': {'name': 'N', 'description': 'same'},
        'de': {'zzz_custom': 'q', 'name': 'N'},
    },
)
t = o.serialize(pretty=True)
p = stix2.parse(t)
assert type(p) is type(o) and p == o
t2 = p.serialize(pretty=True)
assert t2 == t, "pretty text not reproduced:\n%s\n---\n%s" % (t, t2)
