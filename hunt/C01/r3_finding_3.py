import os, sys; sys.path.insert(0, os.getcwd())
# C01: a timestamp given in a zone whose UTC offset is ambiguous at that wall
# time (DST fold) is stored with that tzinfo; the parsed object (UTC) never
# compares equal to it (PEP 495 inter-zone comparison rule).
import datetime
from zoneinfo import ZoneInfo
import stix2
from stix2 import v21

ny = ZoneInfo('America/New_York')
ts = datetime.datetime(2020, 11, 1, 1, 30, tzinfo=ny)   # 01:30 happens twice that night
o = v21.Identity(name='x', created=ts, modified=ts)
t = o.serialize()
p = stix2.parse(t)
assert p.serialize() == t
assert type(p) is type(o)
assert p == o, "parsed object differs: created %r vs %r" % (o['created'], p['created'])
