import os, sys; sys.path.insert(0, os.getcwd())
# C01: a STIX 2.0 statement marking-definition whose 'created' has sub-millisecond
# digits (which is what the default "now" gives) loses them on parse.
import datetime as dt
import stix2
from stix2 import v20

created = dt.datetime(2020, 1, 2, 3, 4, 5, 123456, tzinfo=dt.timezone.utc)
obj = v20.MarkingDefinition(
    id='marking-definition--4478bf48-9af2-4afa-9b7b-d5b2b3d6b6c1',
    created=created,
    definition_type='statement',
    definition=v20.StatementMarking('Copyright'),
)
text = obj.serialize()
assert '2020-01-02T03:04:05.123456Z' in text, text
back = stix2.parse(text)
assert type(back) is type(obj)
assert back == obj, "created %r became %r" % (obj.created, back.created)
assert back.serialize() == text
