import os, sys; sys.path.insert(0, os.getcwd())
# C01: an empty tuple as custom property value is kept at construction (only
# None and [] are dropped), written as [], and dropped on parse.
import stix2
from stix2 import v21

o = v21.Identity(name='x', x_foo=(), allow_custom=True)
t = o.serialize()
p = stix2.parse(t, allow_custom=True)
assert p == o, "parsed object lacks x_foo: %s" % sorted(set(o) ^ set(p))
assert p.serialize() == t
