import os, sys; sys.path.insert(0, os.getcwd())
# C01: a 2.1 marking-definition that has 'definition' but no 'definition_type'
# (allowed by the constructor when 'extensions' is present) cannot be parsed back.
import stix2
from stix2 import v21

EXT = 'extension-definition--d83fce45-ef58-4c6c-a3f4-1fbc32e98c6e'
obj = v21.MarkingDefinition(
    definition=v21.StatementMarking('s'),
    extensions={EXT: {'extension_type': 'property-extension', 'a': 1}},
)
text = obj.serialize()
back = stix2.parse(text)           # InvalidValueError on the clean tree
assert type(back) is type(obj) and back == obj and back.serialize() == text
