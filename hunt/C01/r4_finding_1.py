import os, sys; sys.path.insert(0, os.getcwd())
# A STIX object instance sitting in a place the library does not interpret (here: a value of a
# DictionaryProperty; also a custom property or the content of an unregistered extension) is
# printed by pretty=True in its class' property order; after parse it is a plain dict, which
# pretty=True prints in sorted-key order.  The parsed object is equal, the re-serialized text is not.
import stix2
from stix2 import v21

er = v21.ExternalReference(source_name='s', description='d')
o = v21.Process(pid=1, environment_variables={'abc': er})
t = o.serialize(pretty=True)
p = stix2.parse(t)
assert type(p) is type(o)
assert p == o, "parsed object differs"
t2 = p.serialize(pretty=True)
assert t2 == t, "re-serialized pretty text differs:\n%s\n---\n%s" % (t, t2)
