import os, sys; sys.path.insert(0, os.getcwd())
# STIX 2.0 custom property names are unrestricted; a top-level property whose name is a decimal
# number gets int(name) as its pretty-print sort index (find_property_index() special-cases
# decimal keys for the 2.0 observed-data 'objects' map), so it is printed in the middle of the
# specification-defined properties instead of after them.
import json
from collections import OrderedDict
import stix2
from stix2 import v20

o = v20.Identity(name='x', identity_class='individual', custom_properties={'3': 'three', '0': 'zero'})
t = o.serialize(pretty=True)
keys = list(json.loads(t, object_pairs_hook=OrderedDict))
spec = [k for k in v20.Identity._properties if k in keys]
# specification-defined properties, in specification order, come first
assert keys[:len(spec)] == spec, "pretty order %r, specification order %r" % (keys, spec)
