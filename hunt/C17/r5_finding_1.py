import os, sys; sys.path.insert(0, os.getcwd())
# C17: junk handed to a store must be refused with an error of the library's
# family (STIXError / ValueError / TypeError); KeyError must not escape.
import tempfile
import stix2
from stix2.exceptions import STIXError

FAMILY = (STIXError, ValueError, TypeError)

d = tempfile.mkdtemp()
store = stix2.FileSystemStore(d, allow_custom=True)
escaped = None
try:
    # unregistered type, custom content allowed, no 'id' member
    store.add({"type": "x-foo"})
except FAMILY:
    pass
except Exception as exc:       # KeyError('id') on the clean tree
    escaped = exc

# (MemoryStore refuses the same input with ValueError("Can't store an object which has no 'id'"))
assert escaped is None, "escaped: %r" % (escaped,)
assert os.listdir(d) == [], os.listdir(d)
print("ok")
