import os, sys; sys.path.insert(0, os.getcwd())
# C17: stix2.parse(..., allow_custom=True) of a 2.1 'file' SCO without an id, whose 'hashes' has a custom
# algorithm name with a deeply nested JSON value: construction succeeds up to the deterministic-ID step
# (v21/base.py _Observable.__init__ -> base._Observable._generate_id -> canonicalize), which runs outside
# the cleaning wrapper, and RecursionError escapes.
import json, warnings
warnings.simplefilter("ignore")
import stix2
from stix2.exceptions import STIXError
FAMILY = (STIXError, ValueError, TypeError)

TEMPLATE = '{"type":"file","spec_version":"2.1","hashes":{"foo":@@}}'
bad = []
for n in range(100, 750, 50):
    text = TEMPLATE.replace("@@", '[{"abc":' * n + "1" + "}]" * n)
    try:
        json.loads(text)
    except RecursionError:
        continue
    try:
        obj = stix2.parse(text, allow_custom=True)
        assert isinstance(obj, stix2.v21.File)
    except FAMILY:
        pass
    except BaseException as e:
        bad.append((n, type(e).__name__))
assert not bad, "non-family exception escaped stix2.parse: %r" % bad
print("ok")
