import os, sys; sys.path.insert(0, os.getcwd())
# C17: a refused input must be reported through the library's error family and
# must leave the store as it was.
import tempfile
import stix2
from stix2.exceptions import STIXError

FAMILY = (STIXError, ValueError, TypeError)

d = tempfile.mkdtemp()
store = stix2.FileSystemStore(d, allow_custom=True)
escaped = None
failed = False
try:
    # unregistered type (returned unvalidated by parse()), 'id' is a string of
    # the wrong shape which happens to contain a path separator
    store.add({"type": "x-foo", "id": "a/b/c"})
except FAMILY:
    failed = True
except Exception as exc:       # FileNotFoundError on the clean tree
    failed = True
    escaped = exc

assert escaped is None, "escaped: %r" % (escaped,)
if failed:
    # a failed add() must not have changed the store directory
    assert os.listdir(d) == [], "store changed by a failed add(): %r" % os.listdir(d)
print("ok")
