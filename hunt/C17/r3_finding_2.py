import os, sys; sys.path.insert(0, os.getcwd())
"""C17: a deeply nested (but otherwise harmless, wrong-kind) value in the
'definition' property of a marking-definition makes RecursionError escape from
stix2.parse() and from the MarkingDefinition constructors (2.1 and 2.0).

MarkingDefinition.__init__ looks at the raw 'definition' before any property
cleaning (so outside _STIXBase._check_property's generic wrapper) and passes it
to utils._get_dict(), whose error path does str(data)."""
import stix2
import stix2.v20
import stix2.v21
from stix2.exceptions import STIXError

FAMILY = (STIXError, ValueError, TypeError)


def deep(n):
    v = 1
    for _ in range(n):
        v = [v]
    return v


def md(version, definition):
    d = {
        "type": "marking-definition",
        "id": "marking-definition--00000000-0000-4000-8000-000000000001",
        "created": "2020-01-01T00:00:00.000Z",
        "definition_type": "statement",
        "definition": definition,
    }
    if version == "2.1":
        d["spec_version"] = "2.1"
    return d


bad = []
for version, cls in (("2.1", stix2.v21.MarkingDefinition), ("2.0", stix2.v20.MarkingDefinition)):
    # shallow wrong-kind value: reported properly (ValueError) -- sanity check
    try:
        stix2.parse(md(version, [[1]]))
    except FAMILY:
        pass
    for label, call in (
        ("parse", lambda: stix2.parse(md(version, deep(3000)))),
        ("ctor", lambda: cls(**md(version, deep(3000)))),
    ):
        try:
            call()
        except FAMILY:
            pass
        except BaseException as e:
            bad.append((version, label, type(e).__name__))

# The same with a JSON *text* that the decoder accepts (nesting just below the
# decoder's own limit on CPython 3.12): decoded first, then parsed.
import json
for n in (1494, 1495, 1496):
    text = "[" * n + "1" + "]" * n
    try:
        value = json.loads(text)
    except RecursionError:
        continue  # not decodable: out of the property's scope
    try:
        stix2.parse(md("2.1", value))
    except FAMILY:
        pass
    except BaseException as e:
        bad.append(("2.1", "parse(json text nested %d deep)" % n, type(e).__name__))

assert not bad, "exceptions outside the library's error family escaped: %r" % bad
print("ok")
