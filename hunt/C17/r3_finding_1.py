import os, sys; sys.path.insert(0, os.getcwd())
"""C17: a JSON integer too large for a float, in an ID-contributing property of
a STIX 2.1 SCO given without 'id', makes OverflowError (an ArithmeticError, not
a STIXError/ValueError/TypeError) escape from stix2.parse()."""
import json
import stix2
from stix2.exceptions import STIXError

FAMILY = (STIXError, ValueError, TypeError)

inputs = [
    # plain spec-defined property, no customization at all
    '{"type": "autonomous-system", "spec_version": "2.1", "number": 1' + "0" * 400 + '}',
    # nested in an ID-contributing extension
    '{"type": "file", "spec_version": "2.1", "name": "n", "extensions": {"ntfs-ext": '
    '{"alternate_data_streams": [{"name": "s", "size": 1' + "0" * 400 + '}]}}}',
]

bad = []
for text in inputs:
    json.loads(text)  # it is JSON-decodable
    try:
        obj = stix2.parse(text)
    except FAMILY:
        continue
    except BaseException as e:  # anything else is an escaped internal failure
        bad.append((text[:60], type(e).__name__, str(e)))
    else:
        assert isinstance(obj, stix2.base._STIXBase)

assert not bad, "exceptions outside the library's error family escaped: %r" % bad
print("ok")
