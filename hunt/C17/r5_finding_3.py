import os, sys; sys.path.insert(0, os.getcwd())
# C17: content read back (parsed) from a store file is JSON input like any
# other; whatever it is, only errors of the library's family may come out.
import tempfile
import stix2
from stix2.exceptions import STIXError

FAMILY = (STIXError, ValueError, TypeError)
ID = "identity--00000000-0000-4000-8000-000000000001"

d = tempfile.mkdtemp()
os.makedirs(os.path.join(d, "identity", ID))
with open(os.path.join(d, "identity", ID, "20200101000000000.json"), "w") as f:
    # a VALID (empty) bundle: stix2.parse() accepts it
    f.write('{"type": "bundle", "id": "bundle--00000000-0000-4000-8000-000000000001"}')

src = stix2.FileSystemSource(d)
for call in (
    lambda: src.get(ID),
    lambda: src.all_versions(ID),
    lambda: src.query([stix2.Filter("type", "=", "identity")]),
):
    escaped = None
    try:
        call()
    except FAMILY:
        pass
    except Exception as exc:       # KeyError on the clean tree
        escaped = exc
    assert escaped is None, "escaped: %r" % (escaped,)
print("ok")
