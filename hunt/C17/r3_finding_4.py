import os, sys; sys.path.insert(0, os.getcwd())
"""C17: a JSON value without a 'type' member that contains (or is) deeply
nested junk makes RecursionError escape from stix2.parse() /
stix2.parse_observable(): the ParseError message is built with
str(<the whole raw input>) outside any guard.

(The value is handed over as an already decoded JSON value.  For a JSON *text*
the decoder's own nesting limit is reached first on CPython 3.12, so texts do
not reproduce this; decoded values -- e.g. assembled from several decoded
pieces, or decoded by another decoder -- do.)"""
import stix2
from stix2.exceptions import STIXError

FAMILY = (STIXError, ValueError, TypeError)


def deep(n):
    v = 1
    for _ in range(n):
        v = [v]
    return v


bad = []
for label, call in (
    ("parse({'a': deep})", lambda: stix2.parse({"a": deep(3000)})),
    ("parse(deep list)", lambda: stix2.parse(deep(3000))),
    ("parse({'a': deep}, allow_custom=True)", lambda: stix2.parse({"a": deep(3000)}, allow_custom=True)),
    ("parse_observable({'a': deep})", lambda: stix2.parse_observable({"a": deep(3000)})),
):
    # control: the same shape, shallow, is reported with ParseError
    try:
        call()
    except FAMILY:
        pass
    except BaseException as e:
        bad.append((label, type(e).__name__))

try:
    stix2.parse({"a": deep(3)})
except stix2.exceptions.ParseError:
    pass

assert not bad, "exceptions outside the library's error family escaped: %r" % bad
print("ok")
