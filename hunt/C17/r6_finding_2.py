import os, sys; sys.path.insert(0, os.getcwd())
# C17: "a failed ... leaves ... stores unchanged".
# MemoryStore.add() of content of an unregistered type (parse() hands such a
# dictionary back unvalidated) whose 'id' is the id of an object already in the
# store and whose 'modified' is a JSON string: _ObjectFamily.add() first files
# the dictionary under all_versions[...] and only then compares its 'modified'
# (str) with the family's latest 'modified' (STIXdatetime) -> TypeError.  The
# add() has failed, but the store has changed: the refused content is now
# returned by all_versions()/query().
# (Same function as the already known "modified is a list leaves an empty
# family behind" observation, but a different input and a different effect:
# here an EXISTING family gains a member that add() refused.)
import stix2
from stix2 import MemoryStore

ident = stix2.v21.Identity(
    id="identity--00000000-0000-4000-8000-000000000000", name="n",
    created="2020-01-01T00:00:00Z", modified="2020-01-01T00:00:00Z",
)
store = MemoryStore()
store.add(ident)
before = [o.serialize() if hasattr(o, "serialize") else repr(o) for o in store.all_versions(ident.id)]
assert len(before) == 1

junk = {"type": "x-unknown", "id": ident.id, "modified": "2021-01-01T00:00:00Z", "foo": [None, {"a": 1}]}
failed = False
try:
    store.add(junk)
except (stix2.exceptions.STIXError, ValueError, TypeError) as exc:
    failed = True
    print("add() failed with", type(exc).__name__, exc)

after = [o.serialize() if hasattr(o, "serialize") else repr(o) for o in store.all_versions(ident.id)]
if failed:
    assert after == before, "store changed by a failed add(): %r" % (after,)
print("ok")
