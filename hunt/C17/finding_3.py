import os, sys; sys.path.insert(0, os.getcwd())
# C17: stix2.parse_observable() deep-copies the decoded input (copy.deepcopy in parsing.parse_observable)
# before any class lookup / cleaning, outside every wrapper; a JSON-decodable object with a member nested
# ~500 levels deep makes RecursionError escape (with or without allow_custom, known or unknown type).
import json, warnings
warnings.simplefilter("ignore")
import stix2
from stix2.exceptions import STIXError
FAMILY = (STIXError, ValueError, TypeError)

bad = []
for tmpl, kw in [
    ('{"type":"file","name":"x","x_foo":@@}', {}),
    ('{"type":"file","name":"x","x_foo":@@}', {"allow_custom": True}),
    ('{"type":"x-unknown","x_foo":@@}', {}),
]:
    for n in range(100, 1000, 100):
        text = tmpl.replace("@@", "[" * n + "1" + "]" * n)
        try:
            json.loads(text)
        except RecursionError:
            continue
        try:
            stix2.parse_observable(text, **kw)
        except FAMILY:
            pass
        except BaseException as e:
            bad.append((tmpl[:25], kw, n, type(e).__name__))
assert not bad, "non-family exception escaped stix2.parse_observable: %r" % bad
print("ok")
