import os, sys; sys.path.insert(0, os.getcwd())
# C17: "internal failures such as ... RecursionError never escape" parse().
# A syntactically valid JSON text whose nesting is deeper than the JSON decoder
# accepts makes stix2.parse() raise RecursionError (raised by json.loads inside
# stix2.utils._get_dict, which only catches TypeError there) instead of an
# error from the documented family (STIXError / ValueError / TypeError).
import stix2
import stix2.exceptions

FAMILY = (stix2.exceptions.STIXError, ValueError, TypeError)

bad = []
for label, text in [
    ("bare nested array", "[" * 100000 + "]" * 100000),
    ("identity with a deeply nested custom property",
     '{"type": "identity", "spec_version": "2.1", "id": "identity--00000000-0000-4000-8000-000000000000", '
     '"name": "n", "x_foo": ' + "[" * 3000 + "]" * 3000 + "}"),
    ("bundle member", '{"type": "bundle", "id": "bundle--00000000-0000-4000-8000-000000000000", "objects": ['
     + '{"a":' * 3000 + "1" + "}" * 3000 + "]}"),
]:
    for fn in (stix2.parse, stix2.parse_observable):
        try:
            fn(text, allow_custom=True)
        except FAMILY:
            pass
        except BaseException as exc:  # noqa
            bad.append((fn.__name__, label, type(exc).__name__))

assert not bad, "exceptions outside the documented family escaped: %r" % bad
print("ok")
