import os, sys; sys.path.insert(0, os.getcwd())
# C17 on the clean tree ("returns a fully validated object or raises"): the
# JSON text below is decodable (json.loads accepts NaN / Infinity), the
# latitude of a location must lie in [-90, 90] (FloatProperty(min=-90, max=90)),
# but NaN passes both range comparisons: parse() returns a Location whose
# latitude is not in the validated range -- an object which the library then
# cannot even serialize (ValueError: Out of range float values ...).
import math
import stix2
from stix2.exceptions import STIXError

assert stix2.__file__.startswith(os.getcwd()), stix2.__file__
FAMILY = (STIXError, ValueError, TypeError)

TEXT = (
    '{"type": "location", "spec_version": "2.1",'
    ' "id": "location--00000000-0000-4000-8000-000000000001",'
    ' "created": "2020-01-01T00:00:00.000Z", "modified": "2020-01-01T00:00:00.000Z",'
    ' "latitude": %s, "longitude": %s}'
)

bad = []
for lat, lon in (("NaN", "0"), ("0", "NaN"), ("NaN", "NaN")):
    try:
        obj = stix2.parse(TEXT % (lat, lon))
    except FAMILY:
        continue  # refused: fine
    ok = -90.0 <= obj["latitude"] <= 90.0 and -180.0 <= obj["longitude"] <= 180.0
    if not ok:
        try:
            obj.serialize()
            ser = "serializable"
        except Exception as exc:
            ser = "serialize() raises %r" % (exc,)
        bad.append((lat, lon, obj["latitude"], obj["longitude"], ser))

for b in bad:
    print("NOT VALIDATED:", b)
assert not bad, "parse() returned a location whose coordinates are outside the validated range"
print("ok")
