import os, sys; sys.path.insert(0, os.getcwd())
# C17: stix2.parse() of a JSON-decodable language-content object (no custom content, allow_custom=False)
# whose 'contents' dictionary holds a deeply nested JSON object, and that carries one granular marking,
# lets RecursionError escape from _STIXBase._check_object_constraints -> markings.utils.iterpath.
import json, warnings
warnings.simplefilter("ignore")
import stix2
from stix2.exceptions import STIXError
FAMILY = (STIXError, ValueError, TypeError)

TEMPLATE = (
    '{"type":"language-content","spec_version":"2.1",'
    '"id":"language-content--311b2d2d-f010-4473-83ec-1edf84858f4c",'
    '"created":"2017-01-01T00:00:00.000Z","modified":"2017-01-01T00:00:00.000Z",'
    '"object_ref":"identity--311b2d2d-f010-4473-83ec-1edf84858f4c",'
    '"contents":{"en":{"name":@@}},'
    '"granular_markings":[{"selectors":["object_ref"],'
    '"marking_ref":"marking-definition--613f2e26-407d-48c7-9eca-b8e91df99dc9"}]}'
)

bad = []
for n in range(100, 1500, 100):
    text = TEMPLATE.replace("@@", '{"abc":' * n + "1" + "}" * n)
    try:
        json.loads(text)          # only JSON-decodable inputs are in scope
    except RecursionError:
        continue
    try:
        obj = stix2.parse(text)
        assert isinstance(obj, stix2.v21.LanguageContent)
    except FAMILY:
        pass
    except BaseException as e:
        bad.append((n, type(e).__name__))
assert not bad, "non-family exception escaped stix2.parse: %r" % bad
print("ok")
