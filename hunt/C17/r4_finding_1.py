import os, sys; sys.path.insert(0, os.getcwd())
# C17 on the clean tree: JSON-decodable input without a 'type' member, handed to
# the memory store (constructor or add()).  stix2.parse() reports the same input
# as ParseError; the store reads stix_data["type"] itself before parsing, so a
# bare KeyError escapes.
import stix2
from stix2.exceptions import STIXError

assert stix2.__file__.startswith(os.getcwd()), stix2.__file__
FAMILY = (STIXError, ValueError, TypeError)

INPUTS = [
    {},
    {"id": "identity--00000000-0000-4000-8000-000000000001", "name": "n"},
    [{}],
    {"type": "bundle", "objects": [{"a": 1}]},
]

bad = []
for data in INPUTS:
    # reference: the parser proper stays inside the family
    try:
        stix2.parse(data if isinstance(data, dict) else data[0])
    except FAMILY:
        pass

    for label, fn in (
        ("MemoryStore().add", lambda: stix2.MemoryStore().add(data)),
        ("MemoryStore(stix_data)", lambda: stix2.MemoryStore(data)),
        ("MemorySink().add", lambda: stix2.MemorySink().add(data)),
    ):
        if label == "MemoryStore(stix_data)" and not data:
            continue  # an empty value means 'no data' to the constructor
        try:
            fn()
        except FAMILY:
            pass
        except BaseException as exc:
            bad.append((label, data, repr(exc)))

for b in bad:
    print("ESCAPED:", b)
assert not bad, "an exception from outside the library's error family escaped"
print("ok")
