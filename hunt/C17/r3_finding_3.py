import os, sys; sys.path.insert(0, os.getcwd())
"""C17 (store clause): MemoryStore.add() of a JSON object of an unregistered
type whose 'modified' is of the wrong JSON kind (a list) fails with TypeError
-- but only after an empty object family was already registered in the store
under the object's id, so the failed add leaves the store changed."""
import stix2

store = stix2.MemoryStore()
before = dict(store._data)
junk = {"type": "x-foo", "id": "x-foo--00000000-0000-4000-8000-000000000001", "modified": []}
try:
    store.add(junk)
except (stix2.exceptions.STIXError, ValueError, TypeError):
    failed = True
else:
    failed = False

if failed:
    assert dict(store._data) == before, "failed add changed the store: ids now %r" % list(store._data)
print("ok")
