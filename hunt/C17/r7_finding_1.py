import os, sys; sys.path.insert(0, os.getcwd())
# Clean-tree observation for C17 ("... a failed construction leaves registries
# and stores unchanged").  BORDERLINE, of the same kind as the already known
# MemoryStore finding: parse() of the content succeeds, it is the add() to the
# store which fails.
#
# FileSystemSink.add() of JSON text which parses and validates, but which can
# not be written in the store's encoding (a lone surrogate "\ud800" -- legal
# JSON text -- for a UTF-8 store; or a non-ASCII name for encoding='ascii'),
# fails with UnicodeEncodeError (a ValueError: fine) and removes the partial
# file again, but the directories it created for the object (<type>/ and
# <type>/<id>/) stay behind: the store directory is not what it was before the
# failed add.
import json, shutil, tempfile
from stix2 import FileSystemSink

def tree(d):
    out = []
    for root, dirs, names in os.walk(d):
        out.extend(os.path.relpath(os.path.join(root, n), d) for n in dirs + names)
    return sorted(out)

doc = {"type": "identity", "spec_version": "2.1",
       "id": "identity--6f0d1a3c-5c1e-4d0b-8d0a-0c7a3c1b2e11",
       "created": "2020-01-01T00:00:00.000Z", "modified": "2020-01-01T00:00:00.000Z",
       "name": "\ud800", "identity_class": "organization"}
text = json.dumps(doc)
assert json.loads(text) == doc            # JSON-decodable

d = tempfile.mkdtemp()
try:
    sink = FileSystemSink(d)
    before = tree(d)
    try:
        sink.add(text)
    except ValueError as e:
        print("add() failed, as it should:", type(e).__name__)
    else:
        raise SystemExit("unexpected: add() succeeded")
    after = tree(d)
    print("before:", before)
    print("after: ", after)
    assert after == before, "a failed add() changed the store directory: %s" % after
finally:
    shutil.rmtree(d, ignore_errors=True)
print("ok")
