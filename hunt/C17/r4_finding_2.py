import os, sys; sys.path.insert(0, os.getcwd())
# C17 on the clean tree: an object of an unregistered type without an 'id' (or
# with a 'type' of another JSON kind), handed to the memory store, whose
# default is allow_custom=True.  parse() returns such content as it is (no
# validation); the store then indexes it with stix_obj["id"] and a bare
# KeyError escapes.
import stix2
from stix2.exceptions import STIXError

assert stix2.__file__.startswith(os.getcwd()), stix2.__file__
FAMILY = (STIXError, ValueError, TypeError)

INPUTS = [
    {"type": "x-foo"},
    {"type": "x-foo", "name": "n", "modified": "2020-01-01T00:00:00.000Z"},
    {"type": 1},
    {"type": None},
    [{"type": "x-foo"}],
    {"type": "bundle", "objects": [{"type": "x-foo"}]},
]

bad = []
for data in INPUTS:
    for label, fn in (
        ("MemoryStore().add", lambda: stix2.MemoryStore().add(data)),
        ("MemoryStore(stix_data)", lambda: stix2.MemoryStore(data)),
    ):
        try:
            fn()
        except FAMILY:
            pass
        except BaseException as exc:
            bad.append((label, data, repr(exc)))

for b in bad:
    print("ESCAPED:", b)
assert not bad, "an exception from outside the library's error family escaped"
print("ok")
