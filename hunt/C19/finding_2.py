import os, sys; sys.path.insert(0, os.getcwd())
# C19: "type ... names that break the specification's naming rules are refused".
# STIX 2.1 sect. 11.2: "The type property MUST NOT contain a hyphen (-) character
# immediately following another hyphen (-) character."  The 2.0 grammar enforces
# this, the 2.1 grammar (TYPE_21_REGEX) does not.
import stix2
from stix2.properties import StringProperty

def accepted(mod, name):
    try:
        @mod.CustomObject(name, [('foo', StringProperty())])
        class X:
            pass
        return X
    except ValueError:
        return None

assert accepted(stix2.v20, 'x--dh20') is None          # 2.0: refused (ok)
cls = accepted(stix2.v21, 'x--dh21')
if cls is not None:
    o = cls(foo='a')
    # consequence: the id 'x--dh21--<uuid>' is ambiguous
    t = stix2.utils.get_type_from_id(o.id)
    raise AssertionError(
        "2.1 type name 'x--dh21' with consecutive hyphens was accepted; "
        "get_type_from_id(%r) -> %r" % (o.id, t))
