import os, sys; sys.path.insert(0, os.getcwd())
# C19: "registering a name that is already taken is refused and leaves the
# existing registration intact".  The duplicate check is per category map only,
# so a custom *object* may take the name of a built-in *observable* (and vice
# versa) and thereby hijack / disturb parsing of the built-in type.
import stix2
from stix2 import registry
from stix2.exceptions import DuplicateRegistrationError
from stix2.properties import StringProperty

FILE_JSON = {
    "type": "file", "spec_version": "2.1",
    "id": "file--11111111-1111-4111-8111-111111111111",
    "name": "a.txt",
}
before = stix2.parse(dict(FILE_JSON))
assert type(before) is stix2.v21.File

refused = False
try:
    @stix2.v21.CustomObject('file', [('foo', StringProperty())])
    class Hijack:
        pass
except (DuplicateRegistrationError, ValueError):
    refused = True

# whatever happened, the built-in type must still parse to the built-in class
try:
    after = stix2.parse(dict(FILE_JSON))
    after_t = type(after)
except Exception as e:
    after_t = repr(e)
assert refused, "CustomObject('file') for 2.1 was accepted although 'file' is a built-in 2.1 type"
assert after_t is stix2.v21.File, "built-in 'file' no longer parses to File: %r" % (after_t,)
