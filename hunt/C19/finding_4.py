import os, sys; sys.path.insert(0, os.getcwd())
# C19: a refused registration must leave the registry as it was.  v21
# CustomObject/CustomObservable(extension_name=...) register the companion
# extension BEFORE the object itself is checked, so a refused object
# registration (duplicate name / bad property name) leaves a stray extension
# registered, and the corrected retry is then itself refused as a duplicate.
import stix2
from stix2 import registry
from stix2.exceptions import DuplicateRegistrationError
from stix2.properties import StringProperty

EXT = 'extension-definition--41111111-1111-4111-8111-111111111111'
assert registry.class_for_type(EXT, '2.1', 'extensions') is None
try:
    @stix2.v21.CustomObject('identity', [('foo', StringProperty())], extension_name=EXT)
    class Clash:
        pass
    raise SystemExit("duplicate 'identity' accepted?!")
except DuplicateRegistrationError:
    pass
leaked = registry.class_for_type(EXT, '2.1', 'extensions')

retry_error = None
try:
    @stix2.v21.CustomObject('x-fixed-name', [('foo', StringProperty())], extension_name=EXT)
    class Fixed:
        pass
except DuplicateRegistrationError as e:
    retry_error = e

assert leaked is None, "refused registration left %s registered as an extension" % EXT
assert retry_error is None, "retry with a free type name refused: %s" % retry_error
