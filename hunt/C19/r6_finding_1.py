import os, sys; sys.path.insert(0, os.getcwd())
# C19, last clause: objects of registered custom types enjoy the same validation
# guarantees as built-in types.  The defining extension (extension_name=) of a
# custom type is a registered extension class with a fixed 'extension_type' and
# no other properties.  On a built-in object content under that key is validated
# (wrong extension_type / unknown properties / a non-dict are refused); on the
# custom type itself ANY content under that key is accepted and silently
# replaced by the canonical {"extension_type": "new-sdo"}.
import stix2
import stix2.v21 as v21
from stix2.properties import StringProperty

EXT = 'extension-definition--1f1f1f1f-1111-4111-8111-111111111111'


@v21.CustomObject('x-c19-finding', [('name', StringProperty(required=True))], extension_name=EXT)
class XSdo:
    pass


base = {
    'type': 'x-c19-finding', 'spec_version': '2.1',
    'id': 'x-c19-finding--11111111-1111-4111-8111-111111111111',
    'created': '2020-01-01T00:00:00.000Z', 'modified': '2020-01-01T00:00:00.000Z',
    'name': 'q',
}
bad_values = [
    {'extension_type': 'new-sco'},               # wrong fixed value
    {'extension_type': 'new-sdo', 'junk': 5},    # unknown property, allow_custom=False
    'not-a-dict',
    5,
]
accepted = []
for bad in bad_values:
    # control: the very same extension content on a built-in type is refused
    try:
        v21.Identity(name='x', extensions={EXT: bad})
    except Exception:
        pass
    else:
        raise SystemExit("control failed: built-in accepted %r" % (bad,))
    try:
        obj = stix2.parse(dict(base, extensions={EXT: bad}), allow_custom=False)
    except Exception:
        continue
    accepted.append((bad, obj.serialize()))

assert not accepted, "invalid content of the defining extension accepted (and rewritten): %r" % (accepted,)
