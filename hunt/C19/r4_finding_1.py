import os, sys; sys.path.insert(0, os.getcwd())
# C19: a registration is exact -- registering a custom MARKING (or EXTENSION)
# type must only affect the marking (extension) namespace of that version.
# On the clean tree it also changes how a dict whose *object* type happens to
# have the same name is versioned: versioning._is_versionable_type() resolves
# the object type with a category-less class_for_type(), which falls through to
# the markings / extensions maps and takes the marking class for the class of
# the object.
import stix2
from stix2 import v20, v21, registry
from stix2.properties import StringProperty

UUID = '5e57c739-391a-4eb3-b6be-7d15ca92d5ed'


def versionable(d):
    try:
        new = stix2.new_version(d, name='b')
    except stix2.exceptions.TypeNotVersionableError:
        return False
    assert new['name'] == 'b'
    return True


failures = []
for V, ver, kind in ((v20, '2.0', 'marking'), (v21, '2.1', 'marking'), (v20, '2.0', 'extension')):
    name = 'x-f1-%s-%s' % (kind, ver.replace('.', ''))
    d = {
        'type': name, 'id': name + '--' + UUID,
        'created': '2020-01-01T00:00:00.000Z', 'modified': '2020-01-01T00:00:00.000Z',
        'name': 'a',
    }
    if ver == '2.1':
        d['spec_version'] = '2.1'

    before = versionable(d)
    assert before, "unregistered object types are treated as versionable"

    deco = V.CustomMarking if kind == 'marking' else V.CustomExtension

    @deco(name, [('foo', StringProperty())])
    class Thing:
        pass

    # the name is (still) not registered as an object or observable type
    assert registry.class_for_type(name, ver, 'objects') is None
    assert registry.class_for_type(name, ver, 'observables') is None

    after = versionable(d)
    if after != before:
        failures.append((ver, kind, name, before, after))

assert not failures, (
    "registering a marking/extension type changed the versioning of dicts "
    "of an (unregistered) object type of the same name: %r" % failures
)
print("ok")
