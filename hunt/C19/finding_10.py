import os, sys; sys.path.insert(0, os.getcwd())
# C19: registration is exact / later registrations leave existing ones intact.
# v21 CustomObject/CustomObservable(extension_name=...) store the extension name
# on the *decorated user class* (cls.with_extension = ...), and instances look
# it up through the MRO.  Decorating the same plain class (or a class sharing a
# base with it) a second time for another type silently changes the defining
# extension that instances of the FIRST registered type carry.
import stix2
from stix2.properties import StringProperty

EA = 'extension-definition--a1111111-1111-4111-8111-111111111111'
EB = 'extension-definition--b1111111-1111-4111-8111-111111111111'

class Plain:
    pass

A = stix2.v21.CustomObject('x-f10-a', [('foo', StringProperty())], extension_name=EA)(Plain)
before = sorted(A(foo='a').extensions)
assert before == [EA]
B = stix2.v21.CustomObject('x-f10-b', [('foo', StringProperty())], extension_name=EB)(Plain)
after = sorted(A(foo='a').extensions)
assert after == [EA], "instances of the first registered type now carry %r instead of %r" % (after, before)
