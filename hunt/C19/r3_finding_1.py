import os, sys; sys.path.insert(0, os.getcwd())
# A refused @CustomObject / @CustomObservable registration must not leave anything
# registered.  With an extension_name that has no '--' in it, the extension is
# registered first and the decorator then dies with IndexError; the extension stays.
import stix2, stix2.v21
from stix2 import registry
from stix2.properties import StringProperty

for deco, tname, ename in (
    (stix2.v21.CustomObject, 'x-f1-obj', 'x-f1a-ext'),
    (stix2.v21.CustomObservable, 'x-f1-obs', 'x-f1b-ext'),
):
    before = {c: dict(m) for c, m in registry.STIX2_OBJ_MAPS['2.1'].items()}
    refused = False
    try:
        @deco(tname, [('foo', StringProperty())], extension_name=ename)
        class T:
            pass
    except Exception as e:
        refused = True
        print('refused with', type(e).__name__, e)
    after = {c: dict(m) for c, m in registry.STIX2_OBJ_MAPS['2.1'].items()}
    if refused:
        assert registry.class_for_type(tname, '2.1') is None
        assert after == before, (
            "registration of %r was refused but %r is now a registered 2.1 extension: %r"
            % (tname, ename, registry.class_for_type(ename, '2.1', 'extensions'))
        )
    else:
        # accepted: then both parts must be there and usable
        assert registry.class_for_type(tname, '2.1') is T
        T(foo='a').serialize()
print('ok')
