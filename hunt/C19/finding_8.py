import os, sys; sys.path.insert(0, os.getcwd())
# C19 (version scoping of the registration functions): the docstrings of
# _register_object/_register_marking/_register_observable promise "If None, use
# latest version", but the parameter 'version' shadows the module 'version', so
# version=None raises AttributeError instead of registering for the default.
import stix2
from stix2 import registry, registration
from stix2.properties import StringProperty

@stix2.v21.CustomObject('x-f8-a', [('foo', StringProperty())])
class A:
    pass
del registry.STIX2_OBJ_MAPS['2.1']['objects']['x-f8-a']
registration._register_object(A, version=None)
assert registry.class_for_type('x-f8-a', stix2.version.DEFAULT_VERSION) is A
