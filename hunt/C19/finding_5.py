import os, sys; sys.path.insert(0, os.getcwd())
# C19: invalid type names "are refused".  For 2.1 the type-name grammar
# TYPE_21_REGEX = ^([a-z][a-z0-9]*)+([a-z0-9-]+)*-?\Z has nested quantifiers; on
# a name whose first hyphen-free run is long and that is invalid after it the match backtracks exponentially
# (about x4 per 2 extra characters: 26 chars ~ 1 minute, 36 chars ~ a day), so
# the registration call never returns instead of raising ValueError.
import signal
import stix2
from stix2.properties import StringProperty

# the blow-up is exponential in the length of the first hyphen-free run
name = 'mycompanyproductthreatintelcustomobject' + '_v2'   # invalid: contains '_'

def on_alarm(sig, frm):
    raise AssertionError("registration of invalid 2.1 type name %r did not return within 20s (not refused)" % name)
signal.signal(signal.SIGALRM, on_alarm)
signal.alarm(20)
try:
    @stix2.v21.CustomObject(name, [('foo', StringProperty())])
    class X:
        pass
    raise AssertionError("invalid name accepted")
except ValueError:
    pass
signal.alarm(0)
