import os, sys; sys.path.insert(0, os.getcwd())
# C19: naming rules for extension types.  For 2.1 an extension type must end in
# '-ext' or be the id of an extension definition ('extension-definition--<UUID>',
# as the library's own error message says).  Only the prefix is checked, so
# non-identifiers are registered; content using such a key, which
# ExtensionsProperty rejects while unregistered, is accepted afterwards.
import stix2
from stix2.properties import StringProperty

accepted = []
for name in ['extension-definition--foo', 'extension-definition--', 'extension-definition--1-2--3']:
    try:
        @stix2.v21.CustomExtension(name, [('foo', StringProperty())])
        class E:
            pass
        accepted.append(name)
    except ValueError:
        pass
assert not accepted, "malformed extension-definition names registered: %r" % accepted
