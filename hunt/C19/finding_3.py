import os, sys; sys.path.insert(0, os.getcwd())
# C19: "... property names that break the specification's naming rules are
# refused".  STIX 2.0 part 1 sect. 7.1 / STIX 2.1 sect. 11.1: custom property
# names MUST be ASCII, only a-z, 0-9 and underscore, length 3..250.
# _validate_props checks nothing for 2.0 and only the first character for 2.1.
import stix2
from stix2.properties import StringProperty

bad = ["foo bar", "foo-bar", "f$x", "fooBar", "foé", "fo", "a" * 251]
bad20_extra = ["Foo", "9foo!"]
accepted = []
n = 0
for ver, mod, names in (("2.0", stix2.v20, bad + bad20_extra), ("2.1", stix2.v21, bad)):
    for name in names:
        n += 1
        try:
            @mod.CustomObject('x-f3-%d' % n, [(name, StringProperty())])
            class X:
                pass
            accepted.append((ver, name[:12]))
        except ValueError:
            pass
assert not accepted, "property names violating the naming rules were accepted: %r" % accepted
