import os, sys; sys.path.insert(0, os.getcwd())
# STIX 2.0 extensions extend Cyber Observables, whose *_ref / *_refs properties are
# object references (keys into the observed-data 'objects' map): the built-in
# 2.0 ArchiveExt.contains_refs is ListProperty(ObjectReferenceProperty).  Registration
# of a custom 2.0 extension applies the wrong rule: it refuses exactly that (conforming)
# shape and accepts an identifier-typed ReferenceProperty instead.
import stix2, stix2.v20
from stix2 import registry
from stix2.properties import ListProperty, ObjectReferenceProperty, ReferenceProperty

problems = []
try:
    @stix2.v20.CustomExtension('x-f2-a-ext', [('thing_ref', ObjectReferenceProperty())])
    class A:
        pass
except ValueError as e:
    problems.append('conforming 2.0 extension refused: %s' % e)

try:
    @stix2.v20.CustomExtension('x-f2-b-ext', [('thing_refs', ListProperty(ObjectReferenceProperty(valid_types=['file'])))])
    class B:
        pass
except ValueError as e:
    problems.append('clone of ArchiveExt.contains_refs refused: %s' % e)

try:
    @stix2.v20.CustomExtension('x-f2-c-ext', [('thing_ref', ReferenceProperty(valid_types='identity', spec_version='2.0'))])
    class C:
        pass
    problems.append('2.0 observable extension with identifier-typed thing_ref accepted: %r' % registry.class_for_type('x-f2-c-ext', '2.0', 'extensions'))
except ValueError:
    pass

# for comparison: the 2.0 custom *observable* applies the 2.0 rule correctly
@stix2.v20.CustomObservable('x-f2-obs', [('thing_ref', ObjectReferenceProperty())])
class O:
    pass

assert not problems, problems
print('ok')
