import os, sys; sys.path.insert(0, os.getcwd())
# C19: registering a custom object type T makes exactly the type name T stand
# for the registered class, and objects of the registered type round-trip.
# On the clean tree the property list given to @CustomObject/@CustomObservable
# may silently REDEFINE the built-in 'type' (and 'id') property: the
# registration is accepted, but the registered class then produces objects
# which carry no type at all, or any other type name (and any string for an
# id), so what it serializes does not parse back to it.
import json
import stix2
from stix2 import v20, v21, registry
from stix2.exceptions import STIXError
from stix2.properties import StringProperty

problems = []
for V, ver in ((v20, '2.0'), (v21, '2.1')):
    name = 'x-f2-%s' % ver.replace('.', '')
    try:
        @V.CustomObject(name, [('type', StringProperty()), ('id', StringProperty()), ('foo', StringProperty())])
        class Shadow:
            pass
    except ValueError:
        continue  # refused: fine

    assert registry.class_for_type(name, ver, 'objects') is Shadow
    obj = Shadow(foo='a')
    if obj.get('type') != name:
        problems.append((ver, 'instance of the class registered for %r has type %r' % (name, obj.get('type'))))
    try:
        back = stix2.parse(obj.serialize(), version=ver)
        if type(back) is not Shadow or back != obj:
            problems.append((ver, 'round trip gives a different object'))
    except (STIXError, ValueError) as e:
        problems.append((ver, 'does not parse back: %s' % e))
    try:
        other = Shadow(foo='a', type='identity', id='nonsense')
        problems.append((ver, 'class registered for %r made %s' % (name, other.serialize())))
    except (STIXError, ValueError):
        pass

assert not problems, problems
print('ok')
