import os, sys; sys.path.insert(0, os.getcwd())
# C19: a registration is scoped to "exactly the chosen spec version".
# Registering a 2.1 custom observable changes how 2.0 content of the same type
# name is parsed: detect_spec_version() consults the 2.1 observables registry
# (custom entries included) to guess the version of an object without
# spec_version, so a registered 2.0 custom object stops parsing.
import stix2
from stix2.properties import StringProperty

@stix2.v20.CustomObject('x-f6-thing', [('foo', StringProperty())])
class Thing20:
    pass

s = Thing20(foo='a').serialize()
assert type(stix2.parse(s)) is Thing20          # fine so far

@stix2.v21.CustomObservable('x-f6-thing', [('bar', StringProperty())], ['bar'])
class Thing21:
    pass

try:
    t = type(stix2.parse(s))
except Exception as e:
    t = repr(e)
assert t is Thing20, "2.0 object no longer parses to its 2.0 class after a 2.1 registration: %s" % (t,)
