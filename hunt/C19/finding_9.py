import os, sys; sys.path.insert(0, os.getcwd())
# C19: a registration is scoped to exactly the chosen spec version.
# _STIXBase.__init__ resolves 'toplevel-property-extension' extensions against
# the 2.1 registry whatever the version of the object being built, so an
# extension registered for 2.1 only changes how STIX 2.0 objects are validated.
import stix2
from stix2 import registry
from stix2.properties import IntegerProperty

EXT = 'extension-definition--91111111-1111-4111-8111-111111111111'

def make20():
    return stix2.v20.File(
        name='a', rank='abc',
        extensions={EXT: {'extension_type': 'toplevel-property-extension'}},
    )

before = make20().serialize()

@stix2.v21.CustomExtension(EXT, [('rank', IntegerProperty(required=True))])
class TopLevel:
    extension_type = 'toplevel-property-extension'

assert registry.class_for_type(EXT, '2.0') is None      # not registered for 2.0
try:
    after = make20().serialize()
except Exception as e:
    after = repr(e) + ' ' + str(e)
assert after == before, "2.0 object handled differently after a 2.1-only registration:\n before: %s\n after:  %s" % (before, after)
