import os, sys; sys.path.insert(0, os.getcwd())
# A property called "ref" / "refs" (no underscore) does not end in "_ref" /
# "_refs"; it breaks no naming rule of the specification (3-250 characters,
# a-z 0-9 _, starts with a letter).  Registering a custom type which has such
# a (non-reference) property must therefore succeed, and the type must parse.
import stix2
from stix2 import v20, v21
from stix2.properties import IntegerProperty, ListProperty, StringProperty

failures = []
for mod, tag in ((v20, '20'), (v21, '21')):
    for kind, deco in (
        ('object', mod.CustomObject), ('observable', mod.CustomObservable),
        ('marking', mod.CustomMarking), ('extension', mod.CustomExtension),
    ):
        for prop_name, prop in (
            ('ref', StringProperty()),
            ('refs', ListProperty(IntegerProperty)),
        ):
            type_name = 'x-f1-%s-%s-%s%s' % (kind, prop_name, tag, '-ext' if kind == 'extension' else '')
            try:
                @deco(type_name, [(prop_name, prop)])
                class T:
                    pass
            except ValueError as e:
                failures.append((tag, kind, prop_name, str(e)))

for f in failures:
    print("refused:", f)
assert not failures, "%d legal registrations were refused" % len(failures)

# and the registered type parses
obj = stix2.parse({
    "type": "x-f1-object-ref-21", "spec_version": "2.1",
    "id": "x-f1-object-ref-21--11111111-1111-4111-8111-111111111111",
    "created": "2020-01-01T00:00:00.000Z", "modified": "2020-01-01T00:00:00.000Z",
    "ref": "RFC 1234",
})
assert obj["ref"] == "RFC 1234"
