import os, sys; sys.path.insert(0, os.getcwd())
# An unregistered custom object (kept as a dictionary, content not validated) whose id is not
# of the <type>--<UUID> shape.  Both stores accept it; the memory store (and a plain list) give it
# back, the filesystem store writes it to disk and then never finds it again.
import tempfile
from stix2 import MemoryStore, FileSystemStore, Filter

C = "2019-01-01T00:00:00.000Z"
d = {"type": "x-foo", "id": "x-foo--1", "created": C, "modified": C, "n": 1}
mem = MemoryStore()
fs = FileSystemStore(tempfile.mkdtemp(), allow_custom=True)
mem.add(dict(d))
fs.add(dict(d))
res = {}
for name, st in (("mem", mem), ("fs", fs)):
    res[name] = (
        st.get(d["id"]) is not None, len(st.all_versions(d["id"])),
        len(st.query([])), len(st.query([Filter("type", "=", "x-foo")])),
    )
print(res)
assert res["mem"] == (True, 1, 1, 1), res
assert res["fs"] == res["mem"], res
