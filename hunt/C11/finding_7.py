import os, sys; sys.path.insert(0, os.getcwd())
# C11 finding 7: timestamp spellings on dictionary-kept objects.  The same
# instant spelled "…00Z" and "…00.000Z" is two versions for MemoryStore (the
# family is keyed by the raw string) but one file name for FileSystemStore,
# which rejects the second addition; a legal STIX timestamp with more than six
# fractional digits is accepted by MemoryStore and makes FileSystemSink.add
# raise ValueError.  Same history, different store contents.
import shutil, tempfile
from stix2 import FileSystemStore, MemoryStore

ID = "x-foo--11111111-1111-4111-8111-111111111111"


def ver(mod, n):
    return {"type": "x-foo", "id": ID, "created": "2020-01-01T00:00:00Z", "modified": mod, "n": n}


tmp = tempfile.mkdtemp()
try:
    result = {}
    for name, store in (("memory", MemoryStore()), ("filesystem", FileSystemStore(tmp, allow_custom=True))):
        errors = []
        for o in (ver("2020-01-01T00:00:00Z", 1), ver("2020-01-01T00:00:00.000Z", 2), ver("2020-01-01T00:00:01.1234567Z", 3)):
            try:
                store.add(o)
            except Exception as e:
                errors.append(type(e).__name__)
        result[name] = (sorted(o["n"] for o in store.all_versions(ID)), errors)
    print(result)
    assert result["memory"] == result["filesystem"], "stores disagree: %r" % result
finally:
    shutil.rmtree(tmp)
