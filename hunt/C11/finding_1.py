import os, sys; sys.path.insert(0, os.getcwd())
# C11 finding 1: for objects kept as plain dictionaries (unregistered custom
# types) "modified" stays a string, and both stores pick the latest version by
# *string* comparison.  "...00.5Z" sorts before "...00Z" ('.' < 'Z'), so the
# version with the greatest modified TIME is not the one returned by get().
import shutil, tempfile
from stix2 import FileSystemStore, MemoryStore

ID = "x-foo--11111111-1111-4111-8111-111111111111"


def ver(mod, n):
    return {
        "type": "x-foo", "id": ID, "created": "2020-01-01T00:00:00Z",
        "modified": mod, "n": n,
    }


older = ver("2020-01-01T00:00:00Z", 1)       # 00:00:00.000
newer = ver("2020-01-01T00:00:00.5Z", 2)     # 00:00:00.500  (later)

tmp = tempfile.mkdtemp()
try:
    problems = []
    for order in ([older, newer], [newer, older]):
        for store in (MemoryStore(), FileSystemStore(tempfile.mkdtemp(dir=tmp), allow_custom=True)):
            for o in order:
                store.add(dict(o))
            assert len(store.all_versions(ID)) == 2
            got = store.get(ID)
            if got["n"] != 2:
                problems.append((type(store).__name__, [o["modified"] for o in order], got["modified"]))
    assert not problems, "get() did not return the version with the greatest modified time: %r" % problems
finally:
    shutil.rmtree(tmp)
