import os, sys; sys.path.insert(0, os.getcwd())
# C11 finding 6: Filter("id", "in", "<one id as a string>").  The filter itself
# is satisfied by the object (Filter._check_property does `id in value`, and a
# string is an accepted filter value; _update_allow even special-cases str),
# and MemoryStore returns the object.  FileSystemSource's search optimisation
# iterates the *characters* of the string to derive the allowed types, gets an
# empty type whitelist and returns nothing.
import shutil, tempfile
import stix2
from stix2 import FileSystemStore, Filter, MemoryStore
from stix2.datastore.filters import apply_common_filters

IID = "identity--11111111-1111-4111-8111-111111111111"
obj = stix2.v21.Identity(id=IID, name="x", identity_class="individual")
q = [Filter("id", "in", IID)]
assert list(apply_common_filters([obj], q)) == [obj]     # the object satisfies the query

tmp = tempfile.mkdtemp()
try:
    mem = MemoryStore(); fs = FileSystemStore(tmp)
    mem.add(obj); fs.add(obj)
    n_mem, n_fs = len(mem.query(q)), len(fs.query(q))
    print("memory:", n_mem, "filesystem:", n_fs)
    assert n_mem == 1
    assert n_fs == 1, "filesystem store lost an object that satisfies the query"
finally:
    shutil.rmtree(tmp)
