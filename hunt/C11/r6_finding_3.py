import os, sys; sys.path.insert(0, os.getcwd())
# An unregistered custom object (kept as a dictionary, content not validated) whose id prefix differs
# from its type.  The filesystem sink files it under <type>/<id>/, but lookup by id looks under the
# id's prefix, and the type directory is classified "unversioned" because no entry is named
# <type>--<uuid>; so get / all_versions / query (even the empty query) never return it.
import tempfile
from stix2 import MemoryStore, FileSystemStore, Filter

C = "2019-01-01T00:00:00.000Z"
d = {"type": "x-foo", "id": "x-bar--00000001-0000-4000-8000-000000000001", "created": C, "modified": C, "n": 1}
mem = MemoryStore()
fs = FileSystemStore(tempfile.mkdtemp(), allow_custom=True)
mem.add(dict(d))
fs.add(dict(d))
res = {}
for name, st in (("mem", mem), ("fs", fs)):
    res[name] = (
        st.get(d["id"]) is not None, len(st.all_versions(d["id"])),
        len(st.query([])), len(st.query([Filter("type", "=", "x-foo")])),
    )
print(res)
assert res["mem"] == (True, 1, 1, 1), res
assert res["fs"] == res["mem"], res
