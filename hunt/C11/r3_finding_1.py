import os, sys; sys.path.insert(0, os.getcwd())
# A history containing one object whose text holds a lone surrogate escape
# ("\ud800": accepted by the JSON grammar, by stix2.parse and by MemoryStore).
# FileSystemStore.add() fails while writing, but leaves an empty version file
# behind; from then on every lookup/query over that type raises, and the other
# (perfectly fine) objects of the history can no longer be read.  The memory
# store and a plain list keep answering.
import json, tempfile, uuid
from stix2 import MemoryStore, FileSystemStore, Filter, v21

I1 = 'identity--' + str(uuid.uuid4())
good = v21.Identity(name='fine', created='2020-01-01T00:00:00Z', modified='2020-01-01T00:00:00Z')
bad_json = ('{"type":"identity","spec_version":"2.1","id":"%s",'
            '"created":"2020-01-01T00:00:00.000Z","modified":"2020-01-01T00:00:00.000Z",'
            '"name":"a\\ud800b"}' % I1)

m = MemoryStore()
f = FileSystemStore(tempfile.mkdtemp(), allow_custom=True)

m.add(good)
f.add(good)
m.add(json.loads(bad_json))          # memory store documents dict input
try:
    f.add(bad_json)                  # filesystem store documents JSON text
    fs_refused = False
except Exception as e:               # UnicodeEncodeError
    fs_refused = True

# the memory store (and the list) still answer for the object added first
assert m.get(good.id) == good
assert [o.id for o in m.query([Filter('name', '=', 'fine')])] == [good.id]

# the filesystem store must still answer too: either it stored both objects,
# or it refused the second one and still holds exactly the first.
res = f.query([Filter('type', '=', 'identity')])      # raises TypeError on the clean tree
ids = sorted(o['id'] for o in res)
assert ids == sorted([good.id] + ([] if fs_refused else [I1])), ids
assert f.get(good.id) == good
if fs_refused:
    assert f.get(I1) is None and f.all_versions(I1) == []
print('ok')
