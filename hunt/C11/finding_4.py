import os, sys; sys.path.insert(0, os.getcwd())
# C11 finding 4: a version whose "modified" was given as a naive datetime
# (documented to be taken as UTC) and a version parsed from JSON (tz-aware)
# cannot live in the same MemoryStore family: _ObjectFamily.add compares the
# two datetimes and raises TypeError.  A single naive-datetime object also
# makes a MemoryStore query on "modified" raise.  FileSystemStore handles the
# same history fine.
import datetime, shutil, tempfile
import stix2
from stix2 import FileSystemStore, Filter, MemoryStore

IID = "identity--11111111-1111-4111-8111-111111111111"
a = stix2.v21.Identity(
    id=IID, name="a", identity_class="individual",
    created=datetime.datetime(2020, 1, 1), modified=datetime.datetime(2020, 1, 2),
)
b = stix2.parse({
    "type": "identity", "spec_version": "2.1", "id": IID, "name": "b",
    "identity_class": "individual",
    "created": "2020-01-01T00:00:00.000Z", "modified": "2020-01-03T00:00:00.000Z",
})

tmp = tempfile.mkdtemp()
try:
    fs = FileSystemStore(tmp)
    fs.add(a); fs.add(b)
    assert fs.get(IID)["name"] == "b" and len(fs.all_versions(IID)) == 2
    assert len(fs.query([Filter("modified", ">", "2020-01-01T00:00:00Z")])) == 2

    mem = MemoryStore()
    mem.add(a)
    # raises TypeError: can't compare offset-naive and offset-aware datetimes
    assert len(mem.query([Filter("modified", ">", "2020-01-01T00:00:00Z")])) == 1
    mem.add(b)      # raises TypeError as well
    assert mem.get(IID)["name"] == "b" and len(mem.all_versions(IID)) == 2
finally:
    shutil.rmtree(tmp)
