import os, sys; sys.path.insert(0, os.getcwd())
# C11 finding 2: MemoryStore, same id + same modified, different content.
# The second addition silently replaces the first one in the family's
# all_versions map, but latest_version keeps pointing at the replaced object:
# get() returns an object that all_versions()/query() no longer know about, and
# the first addition is lost without any error (the filesystem store refuses
# the second addition loudly with DataSourceError).
import stix2
from stix2 import Filter, MemoryStore

IID = "identity--11111111-1111-4111-8111-111111111111"


def ident(name):
    return stix2.parse({
        "type": "identity", "spec_version": "2.1", "id": IID,
        "created": "2020-01-01T00:00:00.000Z", "modified": "2020-01-02T00:00:00.000Z",
        "name": name, "identity_class": "individual",
    })


store = MemoryStore()
store.add(ident("A"))
store.add(ident("B"))       # no error raised

got = store.get(IID)["name"]
allv = sorted(o["name"] for o in store.all_versions(IID))
qry = sorted(o["name"] for o in store.query([Filter("id", "=", IID)]))
print("get:", got, "all_versions:", allv, "query:", qry)

# a plain list of the added objects would still hold both; at the very least
# the three read operations must agree with each other
assert got in allv, "get() returned %r which all_versions() %r does not contain" % (got, allv)
assert allv == ["A", "B"], "an addition silently replaced another one: %r" % allv
