import os, sys; sys.path.insert(0, os.getcwd())
# A custom property holding a datetime (legal with allow_custom=True) stays a
# datetime in the MemoryStore but comes back from the FileSystemStore -- and
# from a MemoryStore after save_to_file/load_from_file -- as a string.  What
# comes out differs from what went in, and the same query gives different
# answers on the stores.
import datetime, shutil, tempfile
import pytz
from stix2 import FileSystemStore, Filter, MemoryStore, v21

obj = v21.Identity(
    name='a', identity_class='individual',
    x_seen=datetime.datetime(2020, 1, 1, tzinfo=pytz.utc),
    allow_custom=True,
)
d = tempfile.mkdtemp()
try:
    fs = FileSystemStore(d, allow_custom=True)
    mem = MemoryStore()
    fs.add(obj)
    mem.add(obj)
    path = mem.save_to_file(os.path.join(d, 'saved.json'))
    mem2 = MemoryStore()
    mem2.load_from_file(path)

    q = [Filter('x_seen', '=', '2020-01-01T00:00:00.000Z')]   # the same instant
    answers = {
        'memory': [o.id for o in mem.query(q)],
        'filesystem': [o.id for o in fs.query(q)],
        'memory after save/load': [o.id for o in mem2.query(q)],
    }
    outs = {
        'memory': mem.get(obj.id),
        'filesystem': fs.get(obj.id),
        'memory after save/load': mem2.get(obj.id),
    }
finally:
    shutil.rmtree(d)

for name, out in outs.items():
    assert out == obj, "%s: what came out differs from what went in: %r" % (name, out['x_seen'])
assert len(set(map(tuple, answers.values()))) == 1, answers
print("ok")
