import os, sys; sys.path.insert(0, os.getcwd())
# A 2.1-only type ('location') added once WITHOUT spec_version (detected as 2.0 -> not registered
# there -> kept as a dictionary with a text 'modified') and once WITH spec_version 2.1 (typed object,
# datetime 'modified'), same id, two different versions.  A plain list holds both and the newer wins.
import tempfile
from stix2 import MemoryStore, FileSystemStore

I = "location--00000001-0000-4000-8000-000000000001"
C = "2019-01-01T00:00:00.000Z"
old = {"type": "location", "id": I, "created": C, "modified": "2020-01-01T00:00:00.000Z", "country": "us"}
new = {"type": "location", "spec_version": "2.1", "id": I, "created": C, "modified": "2021-01-01T00:00:00.000Z", "country": "de"}

problems = []
for st in (MemoryStore(), FileSystemStore(tempfile.mkdtemp(), allow_custom=True)):
    name = type(st).__name__
    try:
        st.add(dict(old))
        st.add(dict(new))
    except Exception as e:
        problems.append("%s.add raised %s: %s" % (name, type(e).__name__, e))
    try:
        n = len(st.all_versions(I))
        if n != 2:
            problems.append("%s.all_versions returned %d versions, 2 were added" % (name, n))
    except Exception as e:
        problems.append("%s.all_versions raised %s: %s" % (name, type(e).__name__, e))
    try:
        g = st.get(I)
        if g is None or g["country"] != "de":
            problems.append("%s.get did not return the newest version: %r" % (name, g))
    except Exception as e:
        problems.append("%s.get raised %s: %s" % (name, type(e).__name__, e))
for p in problems:
    print(p)
assert not problems, problems
