import os, sys; sys.path.insert(0, os.getcwd())
# C11: no addition silently replaces or loses a different version; memory
# store, filesystem store and a plain list agree.
#
# History: an unregistered custom type (kept as dictionaries), two versions
# carrying 'modified', then one object with the same id that has no
# 'modified' property.
import tempfile, shutil
from stix2 import MemoryStore, FileSystemStore, Filter

X = 'x-foo--11111111-1111-4111-8111-111111111111'
history = [
    {'type': 'x-foo', 'id': X, 'created': '2020-01-01T00:00:00.000Z', 'modified': '2020-01-01T00:00:00.000Z', 'n': 1},
    {'type': 'x-foo', 'id': X, 'created': '2020-01-01T00:00:00.000Z', 'modified': '2021-01-01T00:00:00.000Z', 'n': 2},
    {'type': 'x-foo', 'id': X, 'n': 3},
]

d = tempfile.mkdtemp()
try:
    mem = MemoryStore()
    fs = FileSystemStore(d, allow_custom=True)
    model = []
    for obj in history:
        mem.add(dict(obj))
        fs.add(dict(obj))
        model.append(dict(obj))

    expect = sorted(o['n'] for o in model)
    got_mem = sorted(o['n'] for o in mem.all_versions(X))
    got_fs = sorted(o['n'] for o in fs.all_versions(X))
    got_mem_q = sorted(o['n'] for o in mem.query([Filter('type', '=', 'x-foo')]))
    got_fs_q = sorted(o['n'] for o in fs.query([Filter('type', '=', 'x-foo')]))
    print('model', expect, 'memory', got_mem, 'filesystem', got_fs)
    assert got_fs == expect, ('filesystem all_versions', got_fs, expect)
    assert got_fs_q == expect, ('filesystem query', got_fs_q, expect)
    # MemoryStore: the object without 'modified' is mapped directly under the
    # id and throws the whole version family away.
    assert got_mem == expect, ('memory all_versions lost versions', got_mem, expect)
    assert got_mem_q == expect, ('memory query lost versions', got_mem_q, expect)
    # both stores must answer get() alike (filesystem raises KeyError)
    assert mem.get(X)['n'] == fs.get(X)['n']
finally:
    shutil.rmtree(d, ignore_errors=True)
