import os, sys; sys.path.insert(0, os.getcwd())
# C11 finding 5: FileSystemStore(encoding=...) hands the encoding to the
# source only; the sink always writes UTF-8.  With any non-UTF-8 encoding what
# comes out of the store is not what went in (mojibake for latin-1, TypeError
# for utf-16).
import shutil, tempfile
import stix2
from stix2 import FileSystemStore

IID = "identity--11111111-1111-4111-8111-111111111111"
obj = stix2.v21.Identity(id=IID, name=u"Zoë", identity_class="individual")

tmp = tempfile.mkdtemp()
try:
    store = FileSystemStore(tmp, encoding="latin-1")
    store.add(obj)
    got = store.get(IID)
    print(repr(obj.name), "->", repr(got.name))
    assert got.name == obj.name, "stored %r, read back %r" % (obj.name, got.name)
finally:
    shutil.rmtree(tmp)
