import os, sys; sys.path.insert(0, os.getcwd())
# C11 finding 3: unversioned objects (no "modified": 2.1 SCOs, marking
# definitions).  MemoryStore maps the id straight to the object, so adding a
# second, different object with the same id silently replaces the first one.
# FileSystemStore refuses the same addition with DataSourceError, so the two
# stores end up with different content after the same history.
import shutil, tempfile
import stix2
from stix2 import FileSystemStore, MemoryStore
from stix2.datastore import DataSourceError

a = stix2.v21.File(name="a.txt")
b = stix2.v21.File(name="a.txt", size=5)      # same deterministic id, different content
assert a.id == b.id and a != b

tmp = tempfile.mkdtemp()
try:
    mem = MemoryStore()
    fs = FileSystemStore(tmp)
    outcome = {}
    for name, store in (("memory", mem), ("filesystem", fs)):
        store.add(a)
        try:
            store.add(b)
            raised = False
        except DataSourceError:
            raised = True
        outcome[name] = (raised, [o.get("size") for o in store.all_versions(a.id)])
    print(outcome)
    # memory: (False, [5])  -> first object silently replaced
    # filesystem: (True, [None]) -> loud refusal, first object kept
    assert outcome["memory"] == outcome["filesystem"], \
        "stores disagree after the same history: %r" % outcome
finally:
    shutil.rmtree(tmp)
