import os, sys; sys.path.insert(0, os.getcwd())
# An unregistered custom object is added as a dictionary, the caller then bumps
# 'modified' (and a payload field) in the same dictionary and adds it again: two
# additions of two different versions.  The filesystem store holds both versions.
# The memory store keeps a reference to the caller's dictionary instead of the
# value that was added, so the first version is silently lost: all_versions()
# returns the second version twice and a query for the first finds nothing.
import copy, tempfile, uuid
from stix2 import MemoryStore, FileSystemStore, Filter

X = 'x-foo--' + str(uuid.uuid4())
results = {}
for st in (MemoryStore(), FileSystemStore(tempfile.mkdtemp(), allow_custom=True)):
    model = []                                  # plain list of what was added
    d = {'type': 'x-foo', 'id': X, 'created': '2020-01-01T00:00:00.000Z',
         'modified': '2020-01-01T00:00:00.000Z', 'n': 1}
    st.add(d); model.append(copy.deepcopy(d))
    d['modified'] = '2021-01-01T00:00:00.000Z'; d['n'] = 2
    st.add(d); model.append(copy.deepcopy(d))

    name = type(st).__name__
    got = sorted((o['modified'], o['n']) for o in st.all_versions(X))
    exp = sorted((o['modified'], o['n']) for o in model)
    assert got == exp, (name, 'all_versions', got, exp)
    q = [o['n'] for o in st.query([Filter('n', '=', 1)])]
    assert q == [1], (name, 'query n=1', q)
    assert st.get(X)['n'] == 2, (name, 'get')
print('ok')
