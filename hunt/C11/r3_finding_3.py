import os, sys; sys.path.insert(0, os.getcwd())
# add(stix_data, version='2.1') is documented on both stores ("forces the parser
# to use the version provided").  For one and the same identity dictionary (no
# spec_version key) the filesystem store honours it when the dictionary is
# added alone or in a list, but NOT when it sits inside a bundle dictionary:
# there the object is stored as a STIX 2.0 object, while the memory store
# stores a 2.1 object for all three forms.  Same history, different contents.
import json, tempfile, uuid
from stix2 import MemoryStore, FileSystemStore

I = 'identity--' + str(uuid.uuid4())
ident = {'type': 'identity', 'id': I, 'created': '2020-01-01T00:00:00.000Z',
         'modified': '2020-01-01T00:00:00.000Z', 'name': 'n', 'identity_class': 'individual'}

out = {}
for form in ('dict', 'list', 'bundle'):
    for st in (MemoryStore(), FileSystemStore(tempfile.mkdtemp(), allow_custom=True)):
        if form == 'dict':
            data = dict(ident)
        elif form == 'list':
            data = [dict(ident)]
        else:
            data = {'type': 'bundle', 'id': 'bundle--' + str(uuid.uuid4()), 'objects': [dict(ident)]}
        st.add(data, version='2.1')
        out[(form, type(st).__name__)] = json.loads(st.get(I).serialize())

ref = out[('dict', 'MemoryStore')]
assert ref.get('spec_version') == '2.1'
for k, v in sorted(out.items()):
    assert v == ref, (k, v, ref)
print('ok')
