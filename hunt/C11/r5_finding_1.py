import os, sys; sys.path.insert(0, os.getcwd())
# A registered custom type whose (library-accepted) name contains "--" or ends
# in "-" is written by the filesystem sink but can never be found again by id:
# the source derives the type directory from the id with split("--", 1)[0].
import shutil, tempfile
import stix2
from stix2 import FileSystemStore, Filter, MemoryStore, v20, v21
from stix2.properties import IntegerProperty


@v21.CustomObject('x--foo', [('n', IntegerProperty())])
class DoubleHyphen(object):
    pass


@v20.CustomObject('x-bar-', [('n', IntegerProperty())])
class TrailingHyphen(object):
    pass


problems = []
for obj in (DoubleHyphen(n=1), TrailingHyphen(n=2)):
    d = tempfile.mkdtemp()
    try:
        fs = FileSystemStore(d, allow_custom=True)
        mem = MemoryStore()
        fs.add(obj)
        mem.add(obj)
        # the list model: exactly one stored object with that id
        assert mem.get(obj.id) == obj
        assert mem.all_versions(obj.id) == [obj]
        # it *is* in the filesystem store ...
        assert [o.id for o in fs.query([Filter('type', '=', obj.type)])] == [obj.id]
        # ... but lookup by id must agree with the memory store / the list
        if fs.get(obj.id) != obj:
            problems.append(("get", obj.id, fs.get(obj.id)))
        if fs.all_versions(obj.id) != [obj]:
            problems.append(("all_versions", obj.id, fs.all_versions(obj.id)))
        if fs.query([Filter('id', 'in', [obj.id])]) != [obj]:
            problems.append(("query id in", obj.id))
    finally:
        shutil.rmtree(d)

assert not problems, problems
print("ok")
