import os, sys; sys.path.insert(0, os.getcwd())
# C03: STIX 2.1 identifiers need an "RFC 4122-compliant UUID".  The nil UUID is defined
# by RFC 4122 (section 4.1.7) but is refused (its variant bits are not the RFC 4122
# variant, which is what properties._check_uuid tests).
import json
import stix2
assert stix2.__file__.startswith(os.getcwd()), stix2.__file__

src = {
    "type": "identity", "spec_version": "2.1",
    "id": "identity--8d5b5e7c-9d5c-4b7c-9f5e-2f3d4c5b6a79",
    "created_by_ref": "identity--00000000-0000-0000-0000-000000000000",
    "created": "2020-01-01T00:00:00.000Z", "modified": "2020-01-01T00:00:00.000Z",
    "name": "n",
}
obj = stix2.parse(json.dumps(src), allow_custom=False)
out = json.loads(obj.serialize(include_optional_defaults=True))
assert out["created_by_ref"] == src["created_by_ref"]
print("ok")
