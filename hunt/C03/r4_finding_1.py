import os, sys; sys.path.insert(0, os.getcwd())
# C03: an input property value must be reproduced.  A 2.1 indicator whose optional
# string property pattern_version is the empty string comes back with "2.1".
import json
import stix2
assert stix2.__file__.startswith(os.getcwd()), stix2.__file__

src = {
    "type": "indicator", "spec_version": "2.1",
    "id": "indicator--8d5b5e7c-9d5c-4b7c-9f5e-2f3d4c5b6a79",
    "created": "2020-01-01T00:00:00.000Z", "modified": "2020-01-01T00:00:00.000Z",
    "pattern": "[file:name = 'a']", "pattern_type": "stix", "pattern_version": "",
    "valid_from": "2020-01-01T00:00:00Z",
}
obj = stix2.parse(json.dumps(src), allow_custom=False)
out = json.loads(obj.serialize(include_optional_defaults=True))
assert out["pattern_version"] == src["pattern_version"], \
    "pattern_version %r became %r" % (src["pattern_version"], out["pattern_version"])
print("ok")
