import os, sys; sys.path.insert(0, os.getcwd())
# A hashes key that is a legal dictionary key and names the algorithm, but is not
# spelled as in the vocabulary ("sha256", "md5"): accepted, but re-serialization
# replaces the key ("SHA-256", "MD5"), so the input property is not reproduced.
import json, stix2
U = "c8d2b5a6-7e4f-4b3a-9c1d-2e3f4a5b6c7d"
inp = {"type": "file", "spec_version": "2.1", "id": "file--" + U, "name": "a.bin",
       "hashes": {"sha256": "a" * 64, "md5": "b" * 32}}
obj = stix2.parse(json.dumps(inp), allow_custom=False)
out = json.loads(obj.serialize(include_optional_defaults=True))
assert out["hashes"] == inp["hashes"], (out["hashes"], inp["hashes"])
print("ok")
