import os, sys; sys.path.insert(0, os.getcwd())
# STIX 2.0 part 4, network-socket-protocol-family-enum has 25 entries (PF_INET, PF_AX25,
# PF_IPX, PF_INET6, PF_APPLETALK, PF_NETROM, PF_BRIDGE, PF_ATMPVC, PF_X25, PF_ROSE,
# PF_DECNET, PF_NETBEUI, PF_SECURITY, PF_KEY, PF_NETLINK, PF_ROUTE, PF_PACKET, PF_ASH,
# PF_ECONET, PF_ATMSVC, PF_SNA, PF_IRDA, PF_PPPOX, PF_WANPIPE, PF_BLUETOOTH); the
# library's 2.0 socket-ext only knows six of them.
import json, stix2
U = "c8d2b5a6-7e4f-4b3a-9c1d-2e3f4a5b6c7d"
T = "2020-01-01T00:00:00.000Z"
for pf in ["PF_INET", "PF_BLUETOOTH", "PF_NETLINK", "PF_PACKET", "PF_KEY"]:
    inp = {"type": "observed-data", "id": "observed-data--" + U, "created": T, "modified": T,
           "first_observed": T, "last_observed": T, "number_observed": 1,
           "objects": {
               "0": {"type": "ipv4-addr", "value": "198.51.100.2"},
               "1": {"type": "network-traffic", "src_ref": "0", "protocols": ["tcp"],
                     "extensions": {"socket-ext": {"address_family": "AF_INET",
                                                   "protocol_family": pf,
                                                   "socket_type": "SOCK_STREAM"}}}}}
    obj = stix2.parse(json.dumps(inp), allow_custom=False)   # must not raise
    out = json.loads(obj.serialize(include_optional_defaults=True))
    assert out["objects"]["1"]["extensions"]["socket-ext"]["protocol_family"] == pf
print("ok")
