import os, sys; sys.path.insert(0, os.getcwd())
import json
import stix2

# A STIX 2.1 indicator whose (grammatically and semantically valid) STIX
# pattern tests a hash with the set operator IN.  Also LIKE / MATCHES on a
# hashes.<ALG> object path are refused the same way.
patterns = [
    "[file:hashes.MD5 IN ('d41d8cd98f00b204e9800998ecf8427e', '0cc175b9c0f1b6a831c399e269772661')]",
    "[file:hashes.'SHA-256' LIKE 'aec07064%']",
    "[file:hashes.'SHA-1' MATCHES '^[a-f0-9]{40}$']",
]
failures = []
for spec in ("2.1", "2.0"):
    for p in patterns:
        obj = {
            "type": "indicator",
            "id": "indicator--8e2e2d2b-17d4-4cbf-938f-98ee46b3cd3f",
            "created": "2020-01-01T00:00:00.000Z",
            "modified": "2020-01-01T00:00:00.000Z",
            "pattern": p,
            "valid_from": "2020-01-01T00:00:00Z",
        }
        if spec == "2.1":
            obj.update(spec_version="2.1", pattern_type="stix")
        else:
            obj.update(labels=["malicious-activity"])
        try:
            parsed = stix2.parse(json.dumps(obj), allow_custom=False)
            out = json.loads(parsed.serialize(include_optional_defaults=True))
            assert out["pattern"] == p
        except Exception as e:
            failures.append("%s %s -> %s: %s" % (spec, p, type(e).__name__, e))

for f in failures:
    print(f)
assert not failures, "%d valid indicators were refused" % len(failures)
