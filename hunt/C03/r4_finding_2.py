import os, sys; sys.path.insert(0, os.getcwd())
# C03: a 2.1 object carrying a toplevel-property-extension may have extra top-level
# properties of any legal name.  Names that coincide with keyword parameters of the
# library's constructors (allow_custom, interoperability, custom_properties) are
# refused / mishandled because content is splatted into the constructor as **kwargs.
import json
import stix2
assert stix2.__file__.startswith(os.getcwd()), stix2.__file__

EXT = "extension-definition--8d5b5e7c-9d5c-4b7c-9f5e-2f3d4c5b6a79"


def ident(**kw):
    d = {
        "type": "identity", "spec_version": "2.1",
        "id": "identity--8d5b5e7c-9d5c-4b7c-9f5e-2f3d4c5b6a79",
        "created": "2020-01-01T00:00:00.000Z", "modified": "2020-01-01T00:00:00.000Z",
        "name": "n",
        "extensions": {EXT: {"extension_type": "toplevel-property-extension"}},
    }
    d.update(kw)
    return d


# control: an ordinary extension property is accepted and preserved
src = ident(rank=5)
out = json.loads(stix2.parse(json.dumps(src), allow_custom=False).serialize(include_optional_defaults=True))
assert out["rank"] == 5

problems = []
for name, value in (("allow_custom", True), ("interoperability", "yes"), ("custom_properties", {"abc": 1})):
    src = ident(**{name: value})
    try:
        obj = stix2.parse(json.dumps(src), allow_custom=False)
        out = json.loads(obj.serialize(include_optional_defaults=True))
        if out.get(name) != value:
            problems.append("%s: not preserved (%r)" % (name, out.get(name)))
    except Exception as e:
        problems.append("%s: %s: %s" % (name, type(e).__name__, e))
assert not problems, problems
print("ok")
