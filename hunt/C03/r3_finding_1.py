import os, sys; sys.path.insert(0, os.getcwd())
# A hashes dictionary whose key is a hash algorithm name outside hash-algorithm-ov.
# STIX 2.1 sec. 2.7 (and 2.0 part 1 sec. 2.6): the key "SHOULD come from" the open
# vocabulary -- other algorithm names are legal.  Strict parsing refuses them.
import json, stix2
U = "c8d2b5a6-7e4f-4b3a-9c1d-2e3f4a5b6c7d"
inputs = [
    {"type": "file", "spec_version": "2.1", "id": "file--" + U, "name": "a.bin",
     "hashes": {"SHA-384": "a" * 96}},
    {"type": "file", "spec_version": "2.1", "id": "file--" + U, "name": "a.bin",
     "hashes": {"BLAKE2b-256": "b" * 64}},
    # 2.0 container element, algorithm known to the library but not in the 2.0 vocabulary
    {"type": "observed-data", "id": "observed-data--" + U,
     "created": "2020-01-01T00:00:00.000Z", "modified": "2020-01-01T00:00:00.000Z",
     "first_observed": "2020-01-01T00:00:00Z", "last_observed": "2020-01-01T00:00:00Z",
     "number_observed": 1,
     "objects": {"0": {"type": "file", "name": "a.bin", "hashes": {"BLAKE2b-256": "b" * 64}}}},
]
for inp in inputs:
    obj = stix2.parse(json.dumps(inp), allow_custom=False)   # must not raise
    out = json.loads(obj.serialize(include_optional_defaults=True))
    for k, v in inp.items():
        if k not in ("created", "modified", "first_observed", "last_observed"):
            assert out[k] == v, (k, out[k], v)
print("ok")
