import os, sys; sys.path.insert(0, os.getcwd())
import json
import stix2

# STIX 2.1 network-traffic with 'start' and 'end' and WITHOUT the optional
# 'is_active' property.  (The spec forbids 'end' when is_active is true and
# wants is_active to be false when 'end' is there; it does not make the
# optional is_active mandatory.)
obj = {
    "type": "network-traffic",
    "spec_version": "2.1",
    "id": "network-traffic--2568d22a-8998-58eb-99ec-3c8ca74f527d",
    "start": "2020-01-01T00:00:00Z",
    "end": "2020-01-01T00:00:05Z",
    "src_ref": "ipv4-addr--4d22aae0-2bf9-5427-8819-e4f6abf20a53",
    "protocols": ["tcp"],
}
parsed = stix2.parse(json.dumps(obj), allow_custom=False)
out = json.loads(parsed.serialize(include_optional_defaults=True))
for k, v in obj.items():
    assert k in out, k
