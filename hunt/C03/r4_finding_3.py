import os, sys; sys.path.insert(0, os.getcwd())
# C03 "every legal reference target type": in STIX 2.1 an extension definition of type
# new-sdo introduces a new SDO type; a relationship / sighting / report may legally
# reference such an object.  In strict mode the reference is refused.
import json
import stix2
assert stix2.__file__.startswith(os.getcwd()), stix2.__file__

U = "8d5b5e7c-9d5c-4b7c-9f5e-2f3d4c5b6a79"
C = {"spec_version": "2.1", "created": "2020-01-01T00:00:00.000Z", "modified": "2020-01-01T00:00:00.000Z"}
cases = [
    dict(C, type="relationship", id="relationship--" + U, relationship_type="related-to",
         source_ref="identity--" + U, target_ref="my-new-sdo--" + U),
    dict(C, type="sighting", id="sighting--" + U, sighting_of_ref="my-new-sdo--" + U),
    dict(C, type="report", id="report--" + U, name="r", published="2020-01-01T00:00:00Z",
         object_refs=["my-new-sdo--" + U]),
]
problems = []
for src in cases:
    try:
        obj = stix2.parse(json.dumps(src), allow_custom=False)
        out = json.loads(obj.serialize(include_optional_defaults=True))
        for k, v in src.items():
            if k not in ("created", "modified"):
                assert out[k] == v, (k, out[k], v)
    except Exception as e:
        problems.append("%s: %s: %s" % (src["type"], type(e).__name__, e))
assert not problems, problems
print("ok")
