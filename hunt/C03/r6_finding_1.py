import os, sys; sys.path.insert(0, os.getcwd())
import json
import stix2

# STIX 2.1, socket-ext "options": "Each dictionary key MUST be a case-preserved
# version of the option name, e.g., SO_ACCEPTCONN ... Each dictionary value
# MUST be an integer."  The specification gives SO_* as an example only; it
# does not restrict option names to a set of prefixes.  UDP_CORK (udp(7)),
# SCTP_NODELAY (sctp(7)) or BT_SECURITY are real socket option names.
U = "311b2d2d-f010-4473-83ec-1edf84858f4c"
for opt in ("UDP_CORK", "SCTP_NODELAY", "BT_SECURITY"):
    nt = {
        "type": "network-traffic", "spec_version": "2.1", "id": "network-traffic--" + U,
        "src_ref": "ipv4-addr--" + U, "protocols": ["ipv4", "udp"],
        "extensions": {
            "socket-ext": {"address_family": "AF_INET", "socket_type": "SOCK_DGRAM", "options": {opt: 1}},
        },
    }
    obj = stix2.parse(json.dumps(nt), allow_custom=False)   # raises InvalidValueError: Incorrect options key
    out = json.loads(obj.serialize(include_optional_defaults=True))
    assert out["extensions"] == nt["extensions"]
print("ok")
