import os, sys; sys.path.insert(0, os.getcwd())
# C03 "the same holds when the object arrives inside a bundle": an object of an
# extension-defined type (extension_type new-sdo) is accepted by stix2.parse() in strict
# mode when alone (returned unchanged), but a 2.1 bundle (an implemented type) holding
# the very same object is refused.
import json
import stix2
assert stix2.__file__.startswith(os.getcwd()), stix2.__file__

U = "8d5b5e7c-9d5c-4b7c-9f5e-2f3d4c5b6a79"
new_sdo = {
    "type": "my-new-sdo", "spec_version": "2.1", "id": "my-new-sdo--" + U,
    "created": "2020-01-01T00:00:00.000Z", "modified": "2020-01-01T00:00:00.000Z",
    "foo": 1,
    "extensions": {"extension-definition--" + U: {"extension_type": "new-sdo"}},
}
alone = stix2.parse(json.dumps(new_sdo), allow_custom=False)   # accepted
assert dict(alone) == new_sdo

bundle = {"type": "bundle", "id": "bundle--" + U, "objects": [
    {"type": "identity", "spec_version": "2.1", "id": "identity--" + U, "name": "n",
     "created": "2020-01-01T00:00:00.000Z", "modified": "2020-01-01T00:00:00.000Z"},
    new_sdo,
]}
obj = stix2.parse(json.dumps(bundle), allow_custom=False)       # must be accepted too
out = json.loads(obj.serialize(include_optional_defaults=True))
assert out["objects"][1] == new_sdo
print("ok")
