import os, sys; sys.path.insert(0, os.getcwd())
import json, re, warnings
warnings.simplefilter("ignore")
import stix2

_TS = re.compile(r"^\d{4}-\d\d-\d\dT\d\d:\d\d:\d\d(\.\d+)?Z$")


def _norm_ts(s):
    s = s[:-1]
    main, _, frac = s.partition(".")
    return main, frac.rstrip("0")


def preserved(inp, out, path="$"):
    """Every input property must re-appear in the output with the same value
    (timestamps: same instant)."""
    if isinstance(inp, dict):
        assert isinstance(out, dict), "%s: %r became %r" % (path, inp, out)
        for k, v in inp.items():
            assert k in out, "%s.%s lost on re-serialization" % (path, k)
            preserved(v, out[k], path + "." + k)
    elif isinstance(inp, list):
        assert isinstance(out, list) and len(inp) == len(out), "%s: %r became %r" % (path, inp, out)
        for i, (a, b) in enumerate(zip(inp, out)):
            preserved(a, b, "%s[%d]" % (path, i))
    elif isinstance(inp, str) and isinstance(out, str) and _TS.match(inp) and _TS.match(out):
        assert _norm_ts(inp) == _norm_ts(out), "%s: instant changed %r -> %r" % (path, inp, out)
    else:
        assert type(inp) is type(out) or (isinstance(inp, (int, float)) and isinstance(out, (int, float)) and not isinstance(inp, bool) and not isinstance(out, bool)), "%s: %r became %r" % (path, inp, out)
        assert inp == out, "%s: %r became %r" % (path, inp, out)


def roundtrip(obj):
    """The observation point of property C03."""
    parsed = stix2.parse(json.dumps(obj), allow_custom=False)
    out = json.loads(parsed.serialize(include_optional_defaults=True))
    preserved(obj, out)
    return out


U = "311b2d2d-f010-4473-83ec-1edf84858f4c"
U2 = "4b1ee3a4-3d27-4f2c-8f7b-1f2a3c4d5e6f"
C = "2020-01-01T00:00:00.000Z"

# STIX 2.1 language-content.object_modified "MUST be an exact match for the
# modified time of the STIX Object being referenced"; 2.1 'modified' values may
# carry more than three sub-second digits.  The library truncates the value to
# milliseconds, i.e. re-serializes a different instant.
roundtrip({"type": "language-content", "spec_version": "2.1",
           "id": "language-content--" + U, "created": C, "modified": C,
           "object_ref": "campaign--" + U2,
           "object_modified": "2017-02-08T21:31:22.007123Z",
           "contents": {"de": {"name": "Bank Angriff 1"}}})

print("property holds")
