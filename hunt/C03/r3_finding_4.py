import os, sys; sys.path.insert(0, os.getcwd())
# marking-definition.definition_type is an open vocabulary ("SHOULD be one of ...
# statement, tlp") in 2.0 and 2.1; a marking definition of another type (e.g. the FIRST
# IEP markings, definition_type "iep") is refused by strict parsing.
import json, stix2
U = "c8d2b5a6-7e4f-4b3a-9c1d-2e3f4a5b6c7d"
T = "2020-01-01T00:00:00.000Z"
defn = {"name": "FIRST IEP-SIG", "version": "2.0", "tlp": "amber",
        "permitted_actions": "externally visible direct actions"}
for inp in [
    {"type": "marking-definition", "id": "marking-definition--" + U, "created": T,
     "definition_type": "iep", "definition": defn},
    {"type": "marking-definition", "spec_version": "2.1", "id": "marking-definition--" + U,
     "created": T, "definition_type": "iep", "definition": defn},
]:
    obj = stix2.parse(json.dumps(inp), allow_custom=False)   # must not raise
    out = json.loads(obj.serialize(include_optional_defaults=True))
    assert out["definition_type"] == "iep" and out["definition"] == defn
print("ok")
