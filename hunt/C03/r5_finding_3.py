import os, sys; sys.path.insert(0, os.getcwd())
import json
import stix2

# The 'dictionary' data type of STIX 2.0 / 2.1 has no minimum number of
# entries (only lists are forbidden to be empty); an empty dictionary value is
# a legal value shape.
objs = [
    {"type": "process", "spec_version": "2.1", "id": "process--f52a906a-0dfc-40bd-92f1-e7778ead38a9",
     "pid": 1, "environment_variables": {}},
    {"type": "network-traffic", "spec_version": "2.1", "id": "network-traffic--2568d22a-8998-58eb-99ec-3c8ca74f527d",
     "src_ref": "ipv4-addr--4d22aae0-2bf9-5427-8819-e4f6abf20a53", "protocols": ["tcp"], "ipfix": {}},
    {"type": "email-message", "spec_version": "2.1", "id": "email-message--72b7698f-10c2-565a-a2a6-b4996a2f2265",
     "is_multipart": False, "additional_header_fields": {}},
]
failures = []
for obj in objs:
    try:
        parsed = stix2.parse(json.dumps(obj), allow_custom=False)
        out = json.loads(parsed.serialize(include_optional_defaults=True))
        for k, v in obj.items():
            assert out.get(k) == v, (k, out.get(k))
    except Exception as e:
        failures.append("%s -> %s: %s" % (obj["type"], type(e).__name__, e))
for f in failures:
    print(f)
assert not failures
