import os, sys; sys.path.insert(0, os.getcwd())
import json, warnings
warnings.simplefilter("ignore")
import stix2
from stix2 import v20, v21

def emitted(f):
    """Return the emitted JSON (as python data) or None when the library refuses the input."""
    try:
        obj = f()
        return json.loads(obj.serialize())
    except Exception:
        return None

def walk(x, path=""):
    yield path, x
    if isinstance(x, dict):
        for k, v in x.items():
            yield from walk(v, path + "/" + k)
    elif isinstance(x, list):
        for i, v in enumerate(x):
            yield from walk(v, path + "/%d" % i)

def no_null_or_empty(doc):
    for p, v in walk(doc):
        assert v is not None, "null emitted at %s: %r" % (p, doc)
        assert v != {} and v != [], "empty container emitted at %s: %r" % (p, doc)

ID = "identity--4d7f3e25-ba1c-447a-ab71-6434b092b05e"

# relationship_type MUST be ASCII, limited to a-z, 0-9 and hyphen
import re
cases = [
    lambda: v21.Relationship(ID, "Uses It!", ID),
    lambda: v20.Relationship(ID, "Uses It!", ID),
    lambda: v21.Relationship(source_ref=ID, relationship_type="related_to", target_ref=ID),
    lambda: stix2.parse({"type": "relationship", "spec_version": "2.1", "id": "relationship--4d7f3e25-ba1c-447a-ab71-6434b092b05e",
                         "created": "2020-01-01T00:00:00.000Z", "modified": "2020-01-01T00:00:00.000Z",
                         "relationship_type": "UPPER CASE \u00e9", "source_ref": ID, "target_ref": ID}),
]
for c in cases:
    doc = emitted(c)
    if doc is not None:
        assert re.fullmatch(r"[a-z0-9-]+", doc["relationship_type"]), "illegal relationship_type emitted: %r" % (doc,)
