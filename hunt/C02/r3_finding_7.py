import os, sys; sys.path.insert(0, os.getcwd())
import json, warnings
warnings.simplefilter("ignore")
import stix2
from stix2 import v20, v21

def attempt(f):
    """Return the emitted JSON (as python data) or None when the library refuses."""
    try:
        obj = f()
        text = obj.serialize() if hasattr(obj, "serialize") else json.dumps(obj)
    except Exception as exc:
        print("refused:", type(exc).__name__, str(exc)[:100])
        return None
    print("emitted:", text)
    return json.loads(text)

import re
# STIX 2.1 section 3.1 property names: lowercase a-z, 0-9, underscore, 3..250 characters; no nulls / empty containers.
E = 'extension-definition--4d7f3e25-ba1c-447a-ab71-6434b092b05e'
base = {"type": "identity", "spec_version": "2.1", "id": "identity--4d7f3e25-ba1c-447a-ab71-6434b092b05e",
        "created": "2020-01-01T00:00:00.000Z", "modified": "2020-01-01T00:00:00.000Z", "name": "x",
        "extensions": {E: {"extension_type": "toplevel-property-extension"}}}
NAME = re.compile(r'^[a-z0-9_]{3,250}\Z')
def bad_values(x):
    if x is None or x == [] or x == {}:
        return True
    if isinstance(x, dict):
        return any(bad_values(v) for v in x.values())
    if isinstance(x, list):
        return any(bad_values(v) for v in x)
    return False
for extra in ({'Bad Name!': 1}, {'': 1}, {'foo': {}}, {'bar': {'k': None}}, {'baz': [[]]}):
    out = attempt(lambda: stix2.parse(dict(base, **extra)))
    if out is not None:
        for k, v in out.items():
            assert k == "id" or NAME.match(k), "illegal property name emitted: %r" % k
            assert not bad_values(v), "null / empty container emitted in %r: %r" % (k, v)
