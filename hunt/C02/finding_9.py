import os, sys; sys.path.insert(0, os.getcwd())
import json, warnings
warnings.simplefilter("ignore")
import stix2
from stix2 import v20, v21

def emitted(f):
    """Return the emitted JSON (as python data) or None when the library refuses the input."""
    try:
        obj = f()
        return json.loads(obj.serialize())
    except Exception:
        return None

def walk(x, path=""):
    yield path, x
    if isinstance(x, dict):
        for k, v in x.items():
            yield from walk(v, path + "/" + k)
    elif isinstance(x, list):
        for i, v in enumerate(x):
            yield from walk(v, path + "/%d" % i)

def no_null_or_empty(doc):
    for p, v in walk(doc):
        assert v is not None, "null emitted at %s: %r" % (p, doc)
        assert v != {} and v != [], "empty container emitted at %s: %r" % (p, doc)

ID = "identity--4d7f3e25-ba1c-447a-ab71-6434b092b05e"

# language-content.contents: dictionary (language code) of dictionaries (property name -> translated value)
cases = [
    lambda: v21.LanguageContent(object_ref=ID, contents={"en": 5}),
    lambda: v21.LanguageContent(object_ref=ID, contents={"en": None}),
    lambda: v21.LanguageContent(object_ref=ID, contents={"en": {}}),
    lambda: stix2.parse({"type": "language-content", "spec_version": "2.1", "id": "language-content--4d7f3e25-ba1c-447a-ab71-6434b092b05e",
                         "created": "2020-01-01T00:00:00.000Z", "modified": "2020-01-01T00:00:00.000Z",
                         "object_ref": ID, "contents": {"en": "text"}}),
]
for c in cases:
    doc = emitted(c)
    if doc is not None:
        no_null_or_empty(doc)
        for lang, tr in doc["contents"].items():
            assert isinstance(tr, dict), "contents[%r] is not a dictionary: %r" % (lang, doc)
