import os, sys; sys.path.insert(0, os.getcwd())
# STIX 2.1 observed-data: "object_refs ... MUST contain at least one SCO reference if defined."
# A list holding only SRO references must therefore be refused (or normalised), never emitted.
import json
import stix2
from stix2 import v21

U = '4d7f3e25-ba1c-447a-ab71-6434b092b05e'
T = '2020-01-01T00:00:00Z'
SCO_TYPES = {
    'artifact', 'autonomous-system', 'directory', 'domain-name', 'email-addr', 'email-message', 'file',
    'ipv4-addr', 'ipv6-addr', 'mac-addr', 'mutex', 'network-traffic', 'process', 'software', 'url',
    'user-account', 'windows-registry-key', 'x509-certificate',
}


def emitted(build):
    try:
        obj = build()
    except Exception:
        return None     # refused: fine
    return json.loads(obj.serialize())


outs = [
    emitted(lambda: v21.ObservedData(first_observed=T, last_observed=T, number_observed=1,
                                     object_refs=['relationship--' + U])),
    emitted(lambda: stix2.parse({
        'type': 'observed-data', 'spec_version': '2.1', 'id': 'observed-data--' + U,
        'created': '2020-01-01T00:00:00.000Z', 'modified': '2020-01-01T00:00:00.000Z',
        'first_observed': T, 'last_observed': T, 'number_observed': 1,
        'object_refs': ['relationship--' + U, 'sighting--' + U],
    })),
]
for out in outs:
    if out is None:
        continue
    refs = out.get('object_refs')
    if refs is not None:
        assert any(r.split('--')[0] in SCO_TYPES for r in refs), \
            "observed-data emitted with object_refs that contain no SCO reference: %r" % refs
print("ok")
