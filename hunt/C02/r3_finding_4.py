import os, sys; sys.path.insert(0, os.getcwd())
import json, warnings
warnings.simplefilter("ignore")
import stix2
from stix2 import v20, v21

def attempt(f):
    """Return the emitted JSON (as python data) or None when the library refuses."""
    try:
        obj = f()
        text = obj.serialize() if hasattr(obj, "serialize") else json.dumps(obj)
    except Exception as exc:
        print("refused:", type(exc).__name__, str(exc)[:100])
        return None
    print("emitted:", text)
    return json.loads(text)

import re, datetime as dt
# STIX 2.0 part 1, 3.1: created "MUST be precise to the nearest millisecond (exactly three digits after
# the decimal place in seconds)"; marking-definition uses that common property.
MS = re.compile(r'^\d{4}-\d\d-\d\dT\d\d:\d\d:\d\d\.\d{3}Z\Z')
for f in (
    lambda: v20.MarkingDefinition(definition_type='statement', definition={'statement': 'x'},
                                  created=dt.datetime(2017, 1, 20, 0, 0, 0, 123456)),
    lambda: v20.MarkingDefinition(definition_type='statement', definition={'statement': 'x'}, created='2017-01-20T00:00:00Z'),
    lambda: stix2.parse({"type": "marking-definition", "id": "marking-definition--4d7f3e25-ba1c-447a-ab71-6434b092b05e",
                         "created": "2017-01-20T00:00:00Z", "definition_type": "statement", "definition": {"statement": "x"}}, version='2.0'),
):
    out = attempt(f)
    if out is not None:
        assert MS.match(out['created']), "2.0 marking-definition.created not in millisecond precision: %s" % out['created']
