import os, sys; sys.path.insert(0, os.getcwd())
# Option combination: allow_custom=False (customization disallowed) together with interoperability=True.
# The identifier check is then reduced to "five groups of hex digits": the nil UUID, UUIDs of the NCS /
# Microsoft variants and, for STIX 2.0, UUIDs that are not version 4 are all accepted and emitted.
import json, uuid
import stix2
from stix2 import v20, v21


def emitted(build):
    try:
        obj = build()
    except Exception:
        return None
    return json.loads(obj.serialize())


def ok_21(id_):
    u = uuid.UUID(id_.split('--', 1)[1])
    return u.variant == uuid.RFC_4122


def ok_20(id_):
    u = uuid.UUID(id_.split('--', 1)[1])
    return u.variant == uuid.RFC_4122 and u.version == 4


bad = []
out = emitted(lambda: v21.Identity(name='x', id='identity--00000000-0000-0000-0000-000000000000', interoperability=True))
if out is not None and not ok_21(out['id']):
    bad.append(out['id'])
out = emitted(lambda: stix2.parse({
    'type': 'identity', 'spec_version': '2.1', 'id': 'identity--4d7f3e25-ba1c-447a-ab71-6434b092b05e', 'name': 'x',
    'created': '2020-01-01T00:00:00.000Z', 'modified': '2020-01-01T00:00:00.000Z',
    'created_by_ref': 'identity--ffffffff-ffff-ffff-ffff-ffffffffffff',
}, allow_custom=False, interoperability=True))
if out is not None and not ok_21(out['created_by_ref']):
    bad.append(out['created_by_ref'])
out = emitted(lambda: v20.Identity(name='x', identity_class='individual',
                                   id='identity--a3a34ab0-0000-11ee-be56-0242ac120002', interoperability=True))
if out is not None and not ok_20(out['id']):
    bad.append(out['id'])

assert not bad, "with allow_custom=False, interoperability=True these malformed identifiers were emitted: %r" % bad
print("ok")
