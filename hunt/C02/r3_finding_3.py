import os, sys; sys.path.insert(0, os.getcwd())
import json, warnings
warnings.simplefilter("ignore")
import stix2
from stix2 import v20, v21

def attempt(f):
    """Return the emitted JSON (as python data) or None when the library refuses."""
    try:
        obj = f()
        text = obj.serialize() if hasattr(obj, "serialize") else json.dumps(obj)
    except Exception as exc:
        print("refused:", type(exc).__name__, str(exc)[:100])
        return None
    print("emitted:", text)
    return json.loads(text)

# STIX 2.1 6.16 / 6.17: "As all properties of this object are optional, at least one of the
# properties defined below MUST be included when using this object."
own = {
  'user-account': ['user_id','credential','account_login','account_type','display_name','is_service_account','is_privileged',
                   'can_escalate_privs','is_disabled','account_created','account_expires','credential_last_changed',
                   'account_first_login','account_last_login'],
  'windows-registry-key': ['key','values','modified_time','creator_user_ref','number_of_subkeys'],
}
for f in (
    lambda: v21.UserAccount(),
    lambda: v21.WindowsRegistryKey(),
    lambda: stix2.parse({"type": "user-account", "spec_version": "2.1", "id": "user-account--4d7f3e25-ba1c-447a-ab71-6434b092b05e"}),
    lambda: stix2.parse({"type": "windows-registry-key", "spec_version": "2.1", "id": "windows-registry-key--4d7f3e25-ba1c-447a-ab71-6434b092b05e"}),
):
    out = attempt(f)
    if out is not None:
        assert any(p in out for p in own[out['type']]), "%s emitted without any of its own properties" % out['type']
