import os, sys; sys.path.insert(0, os.getcwd())
import json, warnings
warnings.simplefilter("ignore")
import stix2
from stix2 import v20, v21

def attempt(f):
    """Return the emitted JSON (as python data) or None when the library refuses."""
    try:
        obj = f()
        text = obj.serialize() if hasattr(obj, "serialize") else json.dumps(obj)
    except Exception as exc:
        print("refused:", type(exc).__name__, str(exc)[:100])
        return None
    print("emitted:", text)
    return json.loads(text)

# The predefined object extensions belong to one object type each (archive-ext, ntfs-ext, pdf-ext, raster-image-ext,
# windows-pebinary-ext: file; http-request-ext, icmp-ext, socket-ext, tcp-ext: network-traffic;
# windows-process-ext, windows-service-ext: process; unix-account-ext: user-account).
home = {'archive-ext': 'file', 'ntfs-ext': 'file', 'socket-ext': 'network-traffic', 'unix-account-ext': 'user-account'}
F = 'file--4d7f3e25-ba1c-447a-ab71-6434b092b05e'
for f in (
    lambda: v21.Identity(name='x', extensions={'archive-ext': {'contains_refs': [F]}}),
    lambda: v21.Process(pid=1, extensions={'ntfs-ext': {'sid': 'x'}}),
    lambda: v21.File(name='x', extensions={'socket-ext': {'address_family': 'AF_INET'}}),
    lambda: v20.File(name='x', extensions={'socket-ext': {'address_family': 'AF_INET'}}),
    lambda: stix2.parse({"type": "identity", "spec_version": "2.1", "id": "identity--4d7f3e25-ba1c-447a-ab71-6434b092b05e",
                         "created": "2020-01-01T00:00:00.000Z", "modified": "2020-01-01T00:00:00.000Z", "name": "x",
                         "extensions": {"unix-account-ext": {"gid": 1}}}),
):
    out = attempt(f)
    if out is not None:
        for ext in out.get('extensions', {}):
            if ext in home:
                assert out['type'] == home[ext], "%s emitted on a %s object" % (ext, out['type'])
