import os, sys; sys.path.insert(0, os.getcwd())
import json, warnings
warnings.simplefilter("ignore")
import stix2
from stix2 import v20, v21

def attempt(f):
    """Return the emitted JSON (as python data) or None when the library refuses."""
    try:
        obj = f()
        text = obj.serialize() if hasattr(obj, "serialize") else json.dumps(obj)
    except Exception as exc:
        print("refused:", type(exc).__name__, str(exc)[:100])
        return None
    print("emitted:", text)
    return json.loads(text)

# socket-ext.options: "each dictionary value MUST be an integer" (STIX 2.1, 6.12.4)
out = attempt(lambda: v21.NetworkTraffic(
    src_ref='ipv4-addr--4d7f3e25-ba1c-447a-ab71-6434b092b05e', protocols=['tcp'],
    extensions={'socket-ext': {'address_family': 'AF_INET', 'options': {'SO_KEEPALIVE': True}}},
))
if out is not None:
    v = out['extensions']['socket-ext']['options']['SO_KEEPALIVE']
    assert isinstance(v, int) and not isinstance(v, bool), "boolean emitted where an integer is required: %r" % (v,)
out = attempt(lambda: stix2.parse({
    "type": "network-traffic", "spec_version": "2.1", "id": "network-traffic--4d7f3e25-ba1c-447a-ab71-6434b092b05e",
    "src_ref": "ipv4-addr--4d7f3e25-ba1c-447a-ab71-6434b092b05e", "protocols": ["tcp"],
    "extensions": {"socket-ext": {"address_family": "AF_INET", "options": {"SO_KEEPALIVE": False}}}}))
if out is not None:
    v = out['extensions']['socket-ext']['options']['SO_KEEPALIVE']
    assert isinstance(v, int) and not isinstance(v, bool), "boolean emitted where an integer is required: %r" % (v,)
