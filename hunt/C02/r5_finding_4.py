import os, sys; sys.path.insert(0, os.getcwd())
# Sizes which the specification declares non-negative:
#  STIX 2.1 alternate-data-stream-type.size  ("The value of this property MUST NOT be negative", as for file.size)
#  STIX 2.0 file.size / alternate-data-stream-type.size ("... in bytes, as a non-negative integer")
# v21.File(size=-1) is refused, but the same value in the slots below is emitted as given.
import json
import stix2
from stix2 import v20, v21


def emitted(build):
    try:
        obj = build()
    except Exception:
        return None
    return json.loads(obj.serialize())


bad = []
out = emitted(lambda: v21.File(name='x', extensions={'ntfs-ext': {'alternate_data_streams': [{'name': 'a', 'size': -5}]}}))
if out is not None and out['extensions']['ntfs-ext']['alternate_data_streams'][0]['size'] < 0:
    bad.append(('2.1 ntfs-ext alternate_data_streams[0].size', out['extensions']['ntfs-ext']['alternate_data_streams'][0]['size']))
out = emitted(lambda: stix2.parse_observable({'type': 'file', 'name': 'x', 'size': -5}, version='2.0'))
if out is not None and out['size'] < 0:
    bad.append(('2.0 file.size', out['size']))
out = emitted(lambda: v20.File(name='x', extensions={'ntfs-ext': {'alternate_data_streams': [{'name': 'a', 'size': -5}]}}))
if out is not None and out['extensions']['ntfs-ext']['alternate_data_streams'][0]['size'] < 0:
    bad.append(('2.0 ntfs-ext alternate_data_streams[0].size', -5))

assert not bad, "negative sizes emitted: %r" % bad
print("ok")
