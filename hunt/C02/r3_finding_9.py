import os, sys; sys.path.insert(0, os.getcwd())
import json, warnings
warnings.simplefilter("ignore")
import stix2
from stix2 import v20, v21

def attempt(f):
    """Return the emitted JSON (as python data) or None when the library refuses."""
    try:
        obj = f()
        text = obj.serialize() if hasattr(obj, "serialize") else json.dumps(obj)
    except Exception as exc:
        print("refused:", type(exc).__name__, str(exc)[:100])
        return None
    print("emitted:", text)
    return json.loads(text)

import ipaddress, re
# STIX 2.1 6.7/6.8/6.9: ipv4-addr.value / ipv6-addr.value "MUST be a valid IPv4 (IPv6) address" (CIDR allowed);
# mac-addr.value "MUST be a single colon-delimited, lowercase MAC-48 address".  (2.0 part 4 says the same.)
def ok(t, v):
    try:
        if t == 'ipv4-addr':
            ipaddress.IPv4Network(v, strict=False); return True
        if t == 'ipv6-addr':
            ipaddress.IPv6Network(v, strict=False); return True
    except ValueError:
        return False
    return bool(re.match(r'^([0-9a-f]{2}:){5}[0-9a-f]{2}\Z', v))
for f in (
    lambda: v21.IPv4Address(value='not an ip'),
    lambda: v21.IPv4Address(value='999.1.1.1'),
    lambda: v21.IPv6Address(value='1.2.3.4.5::zz'),
    lambda: v21.MACAddress(value='ZZ'),
    lambda: stix2.parse_observable({'type': 'ipv4-addr', 'value': 'not an ip'}, version='2.0'),
    lambda: stix2.parse({"type": "mac-addr", "spec_version": "2.1", "id": "mac-addr--4d7f3e25-ba1c-447a-ab71-6434b092b05e",
                         "value": "D2-FB-49-24-37-18"}),
):
    out = attempt(f)
    if out is not None:
        assert ok(out['type'], out['value']), "%s.value emitted as given: %r" % (out['type'], out['value'])
