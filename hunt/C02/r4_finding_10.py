import os, sys; sys.path.insert(0, os.getcwd())
# STIX 2.0 has no extension definitions: on a 2.0 cyber observable every extension other than the predefined ones
# (archive-ext, ntfs-ext, ...) is a custom extension and must be refused when customization is disallowed.
# ExtensionsProperty lets any 'extension-definition--<uuid4>' key through for spec_version 2.0 as well, content unchecked.
import json
import stix2
from stix2 import v20

PREDEFINED = set(stix2.v20.EXT_MAP) if hasattr(stix2.v20, 'EXT_MAP') else set()
KEY = 'extension-definition--4d7f3e25-ba1c-447a-ab71-6434b092b05e'
bad = []
for label, make in [
    ("ctor", lambda: v20.File(name='x', extensions={KEY: {'a': 1}})),
    ("parse_observable", lambda: stix2.parse_observable(
        {'type': 'file', 'name': 'x', 'extensions': {KEY: {'extension_type': 'property-extension', 'Bad Key!': None}}}, version='2.0')),
    ("in observed-data", lambda: stix2.parse(
        {'type': 'observed-data', 'id': 'observed-data--4d7f3e25-ba1c-447a-ab71-6434b092b05e',
         'created': '2020-01-01T00:00:00.000Z', 'modified': '2020-01-01T00:00:00.000Z',
         'first_observed': '2020-01-01T00:00:00Z', 'last_observed': '2020-01-01T00:00:00Z', 'number_observed': 1,
         'objects': {'0': {'type': 'file', 'name': 'x', 'extensions': {KEY: {'a': 1}}}}})),
]:
    try:
        out = json.loads(make().serialize())
    except Exception:
        continue
    f = out if out['type'] == 'file' else out['objects']['0']
    for k in f.get('extensions', {}):
        if k not in PREDEFINED:
            bad.append((label, k, f['extensions'][k]))
assert not bad, "unknown (custom) extension emitted on a STIX 2.0 observable in strict mode: %r" % bad
