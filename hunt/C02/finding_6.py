import os, sys; sys.path.insert(0, os.getcwd())
import json, warnings
warnings.simplefilter("ignore")
import stix2
from stix2 import v20, v21

def emitted(f):
    """Return the emitted JSON (as python data) or None when the library refuses the input."""
    try:
        obj = f()
        return json.loads(obj.serialize())
    except Exception:
        return None

def walk(x, path=""):
    yield path, x
    if isinstance(x, dict):
        for k, v in x.items():
            yield from walk(v, path + "/" + k)
    elif isinstance(x, list):
        for i, v in enumerate(x):
            yield from walk(v, path + "/%d" % i)

def no_null_or_empty(doc):
    for p, v in walk(doc):
        assert v is not None, "null emitted at %s: %r" % (p, doc)
        assert v != {} and v != [], "empty container emitted at %s: %r" % (p, doc)

ID = "identity--4d7f3e25-ba1c-447a-ab71-6434b092b05e"

# 'binary' values must be base64; base64.b64decode() without validate=True silently skips foreign characters
import base64, binascii
cases = [
    lambda: v21.Artifact(payload_bin="!!!!"),
    lambda: v21.Artifact(payload_bin="abc$d==="),
    lambda: stix2.parse({"type": "artifact", "spec_version": "2.1", "id": "artifact--4d7f3e25-ba1c-447a-ab71-6434b092b05e", "payload_bin": "*** not base64 ***"}),
    lambda: stix2.parse_observable({"type": "artifact", "payload_bin": "!!!!"}, version="2.0"),
]
for c in cases:
    doc = emitted(c)
    if doc is not None:
        try:
            base64.b64decode(doc["payload_bin"], validate=True)
        except binascii.Error:
            raise AssertionError("payload_bin is not base64: %r" % (doc,))
