import os, sys; sys.path.insert(0, os.getcwd())
# TLP marking definitions are fixed instances ("other instances of tlp-marking MUST NOT be used or created").
# check_tlp_marking() only fires when definition_type == 'tlp'; a 2.1 marking definition that carries an
# 'extensions' property may omit definition_type, and then a TLP marking object is accepted under any id/created/name.
import json
from stix2 import v21

TLP = {'white': 'marking-definition--613f2e26-407d-48c7-9eca-b8e91df99dc9'}
EXT = {'extension-definition--4d7f3e25-ba1c-447a-ab71-6434b092b05e': {'extension_type': 'property-extension', 'some_prop': 1}}
try:
    out = json.loads(v21.MarkingDefinition(definition=v21.TLPMarking(tlp='white'), extensions=EXT).serialize())
except Exception:
    sys.exit(0)    # rejected: fine
d = out.get('definition', {})
assert not ('tlp' in d and out['id'] != TLP.get(d['tlp'])), \
    "a TLP marking definition other than the fixed instance was emitted: %r" % out
