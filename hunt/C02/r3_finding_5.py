import os, sys; sys.path.insert(0, os.getcwd())
import json, warnings
warnings.simplefilter("ignore")
import stix2
from stix2 import v20, v21

def attempt(f):
    """Return the emitted JSON (as python data) or None when the library refuses."""
    try:
        obj = f()
        text = obj.serialize() if hasattr(obj, "serialize") else json.dumps(obj)
    except Exception as exc:
        print("refused:", type(exc).__name__, str(exc)[:100])
        return None
    print("emitted:", text)
    return json.loads(text)

# STIX 2.0 part 3, 2.5 object-ref: "MUST be valid key in the observable-objects container"; each *_ref names the
# type it must point at (archive-ext.contains_refs -> file, body_raw_ref -> artifact/file, ...)
od = dict(type='observed-data', id='observed-data--4d7f3e25-ba1c-447a-ab71-6434b092b05e',
          created='2020-01-01T00:00:00.000Z', modified='2020-01-01T00:00:00.000Z',
          first_observed='2020-01-01T00:00:00Z', last_observed='2020-01-01T00:00:00Z', number_observed=1)
cases = [
    {'0': {'type': 'file', 'name': 'x', 'extensions': {'archive-ext': {'contains_refs': ['5']}}}},
    {'0': {'type': 'email-message', 'is_multipart': True, 'body_multipart': [{'body_raw_ref': '7'}]}},
    {'0': {'type': 'process', 'pid': 1, 'extensions': {'windows-service-ext': {'service_name': 'x', 'service_dll_refs': ['0']}}}},
    {'0': {'type': 'network-traffic', 'protocols': ['tcp'], 'src_ref': '1',
           'extensions': {'http-request-ext': {'request_method': 'get', 'request_value': '/', 'message_body_data_ref': '1'}}},
     '1': {'type': 'ipv4-addr', 'value': '1.2.3.4'}},
]
def refs(x):
    if isinstance(x, dict):
        for k, v in x.items():
            if k.endswith('_ref'):
                yield k, v
            elif k.endswith('_refs'):
                for r in v:
                    yield k, r
            else:
                yield from refs(v)
    elif isinstance(x, list):
        for i in x:
            yield from refs(i)
allowed = {'contains_refs': None, 'body_raw_ref': ('artifact', 'file'), 'service_dll_refs': ('file',),
           'message_body_data_ref': ('artifact',), 'src_ref': ('ipv4-addr',)}
for objects in cases:
    out = attempt(lambda: stix2.parse(dict(od, objects=objects), version='2.0'))
    if out is not None:
        for name, ref in refs(out['objects']):
            assert ref in out['objects'], "dangling object-ref emitted: %s=%r" % (name, ref)
            if allowed.get(name):
                assert out['objects'][ref]['type'] in allowed[name],                     "%s points at a %s" % (name, out['objects'][ref]['type'])
