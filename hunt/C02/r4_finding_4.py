import os, sys; sys.path.insert(0, os.getcwd())
# email-message: 'body' MUST NOT be used if is_multipart is true.  The check uses the truthiness of body,
# so an empty-string body gets through and is emitted.
import json
import stix2
from stix2 import v20, v21

bad = []
def check(label, make):
    try:
        out = json.loads(make().serialize())
    except Exception:
        return
    if out.get('is_multipart') is True and 'body' in out:
        bad.append((label, out))

check("v21 ctor", lambda: v21.EmailMessage(is_multipart=True, body=''))
check("v21 parse", lambda: stix2.parse({'type': 'email-message', 'spec_version': '2.1',
                                        'id': 'email-message--4d7f3e25-ba1c-447a-ab71-6434b092b05e', 'is_multipart': True, 'body': ''}))
check("v20 parse_observable", lambda: stix2.parse_observable({'type': 'email-message', 'is_multipart': True, 'body': ''}, version='2.0'))
assert not bad, "email-message with is_multipart true emitted with a body: %r" % bad
