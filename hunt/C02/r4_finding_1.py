import os, sys; sys.path.insert(0, os.getcwd())
# Keys of the observable-objects container ('objects' of observed-data) are dictionary keys:
# they must consist of a-z A-Z 0-9 - _ and must not be empty.  ObservableProperty.clean never looks at them.
import json, re, warnings
warnings.simplefilter('ignore')
import stix2
from stix2 import v20, v21

KEY_OK = re.compile(r'^[a-zA-Z0-9_-]+\Z')
bad = []
for label, make in [
    ("v20 ctor 'bad key!'", lambda: v20.ObservedData(first_observed='2020-01-01T00:00:00Z', last_observed='2020-01-01T00:00:00Z',
                                        number_observed=1, objects={'bad key!': {'type': 'file', 'name': 'x'}})),
    ("v20 ctor ''", lambda: v20.ObservedData(first_observed='2020-01-01T00:00:00Z', last_observed='2020-01-01T00:00:00Z',
                                        number_observed=1, objects={'': {'type': 'file', 'name': 'x'}})),
    ("v20 parse", lambda: stix2.parse({'type': 'observed-data', 'id': 'observed-data--4d7f3e25-ba1c-447a-ab71-6434b092b05e',
                                        'created': '2020-01-01T00:00:00.000Z', 'modified': '2020-01-01T00:00:00.000Z',
                                        'first_observed': '2020-01-01T00:00:00Z', 'last_observed': '2020-01-01T00:00:00Z',
                                        'number_observed': 1, 'objects': {'a b\u00e9!': {'type': 'file', 'name': 'x'}}})),
    ("v21 ctor", lambda: v21.ObservedData(first_observed='2020-01-01T00:00:00Z', last_observed='2020-01-01T00:00:00Z',
                                        number_observed=1, objects={'bad key!': {'type': 'file', 'name': 'x'}})),
]:
    try:
        out = json.loads(make().serialize())
    except Exception as e:
        continue   # rejected: fine
    for k in out['objects']:
        if not KEY_OK.match(k):
            bad.append((label, k))
assert not bad, "illegal observable-objects dictionary keys emitted: %r" % bad
