import os, sys; sys.path.insert(0, os.getcwd())
# STIX 2.0: relationship source_ref / target_ref "MUST be an ID reference to an SDO"; cyber observable
# objects of 2.0 have no identifier at all (they only live inside observed-data.objects), so
# "file--<uuid>" cannot identify anything in STIX 2.0.  Same for report.object_refs (SDOs/SROs only).
import json
import stix2
from stix2 import v20

U = '4d7f3e25-ba1c-447a-ab71-6434b092b05e'
ID = 'identity--' + U
T = '2020-01-01T00:00:00Z'
SDO_20 = {'attack-pattern', 'campaign', 'course-of-action', 'identity', 'indicator', 'intrusion-set', 'malware',
          'observed-data', 'report', 'threat-actor', 'tool', 'vulnerability'}
SRO_20 = {'relationship', 'sighting'}


def emitted(build):
    try:
        obj = build()
    except Exception:
        return None
    return json.loads(obj.serialize())


bad = []
for sco in ('file', 'ipv4-addr', 'process'):
    out = emitted(lambda: v20.Relationship(sco + '--' + U, 'related-to', ID))
    if out is not None and out['source_ref'].split('--')[0] not in SDO_20:
        bad.append(('relationship.source_ref', out['source_ref']))
    out = emitted(lambda: stix2.parse({
        'type': 'relationship', 'id': 'relationship--' + U, 'created': '2020-01-01T00:00:00.000Z',
        'modified': '2020-01-01T00:00:00.000Z', 'relationship_type': 'related-to',
        'source_ref': ID, 'target_ref': sco + '--' + U,
    }, version='2.0'))
    if out is not None and out['target_ref'].split('--')[0] not in SDO_20:
        bad.append(('relationship.target_ref', out['target_ref']))
    out = emitted(lambda: v20.Report(name='x', published=T, labels=['threat-report'], object_refs=[sco + '--' + U]))
    if out is not None and out['object_refs'][0].split('--')[0] not in SDO_20 | SRO_20:
        bad.append(('report.object_refs', out['object_refs'][0]))

assert not bad, "STIX 2.0 objects emitted with references to cyber observable types (which have no id in 2.0): %r" % bad
print("ok")
