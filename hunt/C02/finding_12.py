import os, sys; sys.path.insert(0, os.getcwd())
import json, warnings
warnings.simplefilter("ignore")
import stix2
from stix2 import v20, v21

def emitted(f):
    """Return the emitted JSON (as python data) or None when the library refuses the input."""
    try:
        obj = f()
        return json.loads(obj.serialize())
    except Exception:
        return None

def walk(x, path=""):
    yield path, x
    if isinstance(x, dict):
        for k, v in x.items():
            yield from walk(v, path + "/" + k)
    elif isinstance(x, list):
        for i, v in enumerate(x):
            yield from walk(v, path + "/%d" % i)

def no_null_or_empty(doc):
    for p, v in walk(doc):
        assert v is not None, "null emitted at %s: %r" % (p, doc)
        assert v != {} and v != [], "empty container emitted at %s: %r" % (p, doc)

ID = "identity--4d7f3e25-ba1c-447a-ab71-6434b092b05e"


# operation sequence: a dictionary-typed property keeps the caller's dict object (no copy), so the
# "immutable", already validated object changes when the caller's dict is touched afterwards
import re
d = {"PATH": "/bin"}
p = v21.Process(pid=1, environment_variables=d)
json.loads(p.serialize())
d["bad key!"] = None              # would have been refused by the constructor
doc = json.loads(p.serialize())
no_null_or_empty(doc)
for k in doc["environment_variables"]:
    assert re.fullmatch(r"[a-zA-Z0-9_-]+", k), "illegal dictionary key emitted: %r" % (doc,)

d = {"PATH": "/bin"}
p = stix2.parse({"type": "process", "spec_version": "2.1", "id": "process--4d7f3e25-ba1c-447a-ab71-6434b092b05e", "pid": 1, "environment_variables": d})
d.clear()
no_null_or_empty(json.loads(p.serialize()))
