import os, sys; sys.path.insert(0, os.getcwd())
import json, warnings
warnings.simplefilter("ignore")
import stix2
from stix2 import v20, v21

def emitted(f):
    """Return the emitted JSON (as python data) or None when the library refuses the input."""
    try:
        obj = f()
        return json.loads(obj.serialize())
    except Exception:
        return None

def walk(x, path=""):
    yield path, x
    if isinstance(x, dict):
        for k, v in x.items():
            yield from walk(v, path + "/" + k)
    elif isinstance(x, list):
        for i, v in enumerate(x):
            yield from walk(v, path + "/%d" % i)

def no_null_or_empty(doc):
    for p, v in walk(doc):
        assert v is not None, "null emitted at %s: %r" % (p, doc)
        assert v != {} and v != [], "empty container emitted at %s: %r" % (p, doc)

ID = "identity--4d7f3e25-ba1c-447a-ab71-6434b092b05e"

# 'extensions': {} is emitted as given (constructor and parse), for SCOs and SDOs
cases = [
    lambda: v21.File(name="x", extensions={}),
    lambda: v21.Process(extensions={}),          # ... and an otherwise empty Process slips through
    lambda: v21.Identity(name="x", extensions={}),
    lambda: stix2.parse({"type": "file", "spec_version": "2.1", "id": "file--4d7f3e25-ba1c-447a-ab71-6434b092b05e", "name": "x", "extensions": {}}),
    lambda: stix2.parse_observable({"type": "file", "name": "x", "extensions": {}}, version="2.0"),
]
for c in cases:
    doc = emitted(c)
    if doc is not None:
        no_null_or_empty(doc)
