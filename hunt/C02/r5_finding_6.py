import os, sys; sys.path.insert(0, os.getcwd())
# A STIX 2.0 bundle ("spec_version": "2.0") holds STIX 2.0 objects only; the library itself says so
# ("Spec version 2.0 bundles don't yet support containing objects of a different spec version") and refuses
# v20.Bundle(objects=[v21.File(name='x')]).  STIX 2.0 objects have no "spec_version" property, and 'file' /
# 'ipv4-addr' are not top-level object types of STIX 2.0.  Given as a dictionary WITHOUT spec_version
# (the property is optional on 2.1 SCOs), a 2.1 SCO gets through and is emitted inside the 2.0 bundle,
# now even carrying "spec_version": "2.1".
import json
import stix2
from stix2 import v20

U = '4d7f3e25-ba1c-447a-ab71-6434b092b05e'
TOP_LEVEL_20 = {'attack-pattern', 'campaign', 'course-of-action', 'identity', 'indicator', 'intrusion-set', 'malware',
                'observed-data', 'report', 'threat-actor', 'tool', 'vulnerability', 'relationship', 'sighting',
                'marking-definition'}


def emitted(build):
    try:
        obj = build()
    except Exception:
        return None
    return json.loads(obj.serialize())


bad = []
for out in (
    emitted(lambda: v20.Bundle(objects=[{'type': 'file', 'id': 'file--' + U, 'name': 'x'}])),
    emitted(lambda: stix2.parse({'type': 'bundle', 'id': 'bundle--' + U, 'spec_version': '2.0',
                                 'objects': [{'type': 'ipv4-addr', 'id': 'ipv4-addr--' + U, 'value': '1.2.3.4'}]})),
):
    if out is None:
        continue
    assert out['spec_version'] == '2.0'
    for o in out.get('objects', []):
        if 'spec_version' in o or o['type'] not in TOP_LEVEL_20:
            bad.append(o)

assert not bad, "STIX 2.0 bundle emitted with objects that are not STIX 2.0 objects: %r" % bad
print("ok")
