import os, sys; sys.path.insert(0, os.getcwd())
# object_marking_refs / granular_markings.marking_ref of a marking definition MUST NOT refer to the marking definition
# itself (no circular references).
import json
import stix2
from stix2 import v20, v21

MID = 'marking-definition--4d7f3e25-ba1c-447a-ab71-6434b092b05e'
bad = []
def check(label, make):
    try:
        out = json.loads(make().serialize())
    except Exception:
        return
    if out['id'] in out.get('object_marking_refs', []):
        bad.append((label, 'object_marking_refs contains own id'))
    for gm in out.get('granular_markings', []):
        if gm.get('marking_ref') == out['id']:
            bad.append((label, 'granular marking_ref is own id'))

check("v21 ctor", lambda: v21.MarkingDefinition(id=MID, definition_type='statement', definition={'statement': 'x'}, object_marking_refs=[MID]))
check("v21 parse", lambda: stix2.parse({'type': 'marking-definition', 'spec_version': '2.1', 'id': MID, 'created': '2020-01-01T00:00:00.000Z',
                                        'definition_type': 'statement', 'definition': {'statement': 'x'}, 'object_marking_refs': [MID]}))
check("v21 granular", lambda: v21.MarkingDefinition(id=MID, definition_type='statement', definition={'statement': 'x'},
                                                    granular_markings=[{'marking_ref': MID, 'selectors': ['definition_type']}]))
check("v20 parse", lambda: stix2.parse({'type': 'marking-definition', 'id': MID, 'created': '2020-01-01T00:00:00.000Z',
                                        'definition_type': 'statement', 'definition': {'statement': 'x'}, 'object_marking_refs': [MID]}))
assert not bad, "self-referencing marking definition emitted: %r" % bad
