import os, sys; sys.path.insert(0, os.getcwd())
# STIX 2.0 has no extension definitions (that is a 2.1 concept).  In a 2.0
# observable every extension key other than the predefined ones is custom
# content, so with customization disallowed it must be refused (as 'x-foo-ext'
# is) -- not emitted, with arbitrary unvalidated content, as given.
import json, warnings
warnings.simplefilter("ignore")
import stix2
from stix2 import v20

KEY = "extension-definition--11111111-1111-4111-8111-111111111111"
emitted = []

def attempt(label, fn):
    try:
        obj = fn()
    except Exception as exc:
        print("rejected (%s): %s: %s" % (label, type(exc).__name__, str(exc)[:100]))
        return
    js = json.loads(obj.serialize())
    print("EMITTED (%s): %s" % (label, json.dumps(js)[:300]))
    emitted.append(label)

# control: an unknown extension name is refused in strict mode
attempt("control x-foo-ext", lambda: v20.File(name="x", extensions={"x-foo-ext": {"a": 1}}))
assert not emitted, "control failed"

attempt("v20.File constructor", lambda: v20.File(name="x", extensions={KEY: {"anything": None, "goes": []}}))
attempt(
    "parse() of a 2.0 observed-data", lambda: stix2.parse({
        "type": "observed-data",
        "id": "observed-data--22222222-2222-4222-8222-222222222222",
        "created": "2020-01-01T00:00:00.000Z", "modified": "2020-01-01T00:00:00.000Z",
        "first_observed": "2020-01-01T00:00:00Z", "last_observed": "2020-01-01T00:00:00Z",
        "number_observed": 1,
        "objects": {"0": {"type": "file", "name": "x", "extensions": {KEY: {"extension_type": "property-extension", "rank": None}}}},
    }, allow_custom=False, version="2.0"),
)
assert not emitted, "strict mode emitted a STIX 2.0 observable with an extension-definition extension: %s" % emitted
