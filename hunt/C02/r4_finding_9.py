import os, sys; sys.path.insert(0, os.getcwd())
# Hash plausibility: the SSDEEP pattern [a-z0-9/+:.]{1,128} is compiled with re.I on a str pattern, so the
# Unicode characters that case-fold to ASCII letters (U+017F LONG S, U+212A KELVIN SIGN) are accepted as well.
import json, re
import stix2
from stix2 import v20, v21

PLAUSIBLE = re.compile(r'^[A-Za-z0-9/+:.]{1,128}\Z')
bad = []
for label, make in [
    ("v21 ctor", lambda: v21.File(hashes={'SSDEEP': '3:\u017f\u212a:\u017f'})),
    ("v21 parse", lambda: stix2.parse({'type': 'file', 'spec_version': '2.1', 'id': 'file--4d7f3e25-ba1c-447a-ab71-6434b092b05e',
                                       'hashes': {'SSDEEP': '\u017f\u212a'}})),
    ("v20", lambda: stix2.parse_observable({'type': 'file', 'hashes': {'ssdeep': '\u017f\u212a'}}, version='2.0')),
]:
    try:
        out = json.loads(make().serialize())
    except Exception:
        continue
    for k, v in out['hashes'].items():
        if not PLAUSIBLE.match(v):
            bad.append((label, k, v))
assert not bad, "implausible ssdeep hash values emitted: %r" % bad
