import os, sys; sys.path.insert(0, os.getcwd())
# Objects are immutable (ImmutableError on assignment), but the list a property getter hands out is the
# internal one: changing it changes what the successfully constructed object serializes to.
import json
import stix2
from stix2 import v21

i = v21.Identity(name='x', labels=['a'])
i.labels.clear()
out1 = json.loads(i.serialize())
p = stix2.parse({'type': 'identity', 'spec_version': '2.1', 'id': 'identity--4d7f3e25-ba1c-447a-ab71-6434b092b05e',
                 'created': '2020-01-01T00:00:00.000Z', 'modified': '2020-01-01T00:00:00.000Z', 'name': 'x', 'labels': ['a']})
p['labels'].append(None)
out2 = json.loads(p.serialize())
assert out1.get('labels', ['a']) != [], "empty list emitted: %r" % out1
assert None not in out2.get('labels', []), "null emitted: %r" % out2
