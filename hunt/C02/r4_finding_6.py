import os, sys; sys.path.insert(0, os.getcwd())
# extension-definition.extension_properties: the names are property names (lower-case a-z, 0-9, '_', 3..250 chars)
# and the property MUST only be used when extension_types includes toplevel-property-extension.
import json, re
import stix2
from stix2 import v21

ID = 'identity--4d7f3e25-ba1c-447a-ab71-6434b092b05e'
NAME_OK = re.compile(r'^[a-z0-9_]{3,250}\Z')
bad = []
def check(label, make):
    try:
        out = json.loads(make().serialize())
    except Exception:
        return
    props = out.get('extension_properties')
    if props is None:
        return
    if 'toplevel-property-extension' not in out['extension_types']:
        bad.append((label, 'extension_properties without toplevel-property-extension'))
    for p in props:
        if not NAME_OK.match(p):
            bad.append((label, 'illegal property name %r' % p))

check("ctor", lambda: v21.ExtensionDefinition(created_by_ref=ID, name='x', schema='s', version='1.0.0',
                                              extension_types=['new-sdo'], extension_properties=['Bad Name!', '']))
check("parse", lambda: stix2.parse({'type': 'extension-definition', 'spec_version': '2.1',
                                    'id': 'extension-definition--4d7f3e25-ba1c-447a-ab71-6434b092b05e', 'created_by_ref': ID,
                                    'created': '2020-01-01T00:00:00.000Z', 'modified': '2020-01-01T00:00:00.000Z',
                                    'name': 'x', 'schema': 's', 'version': '1.0.0',
                                    'extension_types': ['toplevel-property-extension'], 'extension_properties': ['Bad Name!', '']}))
assert not bad, "invalid extension_properties emitted: %r" % bad
