import os, sys; sys.path.insert(0, os.getcwd())
import json, warnings
warnings.simplefilter("ignore")
import stix2
from stix2 import v20, v21

def attempt(f):
    """Return the emitted JSON (as python data) or None when the library refuses."""
    try:
        obj = f()
        text = obj.serialize() if hasattr(obj, "serialize") else json.dumps(obj)
    except Exception as exc:
        print("refused:", type(exc).__name__, str(exc)[:100])
        return None
    print("emitted:", text)
    return json.loads(text)

# STIX 2.1 7.2.3.1: "Selectors MUST refer to properties or list items that are actually present on the marked object."
M = 'marking-definition--613f2e26-407d-48c7-9eca-b8e91df99dc9'
def present(obj, selector):
    cur = obj
    for part in selector.split('.'):
        if part.startswith('['):
            i = int(part[1:-1])
            if not isinstance(cur, list) or i >= len(cur):
                return False
            cur = cur[i]
        else:
            if not isinstance(cur, dict) or part not in cur:
                return False
            cur = cur[part]
    return True
for f in (
    lambda: v21.Identity(name='x', granular_markings=[{'marking_ref': M, 'selectors': ['revoked']}]),
    lambda: stix2.parse({"type": "identity", "spec_version": "2.1", "id": "identity--4d7f3e25-ba1c-447a-ab71-6434b092b05e",
                         "created": "2020-01-01T00:00:00.000Z", "modified": "2020-01-01T00:00:00.000Z", "name": "x",
                         "revoked": False, "granular_markings": [{"marking_ref": M, "selectors": ["revoked"]}]}),
    lambda: v21.IPv4Address(value='1.2.3.4', granular_markings=[{'marking_ref': M, 'selectors': ['defanged']}]),
    lambda: v20.Identity(name='x', identity_class='individual', granular_markings=[{'marking_ref': M, 'selectors': ['revoked']}]),
):
    out = attempt(f)
    if out is not None:
        for gm in out['granular_markings']:
            for s in gm['selectors']:
                assert present(out, s), "selector %r selects nothing in the emitted object" % s
