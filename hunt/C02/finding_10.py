import os, sys; sys.path.insert(0, os.getcwd())
import json, warnings
warnings.simplefilter("ignore")
import stix2
from stix2 import v20, v21

def emitted(f):
    """Return the emitted JSON (as python data) or None when the library refuses the input."""
    try:
        obj = f()
        return json.loads(obj.serialize())
    except Exception:
        return None

def walk(x, path=""):
    yield path, x
    if isinstance(x, dict):
        for k, v in x.items():
            yield from walk(v, path + "/" + k)
    elif isinstance(x, list):
        for i, v in enumerate(x):
            yield from walk(v, path + "/%d" % i)

def no_null_or_empty(doc):
    for p, v in walk(doc):
        assert v is not None, "null emitted at %s: %r" % (p, doc)
        assert v != {} and v != [], "empty container emitted at %s: %r" % (p, doc)

ID = "identity--4d7f3e25-ba1c-447a-ab71-6434b092b05e"

# the value of an (unregistered) extension-definition--<uuid> extension is passed through unlooked-at:
# null, empty, non-dictionary, or lacking the required extension_type
EXT = "extension-definition--4d7f3e25-ba1c-447a-ab71-6434b092b05e"
cases = [
    lambda: v21.Identity(name="x", extensions={EXT: None}),
    lambda: v21.Identity(name="x", extensions={EXT: {}}),
    lambda: v21.Identity(name="x", extensions={EXT: "text"}),
    lambda: v21.Identity(name="x", extensions={EXT: {"some_prop": 1}}),
    lambda: stix2.parse({"type": "identity", "spec_version": "2.1", "id": ID, "name": "x",
                         "created": "2020-01-01T00:00:00.000Z", "modified": "2020-01-01T00:00:00.000Z",
                         "extensions": {EXT: None}}),
]
for c in cases:
    doc = emitted(c)
    if doc is not None:
        no_null_or_empty(doc)
        ext = doc["extensions"][EXT]
        assert isinstance(ext, dict), "extension is not a dictionary: %r" % (doc,)
        assert ext.get("extension_type") in ("new-sdo", "new-sco", "new-sro", "property-extension", "toplevel-property-extension"), \
            "extension without a valid extension_type emitted: %r" % (doc,)
