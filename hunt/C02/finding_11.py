import os, sys; sys.path.insert(0, os.getcwd())
import json, warnings
warnings.simplefilter("ignore")
import stix2
from stix2 import v20, v21

def emitted(f):
    """Return the emitted JSON (as python data) or None when the library refuses the input."""
    try:
        obj = f()
        return json.loads(obj.serialize())
    except Exception:
        return None

def walk(x, path=""):
    yield path, x
    if isinstance(x, dict):
        for k, v in x.items():
            yield from walk(v, path + "/" + k)
    elif isinstance(x, list):
        for i, v in enumerate(x):
            yield from walk(v, path + "/%d" % i)

def no_null_or_empty(doc):
    for p, v in walk(doc):
        assert v is not None, "null emitted at %s: %r" % (p, doc)
        assert v != {} and v != [], "empty container emitted at %s: %r" % (p, doc)

ID = "identity--4d7f3e25-ba1c-447a-ab71-6434b092b05e"


# sighting_of_ref must reference an SDO, relationship source_ref/target_ref an SDO or SCO;
# 'extension-definition' (a meta object, like language-content and marking-definition) is let through
U = "4d7f3e25-ba1c-447a-ab71-6434b092b05e"
SDO21 = {"attack-pattern", "campaign", "course-of-action", "grouping", "identity", "incident", "indicator", "infrastructure",
         "intrusion-set", "location", "malware", "malware-analysis", "note", "observed-data", "opinion", "report",
         "threat-actor", "tool", "vulnerability"}
for meta in ("extension-definition", "language-content", "marking-definition"):
    doc = emitted(lambda: v21.Sighting(sighting_of_ref=meta + "--" + U))
    if doc is not None:
        assert doc["sighting_of_ref"].split("--")[0] in SDO21, "sighting_of_ref to a non-SDO emitted: %r" % (doc,)
    doc = emitted(lambda: v21.Relationship(meta + "--" + U, "related-to", ID))
    if doc is not None:
        assert doc["source_ref"].split("--")[0] != meta, "relationship from a meta object emitted: %r" % (doc,)
    doc = emitted(lambda: stix2.parse({"type": "sighting", "spec_version": "2.1", "id": "sighting--" + U,
                                       "created": "2020-01-01T00:00:00.000Z", "modified": "2020-01-01T00:00:00.000Z",
                                       "sighting_of_ref": meta + "--" + U}))
    if doc is not None:
        assert doc["sighting_of_ref"].split("--")[0] in SDO21, "sighting_of_ref to a non-SDO emitted: %r" % (doc,)
