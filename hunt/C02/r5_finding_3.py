import os, sys; sys.path.insert(0, os.getcwd())
# STIX 2.1 identifiers: "the UUID MUST be an RFC 4122-compliant UUID".  RFC 4122 defines versions 1-5 only
# (the version nibble is the first hex digit of the third group); the OASIS JSON schema spells this
# as ...-[1-5][0-9a-fA-F]{3}-[89abAB]...   The library only looks at the variant bits.
import json, re
import stix2
from stix2 import v21

RFC4122 = re.compile(r'^[a-z][a-z0-9-]*--[0-9a-fA-F]{8}-[0-9a-fA-F]{4}-[1-5][0-9a-fA-F]{3}-[89abAB][0-9a-fA-F]{3}-[0-9a-fA-F]{12}$')


def emitted(build):
    try:
        obj = build()
    except Exception:
        return None
    return json.loads(obj.serialize())


bad = []
for nibble in '0f9':
    u = '1ec9414c-232a-%sb00-b3c8-9e6bdeced846' % nibble
    out = emitted(lambda: v21.Identity(name='x', id='identity--' + u))
    if out is not None and not RFC4122.match(out['id']):
        bad.append(out['id'])
    out = emitted(lambda: v21.Identity(name='x', created_by_ref='identity--' + u))
    if out is not None and not RFC4122.match(out['created_by_ref']):
        bad.append(out['created_by_ref'])
    out = emitted(lambda: stix2.parse({'type': 'ipv4-addr', 'spec_version': '2.1', 'id': 'ipv4-addr--' + u, 'value': '1.2.3.4'}))
    if out is not None and not RFC4122.match(out['id']):
        bad.append(out['id'])

assert not bad, "identifiers whose UUID has no RFC 4122 version (version nibble 0, f, 9) were emitted: %r" % bad
print("ok")
