import os, sys; sys.path.insert(0, os.getcwd())
import json, warnings
warnings.simplefilter("ignore")
import stix2
from stix2 import v20, v21

def emitted(f):
    """Return the emitted JSON (as python data) or None when the library refuses the input."""
    try:
        obj = f()
        return json.loads(obj.serialize())
    except Exception:
        return None

def walk(x, path=""):
    yield path, x
    if isinstance(x, dict):
        for k, v in x.items():
            yield from walk(v, path + "/" + k)
    elif isinstance(x, list):
        for i, v in enumerate(x):
            yield from walk(v, path + "/%d" % i)

def no_null_or_empty(doc):
    for p, v in walk(doc):
        assert v is not None, "null emitted at %s: %r" % (p, doc)
        assert v != {} and v != [], "empty container emitted at %s: %r" % (p, doc)

ID = "identity--4d7f3e25-ba1c-447a-ab71-6434b092b05e"

# integers MUST be representable as a signed 54-bit value in 2.1 (64-bit in 2.0); no IntegerProperty has such a bound
cases = [
    (lambda: v21.AutonomousSystem(number=2**70), "number", 2**53 - 1),
    (lambda: v21.File(name="x", size=2**70), "size", 2**53 - 1),
    (lambda: v21.Process(pid=-2**70), "pid", 2**53 - 1),
    (lambda: stix2.parse({"type": "autonomous-system", "spec_version": "2.1", "id": "autonomous-system--4d7f3e25-ba1c-447a-ab71-6434b092b05e", "number": 2**70}), "number", 2**53 - 1),
    (lambda: stix2.parse_observable({"type": "autonomous-system", "number": 2**70}, version="2.0"), "number", 2**63 - 1),
]
for c, prop, bound in cases:
    doc = emitted(c)
    if doc is not None:
        assert -bound <= doc[prop] <= bound, "integer out of the spec's range emitted: %r" % (doc,)
