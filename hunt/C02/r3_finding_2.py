import os, sys; sys.path.insert(0, os.getcwd())
import json, warnings
warnings.simplefilter("ignore")
import stix2
from stix2 import v20, v21

def attempt(f):
    """Return the emitted JSON (as python data) or None when the library refuses."""
    try:
        obj = f()
        text = obj.serialize() if hasattr(obj, "serialize") else json.dumps(obj)
    except Exception as exc:
        print("refused:", type(exc).__name__, str(exc)[:100])
        return None
    print("emitted:", text)
    return json.loads(text)

# artifact.decryption_key "MUST NOT be present when the encryption_algorithm property is absent" (STIX 2.1, 6.1)
for f in (
    lambda: v21.Artifact(payload_bin='AAAA', decryption_key='secret'),
    lambda: stix2.parse({"type": "artifact", "spec_version": "2.1", "id": "artifact--4d7f3e25-ba1c-447a-ab71-6434b092b05e",
                         "payload_bin": "AAAA", "decryption_key": "secret"}),
):
    out = attempt(f)
    if out is not None:
        assert not ('decryption_key' in out and 'encryption_algorithm' not in out),             "decryption_key emitted without encryption_algorithm"
