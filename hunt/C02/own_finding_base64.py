import os, sys; sys.path.insert(0, os.getcwd())
"""C02 (found by rule C02.binary-values): BinaryProperty validates with the lenient base64 decoder, which discards every
character outside the alphabet; text that is not base64 is accepted in strict mode and emitted as given."""
import base64
import json
import stix2

bad = []
for text in ("YW Jj", "YQ==\n", "!!!!YQ==", "Y*Q*=*="):
    try:
        a = stix2.v21.Artifact(payload_bin=text, mime_type="text/plain")
    except Exception:
        continue      # refused: fine
    out = json.loads(a.serialize())["payload_bin"]
    try:
        base64.b64decode(out, validate=True)
    except Exception:
        bad.append((text, out))
assert not bad, "emitted payload_bin values that are not base64: %r" % bad
print("ok")
