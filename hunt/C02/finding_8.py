import os, sys; sys.path.insert(0, os.getcwd())
import json, warnings
warnings.simplefilter("ignore")
import stix2
from stix2 import v20, v21

def emitted(f):
    """Return the emitted JSON (as python data) or None when the library refuses the input."""
    try:
        obj = f()
        return json.loads(obj.serialize())
    except Exception:
        return None

def walk(x, path=""):
    yield path, x
    if isinstance(x, dict):
        for k, v in x.items():
            yield from walk(v, path + "/" + k)
    elif isinstance(x, list):
        for i, v in enumerate(x):
            yield from walk(v, path + "/%d" % i)

def no_null_or_empty(doc):
    for p, v in walk(doc):
        assert v is not None, "null emitted at %s: %r" % (p, doc)
        assert v != {} and v != [], "empty container emitted at %s: %r" % (p, doc)

ID = "identity--4d7f3e25-ba1c-447a-ab71-6434b092b05e"

# the four TLP marking definitions are fixed instances; only id and created are compared
WHITE21 = {"type": "marking-definition", "spec_version": "2.1", "id": "marking-definition--613f2e26-407d-48c7-9eca-b8e91df99dc9",
           "created": "2017-01-20T00:00:00.000Z", "definition_type": "tlp", "name": "TLP:WHITE", "definition": {"tlp": "white"}}
WHITE20 = {k: v for k, v in WHITE21.items() if k not in ("spec_version", "name")}
assert emitted(lambda: v21.MarkingDefinition(**WHITE21)) == WHITE21
assert emitted(lambda: v20.MarkingDefinition(**WHITE20)) == WHITE20
cases = [
    (lambda: v21.MarkingDefinition(**dict(WHITE21, name="TLP:RED")), WHITE21),
    (lambda: v21.MarkingDefinition(**{k: v for k, v in WHITE21.items() if k != "name"}), WHITE21),
    (lambda: v21.MarkingDefinition(**dict(WHITE21, created_by_ref=ID)), WHITE21),
    (lambda: stix2.parse(dict(WHITE21, name="TLP:RED")), WHITE21),
    (lambda: v20.MarkingDefinition(**dict(WHITE20, created_by_ref=ID)), WHITE20),
    (lambda: stix2.parse(dict(WHITE20, external_references=[{"source_name": "x", "url": "http://x"}])), WHITE20),
]
for c, fixed in cases:
    doc = emitted(c)
    if doc is not None:
        assert doc == fixed, "a TLP marking definition other than the fixed instance was emitted: %r" % (doc,)
