import os, sys; sys.path.insert(0, os.getcwd())
import json, warnings
warnings.simplefilter("ignore")
import stix2
from stix2 import v20, v21

def attempt(f):
    """Return the emitted JSON (as python data) or None when the library refuses."""
    try:
        obj = f()
        text = obj.serialize() if hasattr(obj, "serialize") else json.dumps(obj)
    except Exception as exc:
        print("refused:", type(exc).__name__, str(exc)[:100])
        return None
    print("emitted:", text)
    return json.loads(text)

import re
# strict parse() of an object of an unknown type which merely *claims* a new-sdo extension hands the input back unvalidated
E = 'extension-definition--4d7f3e25-ba1c-447a-ab71-6434b092b05e'
for data in (
    {"type": "x-foo", "id": None, "created": "garbage", "labels": [], "extensions": {E: {"extension_type": "new-sdo"}}},
    {"type": "Not A Type!", "extensions": {E: {"extension_type": "new-sco"}}},
):
    out = attempt(lambda: stix2.parse(data, allow_custom=False))
    if out is not None:
        assert re.match(r'^[a-z][a-z0-9-]{2,249}\Z', out['type']), "illegal type name emitted: %r" % out['type']
        assert isinstance(out.get('id'), str), "object emitted without a usable id: %r" % (out.get('id'),)
        assert None not in out.values() and [] not in out.values(), "null / empty list emitted"
