import os, sys; sys.path.insert(0, os.getcwd())
import json, re
import stix2

# STIX 2.1 common property 'lang': "The value of this property MUST be a
# language code conformant to [RFC5646]".  A loose well-formedness test for an
# RFC 5646 tag: ASCII alphanumeric subtags of 1-8 characters joined by hyphens.
TAG = re.compile(r"^[A-Za-z]{1,8}(-[A-Za-z0-9]{1,8})*\Z")
emitted = []
for lang in ["not a lang !!", "", "en_US", "én", "en--US", "x" * 40]:
    for make in (
        lambda: stix2.v21.Identity(name="x", lang=lang),
        lambda: stix2.parse({"type": "identity", "spec_version": "2.1",
                             "id": "identity--a3f6e3c2-0f62-4f5c-8a3e-0d2b7a1c9e55",
                             "created": "2020-01-01T00:00:00.000Z", "modified": "2020-01-01T00:00:00.000Z",
                             "name": "x", "lang": lang}, version="2.1"),
        lambda: stix2.v21.GranularMarking(lang=lang, selectors=["name"]),
    ):
        try:
            obj = make()
        except Exception:
            continue
        out = json.loads(obj.serialize())
        if "lang" in out and not TAG.match(out["lang"]):
            emitted.append(out["lang"])
assert not emitted, "malformed language tags emitted: %r" % emitted
print("ok")
