import os, sys; sys.path.insert(0, os.getcwd())
# STIX 2.0 network-traffic: "is_active ... If the end property is provided, this property MUST be false."
# The 2.1 class checks it; the 2.0 class has no such co-constraint.
import json
import stix2
from stix2 import v20

bad = []
def check(label, make):
    try:
        out = json.loads(make().serialize())
    except Exception:
        return
    nts = [out] if out.get('type') == 'network-traffic' else list(out['objects'].values())
    for nt in nts:
        if 'end' in nt and nt.get('is_active') is True:
            bad.append((label, nt))

check("parse_observable", lambda: stix2.parse_observable(
    {'type': 'network-traffic', 'protocols': ['tcp'], 'src_ref': '0', 'end': '2020-01-01T00:00:00Z', 'is_active': True},
    _valid_refs={'0': 'ipv4-addr'}, version='2.0'))
check("observed-data", lambda: v20.ObservedData(
    first_observed='2020-01-01T00:00:00Z', last_observed='2020-01-01T00:00:00Z', number_observed=1,
    objects={'0': {'type': 'ipv4-addr', 'value': '1.2.3.4'},
             '1': {'type': 'network-traffic', 'protocols': ['tcp'], 'src_ref': '0', 'end': '2020-01-01T00:00:00Z', 'is_active': True}}))
assert not bad, "2.0 network-traffic emitted with 'end' and is_active true: %r" % bad
