import os, sys; sys.path.insert(0, os.getcwd())
# Every member of bundle.objects must be a STIX Object of the bundle (with an 'id'; a STIX 2.0 cyber observable
# is not a top-level object at all, and a 2.0 bundle holds 2.0 objects only).
import json
import stix2
from stix2 import v20, v21

bad = []
cases = [
    ("v21.Bundle(objects=[{'type':'file','name':'x'}])", lambda: v21.Bundle(objects=[{'type': 'file', 'name': 'x'}])),
    ("parse 2.1 bundle", lambda: stix2.parse({'type': 'bundle', 'id': 'bundle--4d7f3e25-ba1c-447a-ab71-6434b092b05e',
                                               'objects': [{'type': 'file', 'name': 'x'}]})),
    ("v20.Bundle(v20.File(name='x'))", lambda: v20.Bundle(v20.File(name='x'))),
    ("parse 2.0 bundle", lambda: stix2.parse({'type': 'bundle', 'spec_version': '2.0', 'id': 'bundle--4d7f3e25-ba1c-447a-ab71-6434b092b05e',
                                               'objects': [{'type': 'file', 'name': 'x'}]})),
    ("v20.Bundle with a 2.1 SCO", lambda: v20.Bundle(objects=[{'type': 'file', 'name': 'x', 'id': 'file--4d7f3e25-ba1c-447a-ab71-6434b092b05e'}])),
]
for label, make in cases:
    try:
        out = json.loads(make().serialize())
    except Exception:
        continue   # rejected: fine
    for o in out.get('objects', []):
        if 'id' not in o:
            bad.append((label, 'bundle object without id', o))
        if out.get('spec_version') == '2.0' and 'spec_version' in o:
            bad.append((label, '2.1 object inside a 2.0 bundle', o))
assert not bad, "invalid bundle content emitted: %r" % bad
