import os, sys; sys.path.insert(0, os.getcwd())
# C15 finding 3: the precision / precision_constraint carried by a
# STIXdatetime do not survive pickling (nor copy.copy / copy.deepcopy of the
# value): datetime.__reduce_ex__ rebuilds the instance through
# STIXdatetime.__new__(cls, <bytes>, tzinfo), which resets precision to ANY.
# A pickled-and-restored 2.0 object therefore serializes created/modified
# without the three fractional digits that its millisecond/exact precision
# requires.
import copy, pickle
import stix2
from stix2.utils import parse_into_datetime, format_datetime

i = stix2.v20.Identity(
    name="x", identity_class="individual",
    created="2020-01-01T00:00:00.100Z", modified="2020-01-01T00:00:00Z",
)
before = i.serialize()
assert '"created": "2020-01-01T00:00:00.100Z"' in before and '"modified": "2020-01-01T00:00:00.000Z"' in before, before
after = pickle.loads(pickle.dumps(i)).serialize()
assert after == before, ("after pickle round trip", after, "before", before)

s = parse_into_datetime("2020-01-01T00:00:00Z", "millisecond", "exact")
assert format_datetime(s) == "2020-01-01T00:00:00.000Z"
assert format_datetime(copy.deepcopy(s)) == "2020-01-01T00:00:00.000Z", format_datetime(copy.deepcopy(s))
print("ok")
