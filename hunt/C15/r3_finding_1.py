import os, sys; sys.path.insert(0, os.getcwd())
# A datetime whose tzinfo answers utcoffset() with None is timezone-naive by
# Python's definition.  format_datetime / parse_into_datetime both have a
# branch that recognises exactly this case ("timezone-naive; assume UTC") but
# then hand the value to pytz.utc.localize(), which refuses any datetime whose
# tzinfo attribute is set.  So this legal naive datetime cannot be written.
import datetime as dt

import stix2
from stix2.utils import format_datetime, parse_into_datetime


class Unknown(dt.tzinfo):
    """A tzinfo that does not know its offset (allowed by the datetime docs)."""
    def utcoffset(self, d):
        return None

    def dst(self, d):
        return None

    def tzname(self, d):
        return None


x = dt.datetime(2020, 1, 1, 12, 0, 0, 5000, tzinfo=Unknown())
assert x.utcoffset() is None  # i.e. naive
plain = dt.datetime(2020, 1, 1, 12, 0, 0, 5000)

# naive means UTC; the plain naive twin shows what must be written
for p in ('any', 'second', 'millisecond'):
    for c in ('exact', 'min'):
        expected = format_datetime(parse_into_datetime(plain, p, c))
        got = format_datetime(parse_into_datetime(x, p, c))
        assert got == expected, (p, c, got, expected)
assert format_datetime(x) == '2020-01-01T12:00:00.005Z'
ind = stix2.v21.Indicator(pattern="[a:b = 1]", pattern_type='stix', valid_from=x)
assert '"valid_from": "2020-01-01T12:00:00.005Z"' in ind.serialize()
print('ok')
