import os, sys; sys.path.insert(0, os.getcwd())
# The JSON encoders route datetime.date values to format_datetime
# (isinstance(obj, (dt.date, dt.datetime))), and parse_into_datetime defines
# what a date means (midnight UTC).  But format_datetime itself reads
# dttm.tzinfo, which a date does not have, so a date that reaches the writer
# without passing through a TimestampProperty (a custom property, a value in
# a dictionary property, a plain dict given to serialize()) is never written:
# serialization dies with AttributeError.
import datetime as dt
import json

import stix2
from stix2.serialization import serialize
from stix2.utils import format_datetime, parse_into_datetime

d = dt.date(2020, 1, 2)
expected = format_datetime(parse_into_datetime(d))
assert expected == '2020-01-02T00:00:00Z'

ident = stix2.v21.Identity(name='n', identity_class='individual', x_seen=d, allow_custom=True)
assert ident['x_seen'] == d          # accepted and stored as given
out = json.loads(ident.serialize())  # AttributeError on the clean tree
assert out['x_seen'] == expected, out['x_seen']
assert json.loads(serialize({'when': d}))['when'] == expected
assert format_datetime(d) == expected
print('ok')
