import os, sys; sys.path.insert(0, os.getcwd())
# C15 clean-tree finding 1: "Writing, reading back and writing again is a fixed point"
# does not hold for the 'created' timestamp of a STIX 2.0 statement marking-definition
# whose 'created' was given as a datetime object (or defaulted to the current time):
# it is written with all its digits (precision ANY), but when that text is read back the
# '.' in it switches the property to millisecond/exact, so the second writing has other
# digits and - for sub-millisecond values - denotes another instant.
import datetime as dt
import json

import stix2
from stix2 import v20

assert stix2.__file__.startswith(os.getcwd()), stix2.__file__

failures = []
for us in (0, 500000, 120000, 123456, 100, 999999):
    md = v20.MarkingDefinition(
        definition_type="statement", definition=v20.StatementMarking("Copyright"),
        created=dt.datetime(2017, 1, 20, 0, 0, 0, us),
    )
    first = md.serialize()
    second = stix2.parse(first, version="2.0").serialize()
    w1, w2 = json.loads(first)["created"], json.loads(second)["created"]
    print(us, w1, "->", w2)
    if w1 != w2:
        failures.append((us, w1, w2))

# the same with the defaulted 'created' (clock), whenever the clock has sub-second digits
md = v20.MarkingDefinition(definition_type="statement", definition=v20.StatementMarking("Copyright"))
first = md.serialize()
second = stix2.parse(first, version="2.0").serialize()
w1, w2 = json.loads(first)["created"], json.loads(second)["created"]
print("now", w1, "->", w2)
if w1 != w2:
    failures.append(("now", w1, w2))

assert not failures, failures
print("ok")
