import os, sys; sys.path.insert(0, os.getcwd())
# C15 finding 1: an aware datetime with fold=1 (second occurrence of an
# ambiguous wall-clock time at a DST fall-back) is written as a DIFFERENT
# instant (one hour earlier): STIXdatetime.__new__ copies year..tzinfo but
# drops `fold`.
import datetime as dt
from stix2.utils import parse_into_datetime, format_datetime
import stix2


class FallBack(dt.tzinfo):
    """US-Eastern-like zone, self-contained (PEP 495 semantics): on
    2021-11-07 the wall clock goes 01:59:59 EDT(-4) -> 01:00:00 EST(-5)."""
    def utcoffset(self, d):
        naive = d.replace(tzinfo=None)
        if naive < dt.datetime(2021, 11, 7, 1, 0):
            return dt.timedelta(hours=-4)
        if naive < dt.datetime(2021, 11, 7, 2, 0):
            return dt.timedelta(hours=-5 if d.fold else -4)
        return dt.timedelta(hours=-5)

    def dst(self, d):
        return self.utcoffset(d) + dt.timedelta(hours=5)

    def tzname(self, d):
        return "X"


def inputs():
    yield "custom tzinfo", dt.datetime(2021, 11, 7, 1, 30, tzinfo=FallBack(), fold=1)
    try:
        import zoneinfo
        yield "zoneinfo", dt.datetime(2021, 11, 7, 1, 30, tzinfo=zoneinfo.ZoneInfo("America/New_York"), fold=1)
    except Exception:
        pass


for name, x in inputs():
    # the instant, by integer arithmetic on the stdlib's own view of the offset
    off = x.utcoffset()
    assert off == dt.timedelta(hours=-5), (name, off)
    expected = "2021-11-07T06:30:00Z"     # 01:30 EST == 06:30 UTC
    for p in ("any", "second", "millisecond"):
        for c in ("exact", "min"):
            got = format_datetime(parse_into_datetime(x, p, c))
            exp = expected if p != "millisecond" else "2021-11-07T06:30:00.000Z"
            assert got == exp, (name, p, c, "got", got, "expected", exp)
    # and in a serialized object
    obj = stix2.v21.Indicator(pattern="[a:b=1]", pattern_type="stix", valid_from=x)
    assert '"valid_from": "2021-11-07T06:30:00Z"' in obj.serialize(), obj.serialize()
print("ok")
