import os, sys; sys.path.insert(0, os.getcwd())
# C15 finding 2: parse_into_datetime truncates the *local* microsecond field
# of an aware datetime BEFORE conversion to UTC.  For a UTC offset that is not
# a whole number of seconds / milliseconds (legal since Python 3.7) the result
# is not the truncation of the UTC instant: it can be a whole second (or
# millisecond) too early, and a later instant gets written as an earlier one.
import datetime as dt
from stix2.utils import parse_into_datetime, format_datetime

tz = dt.timezone(dt.timedelta(microseconds=500000))          # UTC+00:00:00.5
x = dt.datetime(2020, 1, 1, 12, 0, 0, 700000, tzinfo=tz)     # == 12:00:00.200000 UTC
assert x == dt.datetime(2020, 1, 1, 12, 0, 0, 200000, tzinfo=dt.timezone.utc)
got = format_datetime(parse_into_datetime(x, "second", "exact"))
# order preservation: an earlier instant written through the same property
earlier = dt.datetime(2020, 1, 1, 12, 0, 0, 0, tzinfo=dt.timezone.utc)
got_earlier = format_datetime(parse_into_datetime(earlier, "second", "exact"))
assert got_earlier == "2020-01-01T12:00:00Z"
assert got >= got_earlier, ("later instant written as earlier one", got, got_earlier)
assert got == "2020-01-01T12:00:00Z", got

tz2 = dt.timezone(dt.timedelta(microseconds=1))
y = dt.datetime(2020, 1, 1, 12, 0, 0, 1, tzinfo=tz2)          # == 12:00:00.000000 UTC exactly
got2 = format_datetime(parse_into_datetime(y, "millisecond", "exact"))
assert got2 == "2020-01-01T12:00:00.000Z", got2
print("ok")
