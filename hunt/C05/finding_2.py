import os, sys; sys.path.insert(0, os.getcwd())
# C05 finding 2: an object that was legally created with interoperability=True
# (identifier whose UUID is not an RFC 4122 v4/v5 UUID) cannot be versioned,
# revoked or marked: new_version() re-creates the object with the default
# interoperability=False, so the *unchanged* id is rejected.
import json
import stix2

for mod in (stix2.v20, stix2.v21):
    o = mod.Identity(
        id="identity--11111111-1111-1111-1111-111111111111",
        name="x", identity_class="individual", interoperability=True,
    )
    n = o.new_version(name="y")            # InvalidValueError on 'id' on the clean tree
    assert n.id == o.id and n.created == o.created and n.name == "y"
    assert json.loads(n.serialize())["modified"] > json.loads(o.serialize())["modified"]
    assert o.revoke().revoked
print("ok")
