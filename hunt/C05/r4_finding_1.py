import os, sys; sys.path.insert(0, os.getcwd())
# C05 "applies exactly the requested changes (a None value removes the property)":
# a change set handed over through the 'custom_properties' argument (which the
# constructors accept, and which new_version() itself treats as part of the
# change set: "Properties given via custom_properties are changes too") is
# silently ignored for every property the object already has.
import json
import stix2, stix2.versioning

o = stix2.v21.Identity(
    name='x', identity_class='individual', x_foo=1, allow_custom=True,
    created='2020-01-01T00:00:00.000Z', modified='2020-01-01T00:00:00.000Z',
)

# adding a property this way works ...
n0 = o.new_version(custom_properties={'x_bar': 5})
assert json.loads(n0.serialize())['x_bar'] == 5

# ... changing one must work too (or be refused) -- it is silently dropped
n1 = o.new_version(custom_properties={'x_foo': 2})
got = json.loads(n1.serialize()).get('x_foo')
assert got == 2, "requested x_foo=2 through custom_properties, new version has x_foo=%r" % (got,)

# ... and so must removing one
n2 = o.new_version(custom_properties={'x_foo': None})
assert 'x_foo' not in json.loads(n2.serialize()), "requested removal of x_foo, still there"

print("ok")
