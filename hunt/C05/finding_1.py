import os, sys; sys.path.insert(0, os.getcwd())
# C05 finding 1: an object whose created/modified were given as timezone-naive
# datetimes (accepted by the library and serialized as UTC) cannot be
# versioned: new_version()/revoke() die with a TypeError while comparing the
# naive old timestamp with the aware clock reading.  The same happens for a
# caller-supplied naive 'modified' on an ordinary object.
import datetime as dt, json
import stix2

for mod in (stix2.v20, stix2.v21):
    o = mod.Identity(
        name="x", identity_class="individual",
        created=dt.datetime(2020, 1, 1), modified=dt.datetime(2020, 1, 2),
    )
    # the object is perfectly fine and serializes as UTC
    assert json.loads(o.serialize())["modified"] == "2020-01-02T00:00:00.000Z"
    n = o.new_version(name="y")            # TypeError on the clean tree
    assert n.id == o.id and n.name == "y"
    assert json.loads(n.serialize())["modified"] > json.loads(o.serialize())["modified"]
    r = o.revoke()
    assert r.revoked

    # caller-supplied naive modified (far in the future => strictly later)
    p = mod.Identity(name="x", identity_class="individual")
    q = p.new_version(modified=dt.datetime(2100, 1, 1))   # TypeError on the clean tree
    assert json.loads(q.serialize())["modified"].startswith("2100-01-01T00:00:00")
print("ok")
