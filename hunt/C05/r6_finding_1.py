import os, sys; sys.path.insert(0, os.getcwd())
# A dictionary whose "revoked" value is one of the spellings of False that the
# library itself accepts for a boolean property ("false", "f", "0") is NOT a
# revoked object (stix2.parse() of the very same dict gives revoked == False
# and that object can be versioned), yet stix2.versioning.new_version()/revoke()
# refuse it with RevokeError, because they test the raw value for truthiness.
import datetime as dt
import pytz
import stix2
import stix2.versioning as V
from stix2.utils import STIXdatetime, parse_into_datetime

V.get_timestamp = lambda: STIXdatetime(dt.datetime(2019, 1, 1, tzinfo=pytz.utc))

for ver, extra in (("2.0", {}), ("2.1", {"spec_version": "2.1"})):
    for spelling in ("false", "f", "0", "False"):
        d = {
            "type": "campaign",
            "id": "campaign--a7a58b78-6cb9-480c-adb9-a6731b48d52a",
            "created": "2020-01-01T00:00:00.000Z",
            "modified": "2020-01-01T00:00:00.000Z",
            "name": "x",
            "revoked": spelling,
        }
        d.update(extra)
        # the library's own reading of this dictionary: not revoked, versionable
        obj = stix2.parse(d, version=ver)
        assert obj.revoked is False
        assert obj.new_version(name="y").name == "y"

        # the property: a not-revoked versionable dictionary + legal change set
        # -> a new, strictly later version
        n = V.new_version(d, name="y")
        assert n["name"] == "y" and n["id"] == d["id"]
        assert parse_into_datetime(n["modified"]) > parse_into_datetime(d["modified"])
        r = V.revoke(d)
        assert r["revoked"] is True
print("ok")
