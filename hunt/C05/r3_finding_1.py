import os, sys; sys.path.insert(0, os.getcwd())
# C05: "keeps ... creator", "Unmodifiable and identifier-contributing properties cannot be changed".
# The unmodifiable-property check only looks at the keyword names of the change
# set; the constructor option 'custom_properties' is passed through untouched and
# the constructor merges it into the object, also for spec-defined properties
# the original does not carry.
import stix2
import stix2.versioning
from stix2.exceptions import UnmodifiablePropertyError

CREATOR = 'identity--11111111-1111-4111-8111-111111111111'
problems = []

for mod in (stix2.v20, stix2.v21):
    orig = mod.Identity(name='x', identity_class='individual')
    assert 'created_by_ref' not in orig
    # the direct spelling is refused, as the property demands
    try:
        orig.new_version(created_by_ref=CREATOR)
        problems.append('%s: created_by_ref=... accepted' % mod.__name__)
    except UnmodifiablePropertyError:
        pass
    # the same change through custom_properties must not go through either
    try:
        new = orig.new_version(custom_properties={'created_by_ref': CREATOR})
    except Exception:
        continue
    if new.get('created_by_ref') != orig.get('created_by_ref'):
        problems.append(
            '%s: creator changed from %r to %r by new_version(custom_properties=...)'
            % (mod.__name__, orig.get('created_by_ref'), new.get('created_by_ref')),
        )

# Same loophole for an identifier-contributing property of a 2.1 SCO with a
# deterministic (UUIDv5) id.
f = stix2.v21.File(
    hashes={'MD5': 'd41d8cd98f00b204e9800998ecf8427e'},
    created='2020-01-01T00:00:00Z', modified='2020-01-01T00:00:00Z', revoked=False,
    allow_custom=True,
)
try:
    stix2.versioning.new_version(f, name='other.txt')
    problems.append('File: name=... accepted')
except UnmodifiablePropertyError:
    pass
try:
    f2 = stix2.versioning.new_version(f, custom_properties={'name': 'other.txt'})
except Exception:
    f2 = None
if f2 is not None and f2.get('name') != f.get('name'):
    problems.append(
        'File: id contributing property name changed from %r to %r, id kept %s'
        % (f.get('name'), f2.get('name'), f2.id),
    )

for p in problems:
    print('VIOLATION:', p)
assert not problems, problems
print('ok')
