import os, sys; sys.path.insert(0, os.getcwd())
# C05 "applies exactly the requested changes": a (legal, custom) top-level
# property whose name coincides with a constructor option -- 'allow_custom',
# 'interoperability' or 'custom_properties' -- is silently dropped or mangled
# in every new version, although the change set does not mention it.
import json
import stix2, stix2.versioning

for name, value in (
    ('allow_custom', 'yes'),
    ('interoperability', 'yes'),
    ('custom_properties', {'abc': 1}),
):
    o = stix2.v21.Identity(
        name='x', identity_class='individual',
        created='2020-01-01T00:00:00.000Z', modified='2020-01-01T00:00:00.000Z',
        custom_properties={name: value},
    )
    jo = json.loads(o.serialize())
    assert jo[name] == value          # the object really has that property
    n = o.new_version(name='y')
    jn = json.loads(n.serialize())
    for k in set(jo) | set(jn):
        if k in ('modified', 'name'):
            continue
        assert jo.get(k) == jn.get(k), \
            "property %r: %r in the original, %r in the new version (only 'name' was to change)" % (k, jo.get(k), jn.get(k))
print("ok")
