import os, sys; sys.path.insert(0, os.getcwd())
# C05, clean tree: a versionable STIX 2.1 object whose 'modified' property was
# declared with exact millisecond precision (a user-defined observable type, or
# a registered toplevel-property-extension, which supplies created / modified /
# revoked) gets a "new version" whose modified time EQUALS the original's when
# the wall clock is not later than the old modified time: new_version() picks
# the push (1 microsecond) from the spec version, the property then truncates
# the pushed value to whole milliseconds.
import pytz
import stix2
import stix2.versioning as V
from stix2 import v21
from stix2.properties import BooleanProperty, StringProperty, TimestampProperty
from stix2.utils import STIXdatetime, format_datetime


@v21.CustomObservable(
    "x-c05-host", [
        ("name", StringProperty(required=True)),
        ("note", StringProperty()),
        ("created", TimestampProperty(precision="millisecond")),
        ("modified", TimestampProperty(precision="millisecond")),
        ("revoked", BooleanProperty(default=lambda: False)),
    ], ["name"],
)
class Host(object):
    pass


h1 = Host(
    name="alpha", created="2020-01-01T00:00:00.123Z",
    modified="2020-01-01T00:00:00.123Z",
)

# the wall clock reads exactly the old modified time (an earlier reading gives
# the same result)
V.get_timestamp = lambda: STIXdatetime(2020, 1, 1, 0, 0, 0, 123000, tzinfo=pytz.utc)

h2 = h1.new_version(note="changed")
assert h2["note"] == "changed" and h2["id"] == h1["id"]
print("old:", format_datetime(h1["modified"]), " new:", format_datetime(h2["modified"]))
assert h2["modified"] > h1["modified"], \
    "new version is not strictly newer: %s vs %s" % (h2["modified"], h1["modified"])
assert format_datetime(h2["modified"]) > format_datetime(h1["modified"])

# and along a chain with a frozen clock nothing ever moves
h3 = h2.new_version(note="changed again")
assert h3["modified"] > h2["modified"]
