import os, sys; sys.path.insert(0, os.getcwd())
# A 'modified' time supplied through custom_properties (a change like any other,
# see new_version(): "Properties given via custom_properties are changes too")
# is neither applied nor checked: it is silently replaced by the clock reading.
import stix2, stix2.versioning as V
from stix2.utils import STIXdatetime, parse_into_datetime
from stix2.exceptions import STIXError

V.get_timestamp = lambda: STIXdatetime(parse_into_datetime('2021-01-01T00:00:00Z'))

for mod in (stix2.v20, stix2.v21):
    o = mod.Identity(
        name='x', identity_class='individual',
        created='2020-01-01T00:00:00.000Z', modified='2020-06-01T00:00:00.000Z',
    )

    # (a) caller-supplied modified time that is EARLIER than the current one: must be refused
    try:
        n = o.new_version(custom_properties={'modified': '2000-01-01T00:00:00.000Z'})
    except (STIXError, ValueError):
        pass
    else:
        raise AssertionError(
            "%s: modified supplied via custom_properties earlier than the current one "
            "was accepted (and ignored): new modified = %s" % (mod.__name__, n['modified']),
        )

    # (b) caller-supplied, strictly later modified time: must be applied exactly (or refused)
    try:
        n = o.new_version(custom_properties={'modified': '2030-01-01T00:00:00.000Z'})
    except (STIXError, ValueError):
        pass
    else:
        assert n.serialize().count('"modified": "2030-01-01T00:00:00.000Z"') == 1, \
            "%s: requested modified 2030-01-01T00:00:00.000Z not applied, got %s" % (mod.__name__, n['modified'])
print("ok")
