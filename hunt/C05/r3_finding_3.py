import os, sys; sys.path.insert(0, os.getcwd())
# C05: the new modified time is strictly later than the original's, whatever the
# wall clock reads.  new_version()/revoke() accept every Mapping
# (_check_versionable_object), but the spec version is only determined for
# stix2 objects and for real dicts (_get_stix_version); for any other mapping
# it is None.  new_version then chooses the timestamp rules inconsistently:
#   precision_constraint = "min" if stix_version == "2.1" else "exact"   -> 2.0 rule (truncate old to ms)
#   _fudge_modified(old, new, stix_version != "2.0")                      -> 2.1 rule (push only if new <= old, by 1 us)
import collections
import datetime as dt

import pytz

import stix2
import stix2.versioning
from stix2.utils import STIXdatetime, format_datetime, parse_into_datetime

clock = [None]
stix2.versioning.get_timestamp = lambda: STIXdatetime(clock[0])

problems = []


def check(label, data, now, ms_only):
    clock[0] = now
    old = parse_into_datetime(data['modified'])
    new = stix2.versioning.new_version(data)
    new_m = parse_into_datetime(new['modified'])
    if ms_only:  # STIX 2.0 serializes exactly three fractional digits
        old = parse_into_datetime(old, precision='millisecond')
        new_m = parse_into_datetime(new_m, precision='millisecond')
    if not new_m > old:
        problems.append('%s: old %s, clock %s, new %s' % (
            label, format_datetime(old), format_datetime(STIXdatetime(now)), format_datetime(new_m),
        ))


d21 = {
    'type': 'identity', 'spec_version': '2.1',
    'id': 'identity--22222222-2222-4222-8222-222222222222',
    'created': '2020-01-01T00:00:00.000Z', 'modified': '2020-01-01T00:00:00.0019Z',
    'revoked': False, 'name': 'x',
}
d20 = {
    'type': 'identity',
    'id': 'identity--22222222-2222-4222-8222-222222222222',
    'created': '2020-01-01T00:00:00.000Z', 'modified': '2020-01-01T00:00:00.001Z',
    'revoked': False, 'name': 'x', 'identity_class': 'individual',
}
now21 = dt.datetime(2020, 1, 1, 0, 0, 0, 1500, tzinfo=pytz.utc)   # 0.4 ms before the old modified
now20 = dt.datetime(2020, 1, 1, 0, 0, 0, 1500, tzinfo=pytz.utc)   # 0.5 ms after the old modified

# plain dicts: fine
check('dict 2.1', dict(d21), now21, False)
check('dict 2.0', dict(d20), now20, True)
# the same content in another Mapping type that the functions accept
check('UserDict 2.1', collections.UserDict(d21), now21, False)
check('UserDict 2.0', collections.UserDict(d20), now20, True)

for p in problems:
    print('VIOLATION:', p)
assert not problems, problems
print('ok')
