import os, sys; sys.path.insert(0, os.getcwd())
# C05: "for any legal change set, the new version ... applies exactly the
# requested changes".  The change set is passed as **kwargs into
# stix2.versioning.new_version(data, allow_custom=None, **kwargs), so a (legal)
# property that is called 'data' cannot be changed at all, and one called
# 'allow_custom' is silently swallowed as the option of that name.
import stix2
import stix2.versioning

problems = []

obj = stix2.v21.Identity(name='x', identity_class='individual', data='old', allow_custom=True)
dct = {
    'type': 'identity', 'spec_version': '2.1',
    'id': 'identity--22222222-2222-4222-8222-222222222222',
    'created': '2020-01-01T00:00:00.000Z', 'modified': '2020-01-01T00:00:00.000Z',
    'name': 'x', 'data': 'old',
}

for label, call in (
    ('object.new_version(data=...)', lambda: obj.new_version(data='new')),
    ('versioning.new_version(obj, data=...)', lambda: stix2.versioning.new_version(obj, **{'data': 'new'})),
    ('versioning.new_version(dict, data=...)', lambda: stix2.versioning.new_version(dct, **{'data': 'new'})),
):
    try:
        new = call()
    except TypeError as e:
        problems.append('%s -> TypeError: %s' % (label, e))
        continue
    if new['data'] != 'new':
        problems.append('%s -> data == %r' % (label, new['data']))

# 'allow_custom' as a property name: swallowed, not applied
d2 = dict(dct, allow_custom='old')
new = stix2.versioning.new_version(d2, **{'allow_custom': 'new'})
if new.get('allow_custom') != 'new':
    problems.append("new_version(dict, allow_custom='new') -> allow_custom == %r" % (new.get('allow_custom'),))

for p in problems:
    print('VIOLATION:', p)
assert not problems, problems
print('ok')
