import os, sys; sys.path.insert(0, os.getcwd())
# C09: "On syntactically valid STIX patterns the equivalence test never fails".
# An integer literal may have any number of digits in the pattern grammar
# (stix2patterns validates it).  IntegerConstant uses int(text), which refuses
# more than sys.get_int_max_str_digits() (4300 by default) digits with a
# ValueError, reported as "must be an integer.".
from stix2patterns.validator import run_validator
from stix2.equivalence.pattern import equivalent_patterns

p = "[a:b = 1" + "0" * 5000 + "]"
assert run_validator(p, stix_version="2.1") == []
assert equivalent_patterns(p, p, stix_version="2.1") is True
assert equivalent_patterns(p, "[a:b = 1]", stix_version="2.1") is False
print("ok")
