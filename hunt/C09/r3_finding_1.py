import os, sys; sys.path.insert(0, os.getcwd())
# Soundness: an index step [*] ("any element of the list b") and a key step
# '*' ("the entry named * of the dictionary b") are different object paths.
#   observed  {"type": "a", "b": [1]}        matches p, not q
#   observed  {"type": "a", "b": {"*": 1}}   matches q, not p
# so the two patterns must not be reported equivalent.
from stix2.equivalence.pattern import (
    equivalent_patterns, find_equivalent_patterns,
)

p = "[a:b[*] = 1]"
q = "[a:b.'*' = 1]"
for v in ("2.0", "2.1"):
    assert equivalent_patterns(p, p, stix_version=v)
    assert equivalent_patterns(q, q, stix_version=v)
    r = equivalent_patterns(p, q, stix_version=v)
    assert r is False, "%s reported equivalent to %s (stix_version=%s)" % (p, q, v)
    assert list(find_equivalent_patterns(p, [q, p], stix_version=v)) == [p]

# same thing deeper in a path / next to other steps
assert not equivalent_patterns(
    "[a:x.b[*].c = 'v']", "[a:x.b.'*'.c = 'v']", stix_version="2.1",
)
print("ok")
