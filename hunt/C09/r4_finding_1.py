import os, sys; sys.path.insert(0, os.getcwd())
# C09: "On syntactically valid STIX patterns the equivalence test never fails".
# A NUL character is a legal character of a STIX pattern string literal (the
# grammar admits every character except ' and \ unescaped; stix2patterns
# validates the pattern without complaint).  The IPv4/IPv6 special-value
# canonicalisation only expects OSError from socket.inet_aton()/inet_pton(),
# but those raise ValueError("embedded null character") for such a string.
from stix2patterns.validator import run_validator
from stix2.equivalence.pattern import equivalent_patterns, find_equivalent_patterns

p4 = "[ipv4-addr:value = '10.0.0.1\x00']"
p6 = "[ipv6-addr:value = '::1\x00']"
for p in (p4, p6):
    assert run_validator(p, stix_version="2.1") == [], "pattern is not valid?"

# must not raise; reflexivity demands True
assert equivalent_patterns(p4, p4, stix_version="2.1") is True
assert equivalent_patterns(p6, p6, stix_version="2.1") is True
assert equivalent_patterns(p4, "[a:b = 1]", stix_version="2.1") is False
assert list(find_equivalent_patterns("[a:b = 1]", [p6, "[a:b = 1]"], stix_version="2.1")) == ["[a:b = 1]"]
print("ok")
