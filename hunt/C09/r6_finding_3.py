import os, sys; sys.path.insert(0, os.getcwd())
# C09: "It recognises the algebraic rewrites it documents (... absorption ...)"
# ("absorption under a qualifier").  AbsorptionTransformer documents
#     A or (A and B) = A,  A or (A followedby B) = A,  A or (B followedby A) = A
# but refuses every absorber A that is a qualified expression
# ("if isinstance(child1, QualifiedObservationExpression): continue"), although the rewrite
# is just as valid there: whenever (Q AND B) matches, Q matches.
from stix2.equivalence.pattern import equivalent_patterns

B = "[a:y = 0]"
for Q in (
    "[a:x = 1] REPEATS 2 TIMES",
    "[a:x = 1] WITHIN 5 SECONDS",
    "[a:x = 1] START t'2020-01-01T00:00:00Z' STOP t'2021-01-01T00:00:00Z'",
    "([a:x = 1] AND [a:x = 2]) WITHIN 5 SECONDS",
):
    for tmpl in ("(%(Q)s) OR ((%(Q)s) AND %(B)s)", "(%(Q)s) OR ((%(Q)s) FOLLOWEDBY %(B)s)", "(%(Q)s) OR (%(B)s FOLLOWEDBY (%(Q)s))"):
        p = tmpl % {"Q": Q, "B": B}
        assert equivalent_patterns(Q, p), "absorption not recognised: %s  vs  %s" % (Q, p)
        assert equivalent_patterns(p, Q)
print("ok")
