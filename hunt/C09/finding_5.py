import os, sys; sys.path.insert(0, os.getcwd())
# C09 soundness: windows_reg_key() lower-cases the constant of ANY comparison on
# windows-registry-key:key / values[*].name, also for MATCHES, where lower-casing changes the meaning
# of the regular expression (\S = non-space, \s = space; \W/\w, \D/\d, \B/\b likewise).
import re
from stix2.equivalence.pattern import equivalent_patterns
p = "[windows-registry-key:key MATCHES '^hklm.\\\\S+$']"    # regex: ^hklm.\S+$
q = "[windows-registry-key:key MATCHES '^hklm.\\\\s+$']"    # regex: ^hklm.\s+$
key = "hklm\\software"
assert re.search(r"^hklm.\S+$", key) and not re.search(r"^hklm.\s+$", key)
assert not equivalent_patterns(p, q, stix_version="2.1"), "unsound: %s == %s" % (p, q)
print("ok")
