import os, sys; sys.path.insert(0, os.getcwd())
# C09 "never fails": the empty hex literal h'' is accepted by the 2.0 and 2.1 grammars
# (HexLiteral: 'h' QUOTE TwoHexDigits* QUOTE) but HexConstant insists on at least one byte,
# so equivalent_patterns raises ValueError.
from stix2patterns.validator import run_validator
from stix2.equivalence.pattern import equivalent_patterns
p = "[artifact:payload_bin = h'']"
for v in ("2.0", "2.1"):
    assert run_validator(p, stix_version=v) == []
    assert equivalent_patterns(p, p, stix_version=v) is True
    assert equivalent_patterns(p, "[artifact:payload_bin = h'00']", stix_version=v) is False
print("ok")
