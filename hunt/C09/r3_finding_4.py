import os, sys; sys.path.insert(0, os.getcwd())
# Totality: a (realistic, IOC-list style) observation with a few hundred OR-ed
# comparisons is parsed fine by stix2patterns, but the AST builder recurses
# once per operand and the equivalence test dies with RecursionError under the
# default interpreter settings.
from stix2patterns.v21.pattern import Pattern
from stix2.equivalence.pattern import equivalent_patterns

n = 400
p = "[" + " OR ".join("file:name = 'f%d'" % i for i in range(n)) + "]"
q = "[" + " OR ".join("file:name = 'f%d'" % i for i in reversed(range(n))) + "]"
Pattern(p); Pattern(q)
assert equivalent_patterns(p, q, stix_version="2.1") is True
o = " OR ".join("[file:name = 'f%d']" % i for i in range(n))
Pattern(o)
assert equivalent_patterns(o, o, stix_version="2.1") is True
print("ok")
