import os, sys; sys.path.insert(0, os.getcwd())
# Totality: syntactically valid pattern (accepted by the stix2patterns parser
# AND by stix2's own AST builder) on which the equivalence test raises
# AttributeError.  The comparison-level DNF step drops every distributed AND
# of the inner expression (no common object type), leaves an OR without
# operands (which has no 'root_types'), and the next distribution step trips
# over it.  The pattern is simply equivalent to [a:q = 5 AND a:r = 6].
from stix2patterns.v21.pattern import Pattern
from stix2.pattern_visitor import create_pattern_object
from stix2.equivalence.pattern import equivalent_patterns

p = "[(a:q = 5 OR (a:x = 1 AND a:y = 2 AND (b:z = 3 OR b:w = 4))) AND a:r = 6]"
Pattern(p)                                  # valid syntax
create_pattern_object(p, version="2.1")     # AST is built without complaint
assert equivalent_patterns(p, p, stix_version="2.1") is True
assert equivalent_patterns(p, "[a:q = 5 AND a:r = 6]", stix_version="2.1") in (True, False)
print("ok")
