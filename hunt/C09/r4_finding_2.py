import os, sys; sys.path.insert(0, os.getcwd())
# C09 soundness: patterns reported equivalent must match exactly the same
# observations.  The CIDR canonicalisation of ipv4-addr:value / ipv6-addr:value
# constants ('1.2.3.4/32' -> '1.2.3.4', host bits zeroed) is also applied when
# the operator is an ORDER comparison (<, <=, >, >=).  Under the STIX
# patterning semantics an order comparison of strings is a comparison by code
# point, so rewriting the constant changes what the comparison matches.
from stix2.equivalence.pattern import equivalent_patterns

p = "[ipv4-addr:value > '1.2.3.4/32']"
q = "[ipv4-addr:value > '1.2.3.4']"

# independent evaluation on one observed object: ipv4-addr with value '1.2.3.4/31'
observed = "1.2.3.4/31"
matches_p = observed > "1.2.3.4/32"     # False ('/31' < '/32')
matches_q = observed > "1.2.3.4"        # True  (proper extension of the constant)
assert matches_p != matches_q           # the two patterns are distinguishable

assert not equivalent_patterns(p, q, stix_version="2.1"), \
    "reported equivalent, but an ipv4-addr with value %r matches only one of them" % observed

# same for ipv6 and for '<'
p6 = "[ipv6-addr:value < '1:2:3:4:5:6:7:8/128']"
q6 = "[ipv6-addr:value < '1:2:3:4:5:6:7:8']"
obs6 = "1:2:3:4:5:6:7:8/127"
assert (obs6 < "1:2:3:4:5:6:7:8/128") != (obs6 < "1:2:3:4:5:6:7:8")
assert not equivalent_patterns(p6, q6, stix_version="2.1")
print("ok")
