import os, sys; sys.path.insert(0, os.getcwd())
# C09: "It recognises the algebraic rewrites it documents (... absorption ...)".
# AbsorptionTransformer (observation level) documents  X or (C followedby X) = X.
# Applied to the operand X = ([A] AND [B]) of  [A] OR X  the rewrite is NOT recognised,
# because X is itself absorbed by its sibling [A] in the same pass and an operand that is
# already marked for deletion is skipped as an absorber ("if i in to_delete: continue").
from stix2.equivalence.pattern import equivalent_patterns, find_equivalent_patterns

A = "[a:x = 1]"; B = "[a:x = 2]"; C = "[a:y = 0]"
X = "(%s AND %s)" % (A, B)
X_rewritten = "%s OR (%s FOLLOWEDBY %s)" % (X, C, X)     # X or (C followedby X)

# the rewrite alone is recognised ...
assert equivalent_patterns(X, X_rewritten)
# ... and so is A or (A and B) = A
assert equivalent_patterns(A, "%s OR %s" % (A, X))

p = "%s OR %s" % (A, X)
q = "%s OR %s" % (A, X_rewritten)          # same pattern, one operand rewritten by documented absorption
# all three patterns match exactly the same observation sequences (all are equivalent to [A])
assert equivalent_patterns(p, q), "absorption rewrite of an OR operand not recognised"
assert equivalent_patterns(q, p)
assert equivalent_patterns(A, q)           # transitivity of the rewrites: A ~ p ~ q
assert list(find_equivalent_patterns(A, [p, q])) == [p, q]
print("ok")
