import os, sys; sys.path.insert(0, os.getcwd())
# C09: "It recognises the algebraic rewrites it documents (... absorption,
# distribution of AND/FOLLOWEDBY over OR ...)".
# q is p with FOLLOWEDBY distributed over the OR -- exactly the rewrite
# documented in transform/observation.py:DNFTransformer
#     A followedby (B or C) => (A followedby B) or (A followedby C)
# The two are (trivially) semantically equal, but are reported NOT equivalent:
# in p the inner OR is simplified by absorption (A or (A and B) = A) before the
# distribution; in q the same absorption is no longer found after the
# distribution ((W fb A) or (W fb (A and B))), so the normal forms differ.
from stix2.equivalence.pattern import equivalent_patterns

p = "[w:w=1] FOLLOWEDBY ([a:a=1] OR ([a:a=1] AND [b:b=1]))"
q = "([w:w=1] FOLLOWEDBY [a:a=1]) OR ([w:w=1] FOLLOWEDBY ([a:a=1] AND [b:b=1]))"
assert equivalent_patterns(p, q, stix_version="2.1"), "distribution of FOLLOWEDBY over OR not recognised"

p = "[w:w=1] AND ([a:a=1] OR ([a:a=1] FOLLOWEDBY [b:b=1]))"
q = "([w:w=1] AND [a:a=1]) OR ([w:w=1] AND ([a:a=1] FOLLOWEDBY [b:b=1]))"
assert equivalent_patterns(p, q, stix_version="2.1"), "distribution of AND over OR not recognised"
print("ok")
