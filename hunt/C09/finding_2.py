import os, sys; sys.path.insert(0, os.getcwd())
# C09 "never fails": timestamp literals that are syntactically valid (grammar + validator accept them,
# STIX timestamps may carry arbitrary sub-second precision; RFC 3339 allows second 60) make the
# equivalence test raise ValueError("Must be a datetime object or timestamp string.").
from stix2patterns.validator import run_validator
from stix2.equivalence.pattern import equivalent_patterns
pats = [
    "[file:created = t'2016-02-20T23:59:00.1234567Z']",                 # 7 fractional digits
    "[file:created = t'2016-12-31T23:59:60Z']",                         # leap second
    "[file:name = 'x'] START t'2016-01-01T00:00:00.0000001Z' STOP t'2017-01-01T00:00:00Z'",
]
for p in pats:
    for v in ("2.0", "2.1"):
        assert run_validator(p, stix_version=v) == []
        assert equivalent_patterns(p, p, stix_version=v) is True, p
print("ok")
