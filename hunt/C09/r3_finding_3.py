import os, sys; sys.path.insert(0, os.getcwd())
# Totality + commutativity of AND: a comparison-level AND whose operands name
# different object types is syntactically valid (it simply never matches).
# The equivalence test raises ValueError for it -- but only depending on the
# ORDER of the operands: with three operands the check is skipped when the
# first two agree, so p is accepted while its commutation q is refused.
from stix2patterns.v21.pattern import Pattern
from stix2.equivalence.pattern import equivalent_patterns

p = "[a:x = 1 AND a:y = 2 AND b:z = 3]"
q = "[b:z = 3 AND a:x = 1 AND a:y = 2]"
Pattern(p); Pattern(q)          # both syntactically valid
assert equivalent_patterns(p, p, stix_version="2.1") is True
assert equivalent_patterns(q, q, stix_version="2.1") is True      # ValueError
assert equivalent_patterns(p, q, stix_version="2.1") is True      # commutativity
r = "[a:x = 1 AND b:z = 3]"
Pattern(r)
assert equivalent_patterns(r, r, stix_version="2.1") is True      # ValueError
print("ok")
