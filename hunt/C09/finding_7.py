import os, sys; sys.path.insert(0, os.getcwd())
# C09 soundness ("numerically equal constants"): float literals are converted with float(), which
# overflows to inf, so two numerically DIFFERENT (but large) float constants compare equal.
from stix2.equivalence.pattern import equivalent_patterns
z = "0" * 400
p = "[x:a = 1%s.0]" % z
q = "[x:a = 2%s.0]" % z
assert equivalent_patterns(p, p)
assert not equivalent_patterns(p, q), "1e400 and 2e400 reported numerically equal"
print("ok")
