import os, sys; sys.path.insert(0, os.getcwd())
# C09 soundness: SpecialValueCanonicalization rewrites the constant of ANY comparison on
# ipv4-addr:value / ipv6-addr:value as if it were an address, also when the operator is MATCHES or
# LIKE, where the constant is a regular expression / LIKE template and not an address.
import re
from stix2.equivalence.pattern import equivalent_patterns
p = "[ipv4-addr:value MATCHES '127.1']"
q = "[ipv4-addr:value MATCHES '127.0.0.1']"
# The two regexes accept different strings, e.g. the perfectly ordinary address 127.1.2.3:
obs = "127.1.2.3"
assert bool(re.search("127.1", obs)) != bool(re.search("127.0.0.1", obs))
# ... so an observation of ipv4-addr 127.1.2.3 matches p but not q; they must not be "equivalent".
assert not equivalent_patterns(p, q, stix_version="2.1"), "unsound: %s == %s" % (p, q)
# same for LIKE (template '10' matches only the string '10', template '0.0.0.10' only '0.0.0.10')
assert not equivalent_patterns("[ipv4-addr:value LIKE '10']", "[ipv4-addr:value LIKE '0.0.0.10']")
# and for a CIDR-looking regex: 'x/8' regex text is rewritten
assert not equivalent_patterns("[ipv4-addr:value MATCHES '10.1.2.3/8']", "[ipv4-addr:value MATCHES '10.0.0.0/8']")
print("ok")
