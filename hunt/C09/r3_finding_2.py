import os, sys; sys.path.insert(0, os.getcwd())
# Totality: the pattern grammar lets index steps follow each other
# (objectPathComponent: objectPathComponent objectPathComponent), the patterns
# below are accepted by the stix2patterns parser/validator, yet the
# equivalence test raises AttributeError while building the AST.
from stix2patterns.v21.pattern import Pattern
from stix2.equivalence.pattern import equivalent_patterns

for p in (
    "[a:b[1][2] = 1]",
    "[a:b[*][*] = 1]",
    "[a:b.c[0][*].d = 'x']",
):
    Pattern(p)   # syntactically valid: no ParseException
    assert equivalent_patterns(p, p, stix_version="2.1") is True, p
print("ok")
