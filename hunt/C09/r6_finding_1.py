import os, sys; sys.path.insert(0, os.getcwd())
# C09: "On syntactically valid STIX patterns the equivalence test never fails [and] is reflexive".
# A leap-second timestamp literal (seconds = 60) is accepted by the STIX pattern grammar
# (and is a valid RFC 3339 / STIX timestamp), but the equivalence test raises ValueError.
# The same happens for year 0000, which the grammar accepts as well.
from stix2patterns.validator import run_validator
from stix2.equivalence.pattern import equivalent_patterns, find_equivalent_patterns

patterns = [
    "[file:created = t'2016-12-31T23:59:60Z']",
    "[file:name = 'x'] START t'2016-12-31T23:59:60Z' STOP t'2017-01-01T00:00:01Z'",
    "[file:created = t'0000-01-01T00:00:00Z']",
]
for p in patterns:
    # syntactically valid according to the pattern grammar / validator
    assert run_validator(p, stix_version="2.1") == [], run_validator(p, stix_version="2.1")
for p in patterns:
    assert equivalent_patterns(p, p) is True, p          # raises ValueError on the clean tree
    assert list(find_equivalent_patterns(p, [p])) == [p], p
print("ok")
