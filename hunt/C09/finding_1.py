import os, sys; sys.path.insert(0, os.getcwd())
# C09 "never fails": the STIX 2.1 grammar has the EXISTS test ([EXISTS path], [NOT EXISTS path]);
# the pattern is syntactically valid (stix2patterns validator: no errors) but the visitor has no
# visitPropTestExists, so the AST contains a raw python list and equivalence crashes.
from stix2patterns.validator import run_validator
from stix2.equivalence.pattern import equivalent_patterns, find_equivalent_patterns
pats = ["[EXISTS file:name]", "[NOT EXISTS file:name]", "[file:name = 'a' AND EXISTS file:size]"]
for p in pats:
    assert run_validator(p, stix_version="2.1") == [], "pattern not syntactically valid?"
    r = equivalent_patterns(p, p, stix_version="2.1")   # TypeError / AttributeError on clean tree
    assert r is True, (p, r)                              # reflexivity
assert list(find_equivalent_patterns(pats[0], pats, stix_version="2.1")) == [pats[0]]
print("ok")
