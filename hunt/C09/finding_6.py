import os, sys; sys.path.insert(0, os.getcwd())
# C09 soundness: the IPv4/IPv6 canonicalisation accepts, and silently "repairs", constants that are
# not addresses/CIDR blocks at all, because it relies on the lenient inet_aton() and int():
#   inet_aton accepts trailing garbage after white space, 1-3 part and octal/hex forms;
#   int() accepts surrounding white space, a sign, '_' digit separators and non-ASCII digits.
# Patterns whose constants are different strings (and denote no common address) are reported equivalent.
from stix2.equivalence.pattern import equivalent_patterns
pairs = [
    ("[ipv4-addr:value = '1.2.3.4 or anything at all']", "[ipv4-addr:value = '1.2.3.4']"),
    ("[ipv4-addr:value = '010.1.1.1']", "[ipv4-addr:value = '8.1.1.1']"),
    ("[ipv4-addr:value = '127.1']", "[ipv4-addr:value = '127.0.0.1']"),
    ("[ipv4-addr:value = '1.2.3.4/2_4']", "[ipv4-addr:value = '1.2.3.0/24']"),
    ("[ipv4-addr:value = '1.2.3.4/ +24 ']", "[ipv4-addr:value = '1.2.3.0/24']"),
    ("[ipv6-addr:value = '1::2/٣']", "[ipv6-addr:value = '::/3']"),
]
bad = [(p, q) for p, q in pairs if equivalent_patterns(p, q, stix_version="2.1")]
assert not bad, "reported equivalent although the constants are different strings: %r" % bad
print("ok")
