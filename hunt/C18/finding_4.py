import os, sys; sys.path.insert(0, os.getcwd())
# C18: a composite answers as the union of its members; lookup by id gives the
# newest version held by any member, with the composite's filters applied to
# every member.  The answer must not depend on how the versions are
# partitioned over the members.
from stix2 import CompositeDataSource, MemorySource, Filter
from stix2.v21 import Malware

T1 = "2020-01-01T00:00:00.000Z"
T2 = "2021-01-01T00:00:00.000Z"
v1 = Malware(name="m", is_family=False, created=T1, modified=T1)
v2 = v1.new_version(modified=T2, name="m2")


def composite(*parts):
    c = CompositeDataSource()
    c.add_data_sources([MemorySource(list(p)) for p in parts])
    c.filters.add(Filter("modified", "<", T2))    # only v1 passes
    return c


answers = {}
for name, parts in {
    "one member {v1,v2}": [[v1, v2]],
    "{v1} + {v2}": [[v1], [v2]],
    "{v1,v2} + {v1}": [[v1, v2], [v1]],
}.items():
    c = composite(*parts)
    # the filtered union, as the same composite reports it
    assert [str(o.modified) for o in c.all_versions(v1.id)] == [str(v1.modified)]
    assert [str(o.modified) for o in c.query([Filter("id", "=", v1.id)])] == [str(v1.modified)]
    got = c.get(v1.id)
    answers[name] = None if got is None else str(got.modified)

assert len(set(answers.values())) == 1, "get() depends on the partition: %r" % answers
assert set(answers.values()) == {str(v1.modified)}, answers
