import os, sys; sys.path.insert(0, os.getcwd())
# C18 finding 1: filters attached to a composite (CompositeDataSource.filters /
# Environment.add_filter) are applied by get/all_versions/query, but
# relationships() never hands them to the members, so relationships() through
# the composite reports relationship objects which the very same composite's
# query() does not contain; related_to() then navigates over them.
import datetime as dt
import stix2
from stix2 import CompositeDataSource, Environment, Filter, MemorySource, MemoryStore, v21


def ts(i):
    return dt.datetime(2021, 3, 1, tzinfo=dt.timezone.utc) + dt.timedelta(seconds=i)


mal = v21.Malware(name='m', is_family=False, created=ts(0), modified=ts(0))
tool = v21.Tool(name='t', created=ts(0), modified=ts(0))
iden = v21.Identity(name='i', identity_class='individual', created=ts(0), modified=ts(0))
r_uses = v21.Relationship(mal, 'uses', tool, created=ts(0), modified=ts(0))
r_rel = v21.Relationship(mal, 'related-to', iden, created=ts(0), modified=ts(0))

FILTER = Filter('relationship_type', '!=', 'related-to')   # hides r_rel (and all non-relationships)

comp = CompositeDataSource()
comp.add_data_sources([MemorySource([mal, tool, r_uses]), MemorySource([iden, r_rel])])
comp.filters.add(FILTER)

env = Environment(store=MemoryStore([mal, tool, iden, r_uses, r_rel]))
env.add_filter(FILTER)

problems = []
for name, src in (('CompositeDataSource', comp), ('Environment', env)):
    # what a scan of the relationship objects this composite holds implies
    scan = sorted(
        r['id'] for r in src.query([Filter('type', '=', 'relationship')])
        if mal.id in (r['source_ref'], r['target_ref'])
    )
    assert scan == [r_uses.id], scan        # the attached filter reaches every member here
    assert src.get(r_rel.id) is None        # ... and here
    got = sorted(r['id'] for r in src.relationships(mal))
    if got != scan:
        problems.append('%s.relationships(mal) = %s, but the scan of its (filtered) relationship objects gives %s' % (name, got, scan))

assert not problems, '\n'.join(problems)
print('ok')
