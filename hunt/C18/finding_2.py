import os, sys; sys.path.insert(0, os.getcwd())
# C18: filters attached to the composite apply to every member -- also when
# the composite is asked for relationships()/related_to().
from stix2 import CompositeDataSource, MemorySource, Environment, Filter
from stix2.v21 import Malware, Campaign, Relationship

T1 = "2020-01-01T00:00:00.000Z"
camp = Campaign(name="c", created=T1, modified=T1)
mal = Malware(name="m", is_family=False, created=T1, modified=T1)
rel = Relationship(camp, "uses", mal, created=T1, modified=T1)

env = Environment(source=MemorySource([camp, mal, rel]))
env.add_filter(Filter("type", "=", "campaign"))      # hides the relationship and the malware
assert [o.id for o in env.query()] == [camp.id]
assert env.query([Filter("type", "=", "relationship")]) == []
assert env.get(rel.id) is None and env.get(mal.id) is None

got_rels = [o.id for o in env.relationships(camp)]
got_related = [o.id for o in env.related_to(camp)]
assert got_rels == [], "composite filter ignored by relationships(): %r" % got_rels
assert got_related == [], "composite filter ignored by related_to(): %r" % got_related
