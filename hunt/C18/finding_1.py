import os, sys; sys.path.insert(0, os.getcwd())
# C18: related_to through a composite (or Environment) must equal a scan of the
# stored relationship objects over the UNION of the members.
from stix2 import CompositeDataSource, MemorySource, Environment, Filter
from stix2.v21 import Malware, Campaign, Relationship

T1 = "2020-01-01T00:00:00.000Z"
T2 = "2021-01-01T00:00:00.000Z"
camp = Campaign(name="c", created=T1, modified=T1)
mal1 = Malware(name="m", is_family=False, created=T1, modified=T1)
mal2 = mal1.new_version(modified=T2, name="m2")
rel = Relationship(camp, "uses", mal1, created=T1, modified=T1)


def key(o):
    return (o["id"], str(o["modified"]))


# member a holds the relationship (and the campaign), member b holds the malware
a = MemorySource([rel, camp])
b = MemorySource([mal1, mal2])
for members in ([a, b], [b, a]):
    c = CompositeDataSource()
    c.add_data_sources(members)
    env = Environment()
    for m in members:
        env.source.add_data_source(m)
    for src in (c, env):
        # the union of the members, seen through the same composite
        rels = src.query([Filter("type", "=", "relationship"), Filter("source_ref", "=", camp.id)])
        assert [r.id for r in rels] == [rel.id]
        expected = sorted(key(o) for o in src.query([Filter("id", "=", rel.target_ref)]))
        assert expected == sorted([key(mal1), key(mal2)])
        got = sorted(key(o) for o in src.related_to(camp))
        assert got == expected, "related_to through %s: got %r, scan implies %r" % (type(src).__name__, got, expected)
