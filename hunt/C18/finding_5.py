import os, sys; sys.path.insert(0, os.getcwd())
# C18: lookup by id gives the newest version held by any member; all_versions
# gives each distinct (id, version) once.  Objects of an unregistered custom
# type are kept as plain dicts (allow_custom=True is the default for the
# sources), so their timestamps are strings.
from stix2 import CompositeDataSource, MemorySource

ID = "x-foo--00000000-0000-4000-8000-000000000001"
old = {"type": "x-foo", "id": ID, "created": "2020-01-01T00:00:00Z", "modified": "2020-01-01T00:00:00Z", "n": 1}
new = dict(old, modified="2020-01-01T00:00:00.5Z", n=2)          # half a second later
same = dict(old, modified="2020-01-01T00:00:00.000Z")             # the same instant as `old`

for parts in ([[old], [new]], [[new], [old]]):
    c = CompositeDataSource()
    c.add_data_sources([MemorySource(p) for p in parts])
    got = c.get(ID)
    assert got["n"] == 2, "get() returned modified=%s although a member holds %s" % (got["modified"], new["modified"])

c = CompositeDataSource()
c.add_data_sources([MemorySource([old]), MemorySource([same])])
allv = c.all_versions(ID)
assert len(allv) == 1, "one (id, version) reported %d times: %r" % (len(allv), [o["modified"] for o in allv])
