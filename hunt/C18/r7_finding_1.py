import os, sys; sys.path.insert(0, os.getcwd())
# Filters attached to a composite (here: an Environment's composite source) must
# apply to every member.  query() honours them, relationships()/related_to()
# through the same composite do not: the members answer relationships() with
# their own query(), which never sees the composite's filters.
import stix2
from stix2 import CompositeDataSource, Environment, Filter, MemorySource

ident_a = stix2.v21.Identity(name="a")
ident_b = stix2.v21.Identity(name="b")
mal = stix2.v21.Malware(name="m", is_family=False, created_by_ref=ident_a.id)
tool = stix2.v21.Tool(name="t", created_by_ref=ident_a.id)
camp = stix2.v21.Campaign(name="c", created_by_ref=ident_a.id)
r_a = stix2.v21.Relationship(mal.id, 'uses', tool.id, created_by_ref=ident_a.id)
r_b = stix2.v21.Relationship(camp.id, 'uses', mal.id, created_by_ref=ident_b.id)

comp = CompositeDataSource()
comp.add_data_source(MemorySource([ident_a, mal, tool, r_a]))
comp.add_data_source(MemorySource([ident_b, camp, r_b]))
comp.filters.add(Filter('created_by_ref', '=', ident_a.id))

visible = comp.query([Filter('type', '=', 'relationship')])
assert [r.id for r in visible] == [r_a.id]          # holds: the filter reaches both members

rels = comp.relationships(mal.id)
# a scan of the relationship objects this composite lets through:
assert sorted(r.id for r in rels) == sorted(r.id for r in visible), \
    "relationships() ignored the composite's filter: %r" % [r.id for r in rels]

related = comp.related_to(mal.id)
assert sorted(o.id for o in related) == [tool.id], [o.id for o in related]
