import os, sys; sys.path.insert(0, os.getcwd())
# C18: lookup by id gives the newest version held by any member regardless of
# member order; all_versions gives each distinct (id, version) once.
# One member is locked to STIX 2.0 (version="2.0"), so it keeps a 2.1-only
# type ("note") as a plain dict with string timestamps, the other member
# holds the parsed object.
import json
from stix2 import CompositeDataSource, MemorySource
from stix2.v21 import Identity, Note

T1 = "2020-01-01T00:00:00.000Z"
ident = Identity(name="x", identity_class="individual", created=T1, modified=T1)
note = Note(content="c", object_refs=[ident.id], created=T1, modified=T1)

a = MemorySource([json.loads(note.serialize())], version="2.0")
b = MemorySource([note])
for members in ([a, b], [b, a]):
    c = CompositeDataSource()
    c.add_data_sources(members)
    allv = c.all_versions(note.id)
    got = c.get(note.id)                      # raises TypeError on the clean tree
    assert got["id"] == note.id
    assert len(allv) == 1, "the single (id, version) is reported %d times" % len(allv)
