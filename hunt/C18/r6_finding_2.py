import os, sys; sys.path.insert(0, os.getcwd())
# C18 finding 2: CompositeDataSource.get() depends on the member order (and can
# raise) when one member holds a copy of an id that carries no version
# (no 'modified'/'created') and another member holds a copy that does.
import traceback
import stix2
from stix2 import CompositeDataSource, MemorySource
from stix2.properties import StringProperty, TimestampProperty


@stix2.v21.CustomObservable('x-c18-thing', [('val', StringProperty()), ('modified', TimestampProperty())])
class Thing(object):
    pass


plain = Thing(val='plain')                                              # no 'modified'
stamped = Thing(id=plain.id, val='stamped', modified='2020-01-01T00:00:00Z')
A, B = MemorySource([plain]), MemorySource([stamped])


def lookup(*members):
    c = CompositeDataSource()
    c.add_data_sources(list(members))
    try:
        got = c.get(plain.id)
        return got and got['val']
    except Exception as e:
        traceback.print_exc()
        return 'raised %s' % type(e).__name__


ab, ba = lookup(A, B), lookup(B, A)
print('members [A, B] ->', ab)
print('members [B, A] ->', ba)
assert ab == ba, 'lookup by id depends on the member order: %r vs %r' % (ab, ba)
print('ok')
