import os, sys; sys.path.insert(0, os.getcwd())
# C18: relationships(obj) returns exactly what a scan of the stored
# relationship objects implies, through any source, store or environment.
from stix2 import MemoryStore, MemorySource, CompositeDataSource, Filter
from stix2.v21 import Campaign, Relationship

T1 = "2020-01-01T00:00:00.000Z"
camp = Campaign(name="c", created=T1, modified=T1)
loop = Relationship(camp.id, "related-to", camp.id, created=T1, modified=T1)   # source_ref == target_ref

store = MemoryStore([camp, loop])
scan = [o for o in store.query([Filter("type", "=", "relationship")])
        if o.source_ref == camp.id or o.target_ref == camp.id]
assert len(scan) == 1

comp = CompositeDataSource()
comp.add_data_source(store.source)
assert len(comp.relationships(camp)) == 1          # through a composite: once

for src in (store, store.source, MemorySource([camp, loop])):
    got = src.relationships(camp)
    assert len(got) == len(scan), "%s.relationships returned the one stored relationship %d times" % (type(src).__name__, len(got))
