import os, sys; sys.path.insert(0, os.getcwd())
# "parses back to the same value": an integer JSON value that is not exactly
# representable as an IEEE double must either round-trip or be refused;
# canonicalize() silently rounds it.
import json
from stix2.canonicalization.Canonicalize import canonicalize

for v in (2**53 + 1, -(2**53 + 1), 2**63 - 1, 12345678901234567890123):
    for doc in (v, [v], {"n": v}):
        try:
            out = canonicalize(doc, utf8=False)
        except (ValueError, OverflowError, TypeError):
            continue  # refusing is acceptable
        back = json.loads(out)
        assert back == doc, "input %r canonicalized to %s which parses back to %r" % (doc, out, back)
print("ok")
