import os, sys; sys.path.insert(0, os.getcwd())
# C12: the type-directory shortcut must never change the result.
# A type filter value ".." passes the "is a single file name" test in
# _get_matching_dir_entries, so the filesystem source searches the PARENT of
# the store directory and returns / chokes on JSON files that are not in the store.
import json, tempfile
import stix2
from stix2 import Filter, FileSystemSink, FileSystemSource
from stix2.datastore.filters import apply_common_filters

top = tempfile.mkdtemp()
store_dir = os.path.join(top, "store")
os.mkdir(store_dir)

stored = stix2.v21.Malware(name="stored", is_family=False)
FileSystemSink(store_dir).add(stored)

# a STIX file that lies NEXT TO the store directory, not in it (e.g. an export)
outsider = stix2.v21.Malware(name="not in the store", is_family=False)
with open(os.path.join(top, "export.json"), "w") as f:
    f.write(outsider.serialize())

query = [Filter("type", "in", ["..", "malware"])]
expected = sorted(o["id"] for o in apply_common_filters([stored], query))
got = sorted(o["id"] for o in FileSystemSource(store_dir).query(query))
assert got == expected, "query returned %r, the store holds only %r" % (got, expected)
