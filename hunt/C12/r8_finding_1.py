import os, sys; sys.path.insert(0, os.getcwd())
import tempfile, shutil, stix2
from stix2 import Filter
from stix2.datastore.filters import apply_common_filters

# An object of an unregistered custom type (kept as a dict, content not
# validated) whose id does not begin with its type name.  The filesystem sink
# stores it, the source returns it for an unfiltered query; the shortcut
# derived from an id filter (type directory = prefix of the id) hides it.
base = tempfile.mkdtemp()
try:
    sink = stix2.FileSystemSink(base, allow_custom=True)
    o = {"type": "x-foo", "id": "x-bar--3561b823-ae84-4e1f-ab0d-966a81e07168", "name": "n"}
    sink.add(o)
    src = stix2.FileSystemSource(base, allow_custom=True)
    everything = src.query([])
    assert [x["id"] for x in everything] == [o["id"]]
    for q in ([Filter("id", "=", o["id"])], [Filter("id", "in", [o["id"]])]):
        ref = [x["id"] for x in apply_common_filters(everything, q)]
        got = [x["id"] for x in src.query(q)]
        assert got == ref, (q, got, ref)
finally:
    shutil.rmtree(base)
print("ok")
