import os, sys; sys.path.insert(0, os.getcwd())
"""C12 finding 3: for objects the stores keep as plain dicts (custom types that are
not registered, e.g. ATT&CK's x-mitre-tactic, with allow_custom=True which is the
default of MemoryStore / FileSystemSource) timestamp properties stay strings and the
filter compares them as text, not as instants:
  "2018-10-17T00:14:20.652Z" > "2018-10-17T00:14:20Z"  is False as text ('.' < 'Z')
  "2018-10-17T00:14:20.652Z" = "2018-10-17T00:14:20.652000Z" is False as text.
"""
import shutil, tempfile
import stix2
from stix2 import Filter, MemoryStore, FileSystemStore

tactic = {
    "type": "x-mitre-tactic",
    "id": "x-mitre-tactic--2558fd61-8c75-4730-94c4-11926db2a263",
    "created": "2018-10-17T00:14:20.652Z",
    "modified": "2018-10-17T00:14:20.652Z",
    "name": "Persistence",
}
d = tempfile.mkdtemp()
try:
    mem = MemoryStore([tactic])
    fs = FileSystemStore(d, allow_custom=True)
    fs.add(tactic)
    problems = []
    for name, store in (("memory", mem), ("filesystem", fs)):
        assert len(store.query([])) == 1
        for f in (
            Filter("created", ">", "2018-10-17T00:14:20Z"),          # 652 ms later than the bound
            Filter("created", ">=", "2018-10-17T00:14:20Z"),
            Filter("created", "=", "2018-10-17T00:14:20.652000Z"),   # same instant, other spelling
            Filter("modified", "<=", "2018-10-17T00:14:20.652000Z"),
        ):
            got = store.query([f])
            if len(got) != 1:
                problems.append((name, tuple(f), len(got)))
    assert not problems, problems
finally:
    shutil.rmtree(d, ignore_errors=True)
print("ok")
