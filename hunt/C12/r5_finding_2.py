import os, sys; sys.path.insert(0, os.getcwd())
# C12 ("contains" on list-valued properties): "contains" selects the objects
# whose list-valued property contains the filter value (labels contains 'rat').
# When the elements of the list are objects (kill_chain_phases,
# external_references) and the filter value is one of these elements, nothing
# is selected, although "=" with the same value (which is evaluated per
# element) selects the object.
import stix2
from stix2 import Filter, MemoryStore

PHASE = {"kill_chain_name": "lm", "phase_name": "recon"}
REF = {"source_name": "capec", "external_id": "CAPEC-1"}
mal = stix2.v21.Malware(
    id="malware--9c4638ec-f1de-4ddb-abf4-1b760417654e", name="Poison Ivy", is_family=False,
    labels=["rat", "remote-access"],
    kill_chain_phases=[PHASE, {"kill_chain_name": "x", "phase_name": "exploit"}],
    external_references=[REF],
)
store = MemoryStore([mal])

# controls
assert len(store.query([Filter("labels", "contains", "rat")])) == 1
assert len(store.query([Filter("kill_chain_phases", "=", PHASE)])) == 1
assert PHASE in mal["kill_chain_phases"] and REF in mal["external_references"]

r = store.query([Filter("kill_chain_phases", "contains", PHASE)])
assert len(r) == 1, "kill_chain_phases contains %r -> %r" % (PHASE, r)
r = store.query([Filter("external_references", "contains", REF)])
assert len(r) == 1, "external_references contains %r -> %r" % (REF, r)
print("ok")
