import os, sys; sys.path.insert(0, os.getcwd())
# C12: the type/id shortcut must never change the result.
# A '!=' filter on type or id whose value is a dict (a supported filter value
# type) holds for every object; the filesystem optimiser puts the value into a
# set and raises TypeError (unhashable) instead of answering.
import tempfile
import stix2
from stix2 import Filter, FileSystemSink, FileSystemSource, MemorySource
from stix2.datastore.filters import apply_common_filters

d = tempfile.mkdtemp()
objs = [stix2.v21.Malware(name="m", is_family=False), stix2.v21.Tool(name="t")]
FileSystemSink(d).add(objs)

for prop in ("id", "type"):
    query = [Filter(prop, "!=", {"a": 1})]
    expected = sorted(o["id"] for o in apply_common_filters(objs, query))
    assert expected == sorted(o["id"] for o in MemorySource(objs).query(query))
    got = sorted(o["id"] for o in FileSystemSource(d).query(query))   # TypeError on the clean tree
    assert got == expected, (prop, got, expected)
