import os, sys; sys.path.insert(0, os.getcwd())
# C12 (timestamp strings compared as instants; "contains" / "=" with an object
# as filter value): an observed-data object holds a file object with a
# timestamp.  A filter whose value is that very file object, written the way
# the library itself serialises it, must select the observed-data object.
import json
import shutil
import tempfile

import stix2
from stix2 import FileSystemStore, Filter, MemoryStore

FILE = {"type": "file", "name": "foo.exe", "created": "2016-05-12T08:17:27Z"}
IP = {"type": "ipv4-addr", "value": "1.2.3.4"}
od = stix2.v20.ObservedData(
    id="observed-data--c67d30ff-02ac-498a-92f9-32f845f448cf",
    created="2016-04-06T19:58:16.000Z", modified="2016-04-06T19:58:16.000Z",
    first_observed="2015-12-21T19:00:00Z", last_observed="2015-12-21T19:00:00Z",
    number_observed=50, objects={"0": dict(FILE), "1": dict(IP)},
)
# the filter value is exactly what the object serialises to
assert json.loads(od.serialize())["objects"]["0"] == FILE

tmp = tempfile.mkdtemp()
try:
    fs = FileSystemStore(tmp)
    fs.add(od)
    for name, store in (("memory", MemoryStore([od])), ("filesystem", fs)):
        # control: the same kind of filter works for the object without a timestamp
        assert len(store.query([Filter("objects", "contains", IP)])) == 1
        assert len(store.query([Filter("objects.1", "=", IP)])) == 1
        # control: the timestamp on its own is compared as an instant
        assert len(store.query([Filter("objects.0.created", "=", "2016-05-12T08:17:27.000Z")])) == 1

        r = store.query([Filter("objects", "contains", FILE)])
        assert len(r) == 1, "%s: objects contains %r -> %r" % (name, FILE, r)
        r = store.query([Filter("objects.0", "=", FILE)])
        assert len(r) == 1, "%s: objects.0 = %r -> %r" % (name, FILE, r)
finally:
    shutil.rmtree(tmp)
print("ok")
