import os, sys; sys.path.insert(0, os.getcwd())
"""C12 finding 1: the FileSystemSource type/id shortcut changes the result of an
'in' filter whose value is a string.

The library documents and tests the idiom  Filter(prop, "in", "<string>")  (docs/guide/
datastore.ipynb: Filter("labels", "in", "threat-report"); test suite:
Filter("external_references.external_id", "in", "CVE-2014-0160,CVE-2017-6608")):
the operator is evaluated as  obj[prop] in value , i.e. substring containment.
_find_search_optimizations() however treats such a value as ONE type name / derives
"types" from the single characters of the id string, so the directory whitelist is
wrong and matching objects are never even looked at.
"""
import shutil, tempfile
import stix2
from stix2 import Filter, FileSystemStore, MemoryStore
from stix2.datastore.filters import apply_common_filters

d = tempfile.mkdtemp()
try:
    mal = stix2.v21.Malware(name="m", is_family=False)
    tool = stix2.v21.Tool(name="t")
    ident = stix2.v21.Identity(name="i")
    objs = [mal, tool, ident]
    fs = FileSystemStore(d)
    fs.add(objs)
    mem = MemoryStore(objs)
    everything = fs.query([])
    assert len(everything) == 3

    queries = [
        [Filter("type", "in", "malware,tool")],
        [Filter("id", "in", mal.id)],
        [Filter("id", "in", mal.id + "," + tool.id)],
    ]
    problems = []
    for q in queries:
        naive = sorted(o["id"] for o in apply_common_filters(everything, q))
        from_mem = sorted(o["id"] for o in mem.query(q))
        from_fs = sorted(o["id"] for o in fs.query(q))
        assert naive == from_mem, (q, naive, from_mem)
        if from_fs != naive:
            problems.append((q, "naive/memory", naive, "filesystem", from_fs))
    assert not problems, problems
finally:
    shutil.rmtree(d, ignore_errors=True)
print("ok")
