import os, sys; sys.path.insert(0, os.getcwd())
"""C12 finding 2: an 'in' filter on a timestamp property never matches when the
list holds timestamp strings (not even the literally identical string), although
'=' with the same string matches: only a bare str filter value is converted to an
instant in Filter._check_property, the members of a list/tuple value are not.
"""
import stix2
from stix2 import Filter, MemoryStore

TS = "2017-01-01T00:00:00.000Z"
m = stix2.v21.Malware(name="m", is_family=False, created=TS, modified=TS)
store = MemoryStore([m])

eq = store.query([Filter("created", "=", TS)])
assert [o.id for o in eq] == [m.id]            # sanity: '=' compares as instants

for values in ([TS], ["2017-01-01T00:00:00Z"], [TS, "2018-01-01T00:00:00Z"]):
    got = store.query([Filter("created", "in", values)])
    assert [o.id for o in got] == [m.id], (
        "Filter('created','in',%r) returned %r although created == %s" % (values, got, TS)
    )
print("ok")
