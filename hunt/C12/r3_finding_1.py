import os, sys; sys.path.insert(0, os.getcwd())
# C12: the filesystem source's type shortcut derived from an id filter must not
# change the result.  A custom type whose name ends in a hyphen (accepted by the
# library's type-name check for 2.0 and 2.1; 2.1 also accepts "x--foo") gets ids
# like "x-foo---<uuid>"; get_type_from_id() splits at the FIRST "--" and yields
# "x-foo", so the type whitelist points at a directory that does not exist and
# every id-filtered answer (query id =, id in, get, all_versions) is empty,
# while the unfiltered query and the memory store do return the object.
import shutil
import tempfile

import stix2
from stix2 import FileSystemStore, Filter, MemoryStore, properties


@stix2.v21.CustomObject('x-foo-', [('name', properties.StringProperty())])
class Foo(object):
    pass


obj = Foo(name='a')
d = tempfile.mkdtemp()
try:
    fs = FileSystemStore(d, allow_custom=True)
    fs.add(obj)
    mem = MemoryStore([obj])

    everything = fs.query([])
    assert [o.id for o in everything] == [obj.id], everything

    for filters in (
        [Filter('id', '=', obj.id)],
        [Filter('id', 'in', [obj.id])],
        [Filter('type', '=', 'x-foo-'), Filter('id', '=', obj.id)],
    ):
        reference = [o.id for o in everything if all(
            (o[f.property] == f.value) if f.op == '=' else (o[f.property] in f.value)
            for f in filters
        )]
        assert reference == [obj.id]
        assert [o.id for o in mem.query(filters)] == reference, ('memory', filters)
        got = [o.id for o in fs.query(filters)]
        assert got == reference, ('filesystem', filters, got, reference)

    assert fs.get(obj.id) is not None, 'FileSystemStore.get() loses the stored object'
    assert len(fs.all_versions(obj.id)) == 1
finally:
    shutil.rmtree(d)
print('ok')
