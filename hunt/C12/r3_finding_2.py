import os, sys; sys.path.insert(0, os.getcwd())
# C12: a query returns an object exactly when every filter holds for it (dotted
# paths into nested properties).  When the population contains one object whose
# custom property is a dictionary and another whose property of the same name is
# a plain string (or a list of plain values), a dotted-path filter into that
# property does not just "not hold" for the second object: _check_filter calls
# .keys() on the string and the whole query raises AttributeError, so the first
# object - for which the filter does hold - is never returned.
import stix2
from stix2 import Filter, MemorySource

a = stix2.v21.Identity(name='a', identity_class='individual', x_info={'level': 3}, allow_custom=True)
b = stix2.v21.Identity(name='b', identity_class='individual', x_info='n/a', allow_custom=True)
c = stix2.v21.Identity(name='c', identity_class='individual', x_info=['n/a'], allow_custom=True)

flt = Filter('x_info.level', '=', 3)
assert [o.name for o in MemorySource([a]).query([flt])] == ['a']
for population in ([a, b], [a, c]):
    got = sorted(o.name for o in MemorySource(population).query([flt]))
    assert got == ['a'], got
print('ok')
