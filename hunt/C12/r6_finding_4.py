import os, sys; sys.path.insert(0, os.getcwd())
# C12: adding a filter that holds for an object must not remove it; the type
# shortcut derived from an id filter must not change the result.
# For content of an unregistered type (kept as a dict, not validated) the id
# need not start with the type name.  The sink files it under its 'type'; the
# optimiser derives the type directory from the id and never looks there.
import tempfile
from stix2 import Filter, FileSystemSink, FileSystemSource, MemorySource
from stix2.datastore.filters import apply_common_filters

d = tempfile.mkdtemp()
obj = {"type": "x-foo", "id": "x-bar--00000000-0000-4000-8000-000000000001", "name": "odd"}
FileSystemSink(d, allow_custom=True).add(obj)
src = FileSystemSource(d, allow_custom=True)

assert [o["id"] for o in src.query([])] == [obj["id"]]          # it is stored and found
for query in ([Filter("id", "=", obj["id"])], [Filter("id", "in", [obj["id"]])]):
    expected = [o["id"] for o in apply_common_filters([obj], query)]
    assert expected == [obj["id"]] == [o["id"] for o in MemorySource([obj]).query(query)]
    got = [o["id"] for o in src.query(query)]
    assert got == expected, (query, got, expected)
assert src.get(obj["id"]) is not None
