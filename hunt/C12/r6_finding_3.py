import os, sys; sys.path.insert(0, os.getcwd())
# C12: the type/id shortcut must never change the result.
# A non-string member in the value list of an 'in' filter on type / id (or a
# non-string value of an id '=' filter) simply matches nothing under the
# documented semantics; the filesystem optimiser calls str methods on it.
import tempfile
import stix2
from stix2 import Filter, FileSystemSink, FileSystemSource, MemorySource
from stix2.datastore.filters import apply_common_filters

d = tempfile.mkdtemp()
m = stix2.v21.Malware(name="m", is_family=False)
t = stix2.v21.Tool(name="t")
objs = [m, t]
FileSystemSink(d).add(objs)

failures = []
for query in (
    [Filter("type", "in", ["malware", 5])],     # TypeError: int + str
    [Filter("id", "in", [m.id, 5])],            # AttributeError: int has no split
    [Filter("id", "=", 5)],                     # AttributeError
    [Filter("id", "=", (m.id,))],               # AttributeError: tuple has no split
):
    expected = sorted(o["id"] for o in apply_common_filters(objs, query))
    assert expected == sorted(o["id"] for o in MemorySource(objs).query(query))
    try:
        got = sorted(o["id"] for o in FileSystemSource(d).query(query))
    except Exception as e:
        got = "%s: %s" % (type(e).__name__, e)
    if got != expected:
        failures.append((query, got, expected))
assert not failures, failures
