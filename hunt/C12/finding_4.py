import os, sys; sys.path.insert(0, os.getcwd())
"""C12 finding 4: filters attached to a CompositeDataSource are applied by its
get()/all_versions()/query() but NOT by its relationships()/related_to(): those
delegate to ds.relationships()/ds.related_to() without handing the composite's
filters down, so the composite returns answers that violate its attached filters.
(The same filter attached directly to the member source IS honoured.)
"""
import stix2
from stix2 import Filter, MemorySource, CompositeDataSource

mal = stix2.v21.Malware(name="m", is_family=False)
tool = stix2.v21.Tool(name="t")
ind = stix2.v21.Indicator(pattern="[file:name = 'a']", pattern_type="stix")
r_ind = stix2.v21.Relationship(ind, "indicates", mal)
r_uses = stix2.v21.Relationship(mal, "uses", tool)
objs = [mal, tool, ind, r_ind, r_uses]

attached = Filter("relationship_type", "=", "indicates")

# reference: attached directly to a plain source
src = MemorySource(objs)
src.filters.add(attached)
assert sorted(r.id for r in src.relationships(mal)) == [r_ind.id]

comp = CompositeDataSource()
comp.add_data_source(MemorySource(objs))
comp.filters.add(attached)
assert sorted(r.id for r in comp.query([Filter("type", "=", "relationship")])) == [r_ind.id]

got = sorted(r.id for r in comp.relationships(mal))
assert got == [r_ind.id], "composite.relationships() ignored attached filter: %r" % got

comp2 = CompositeDataSource()
comp2.add_data_source(MemorySource(objs))
comp2.filters.add(Filter("type", "!=", "tool"))
got = sorted(o.id for o in comp2.related_to(mal))
assert tool.id not in got, "composite.related_to() ignored attached filter: %r" % got
print("ok")
