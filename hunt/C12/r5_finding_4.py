import os, sys; sys.path.insert(0, os.getcwd())
# C12 (the type/id shortcuts of the filesystem source never change the
# result): values of a type/id "in" list which no object has, but which name
# the same directory entry as a good value when used as a path ("ipv4-addr/",
# "./ipv4-addr", "./<id>"), make the filesystem source visit the same file
# several times: the one stored object which satisfies the filter is answered
# 2 or 4 times.  The per-object evaluation (and the memory source) answer it
# once.
import shutil
import tempfile

import stix2
from stix2 import FileSystemStore, Filter, MemoryStore

ip = stix2.v21.IPv4Address(value="10.0.0.1")
mal = stix2.v21.Malware(id="malware--9c4638ec-f1de-4ddb-abf4-1b760417654e", name="Poison Ivy", is_family=False)
QUERIES = [
    [Filter("type", "in", ["ipv4-addr", "ipv4-addr/"])],
    [Filter("type", "in", ["ipv4-addr", "./ipv4-addr"])],
    [Filter("id", "in", [ip.id, "./" + ip.id])],
]

tmp = tempfile.mkdtemp()
try:
    fs = FileSystemStore(tmp)
    fs.add([ip, mal])
    mem = MemoryStore([ip, mal])
    problems = []
    for q in QUERIES:
        want = [o["id"] for o in mem.query(q)]
        got = [o["id"] for o in fs.query(q)]
        assert want == [ip.id]
        if got != want:
            problems.append("%r: filesystem answers %d objects %s, reference 1" % (q, len(got), got))
    print("\n".join(problems))
    assert not problems
finally:
    shutil.rmtree(tmp)
print("ok")
