import os, sys; sys.path.insert(0, os.getcwd())
"""C12 finding 1: a filter whose value is a timezone-naive datetime object
(datetime is one of the documented filter value types, and the library reads a
naive datetime as UTC everywhere else) is not compared as an instant: '=' never
holds, '!=' always holds, and the ordering operators abort the query."""
import datetime as dt
import shutil
import tempfile

import stix2
from stix2 import FileSystemStore, Filter, MemoryStore

when = dt.datetime(2017, 1, 1, 12, 0, 0)          # naive: the library takes it as UTC
mal = stix2.v21.Malware(name='m', is_family=False, created=when, modified=when)
assert mal.serialize().count('2017-01-01T12:00:00.000Z') == 2   # stored as that UTC instant
other = stix2.v21.Malware(name='later', is_family=False, created='2018-01-01T00:00:00Z', modified='2018-01-01T00:00:00Z')

tmp = tempfile.mkdtemp()
try:
    fs = FileSystemStore(tmp)
    fs.add([mal, other])
    problems = []
    for name, store in (('memory', MemoryStore([mal, other])), ('filesystem', fs)):
        # the same instant as a string, and as an aware datetime: fine
        assert [o.id for o in store.query([Filter('created', '=', '2017-01-01T12:00:00Z')])] == [mal.id]
        assert [o.id for o in store.query([Filter('created', '=', dt.datetime(2017, 1, 1, 12, tzinfo=dt.timezone.utc))])] == [mal.id]

        expected = {
            '=': [mal.id], '!=': [other.id], '<': [], '<=': [mal.id],
            '>': [other.id], '>=': sorted([mal.id, other.id]),
        }
        for op, exp in expected.items():
            try:
                got = sorted(o.id for o in store.query([Filter('created', op, when)]))
            except Exception as e:
                got = '%s: %s' % (type(e).__name__, e)
            if got != exp:
                problems.append('%s: created %s %r -> %s (expected %s)' % (name, op, when, got, exp))
    for p in problems:
        print(p)
    assert not problems, '%d wrong answers' % len(problems)
    print('ok')
finally:
    shutil.rmtree(tmp)
