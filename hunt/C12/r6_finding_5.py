import os, sys; sys.path.insert(0, os.getcwd())
# C12: a query returns an object exactly when every filter holds for it.
# A versioned object (has 'modified') of an unregistered type whose id is not
# '<type>--<UUID>' is accepted by the sink (content of unknown types is not
# validated) and written to <type>/<id>/<modified>.json, but
# _is_versioned_type_dir only recognises id directories of exactly that shape:
# the type directory is classified 'unversioned' and the object is returned by
# NO query, not even the empty one.  Whether it is found depends on an
# unrelated sibling object.
import tempfile
from stix2 import Filter, FileSystemSink, FileSystemSource, MemorySource

obj = {"type": "x-foo", "id": "x-foo--1", "created": "2017-01-01T00:00:00Z",
       "modified": "2017-01-01T00:00:00Z", "name": "odd"}
sibling = {"type": "x-foo", "id": "x-foo--00000000-0000-4000-8000-000000000001",
           "created": "2017-01-01T00:00:00Z", "modified": "2017-01-01T00:00:00Z", "name": "plain"}

d = tempfile.mkdtemp()
sink = FileSystemSink(d, allow_custom=True)
sink.add(obj)
src = FileSystemSource(d, allow_custom=True)
problems = []
for query in ([], [Filter("type", "=", "x-foo")], [Filter("name", "=", "odd")], [Filter("id", "=", "x-foo--1")]):
    expected = [o["id"] for o in MemorySource([obj]).query(query)]
    got = [o["id"] for o in src.query(query)]
    if got != expected:
        problems.append((query, got, expected))
# ... and the answer for it changes when an unrelated object is added
sink.add(sibling)
after = sorted(o["id"] for o in src.query([Filter("name", "=", "odd")]))
assert not problems, (problems, "after adding a sibling object the same query gives", after)
