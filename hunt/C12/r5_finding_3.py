import os, sys; sys.path.insert(0, os.getcwd())
# C12 (the type/id shortcuts of the filesystem source never change the
# result): a type or id filter value that cannot be a file name (longer than
# 255 bytes, an embedded NUL, "<id of a stored SCO>.json/x") matches no
# object, so "=" must give [] and an "in" list holding it next to good values
# must give the objects selected by the good values -- as the memory source
# and the per-object evaluation do.  The filesystem source uses the value as a
# directory entry name and lets OSError / ValueError escape.
import shutil
import tempfile

import stix2
from stix2 import FileSystemStore, Filter, MemoryStore

mal = stix2.v21.Malware(id="malware--9c4638ec-f1de-4ddb-abf4-1b760417654e", name="Poison Ivy", is_family=False)
ip = stix2.v21.IPv4Address(value="10.0.0.1")
LONG_ID = "malware--" + "a" * 300
QUERIES = [
    [Filter("id", "in", [mal.id, LONG_ID])],
    [Filter("type", "in", ["malware", "b" * 256])],
    [Filter("id", "=", LONG_ID)],
    [Filter("type", "=", "a" * 300)],
    [Filter("type", "=", "mal\x00ware")],
    [Filter("id", "=", ip.id + ".json/x")],
]

tmp = tempfile.mkdtemp()
try:
    fs = FileSystemStore(tmp)
    fs.add([mal, ip])
    mem = MemoryStore([mal, ip])
    problems = []
    for q in QUERIES:
        want = sorted(o["id"] for o in mem.query(q))
        try:
            got = sorted(o["id"] for o in fs.query(q))
        except Exception as e:
            got = repr(e)
        if got != want:
            problems.append("%.60r...: filesystem %s, memory/reference %s" % (q, got, want))
    print("\n".join(problems))
    assert not problems
finally:
    shutil.rmtree(tmp)
print("ok")
