import os, sys; sys.path.insert(0, os.getcwd())
# C13: a call on one object must leave other, previously created objects
# value-identical.  Two Environments created without an explicit factory share
# ONE ObjectFactory (mutable default argument), so setting a default on one
# silently changes the other (and the module-level workbench environment too).
import copy
import stix2
from stix2 import v21

CREATOR = 'identity--311b2d2d-f010-4473-83ec-1edf84858f4c'

env_a = stix2.Environment()
env_b = stix2.Environment()          # previously created object, never touched below

before_defaults = copy.deepcopy(env_b.factory._defaults)
before = env_b.create(v21.Identity, name='ACME',
                      id='identity--00000000-0000-4000-8000-000000000001',
                      created='2020-01-01T00:00:00Z', modified='2020-01-01T00:00:00Z').serialize()

# operations on env_a only
env_a.set_default_creator(CREATOR)
env_a.set_default_object_marking_refs(['marking-definition--613f2e26-407d-48c7-9eca-b8e91df99dc9'])

after = env_b.create(v21.Identity, name='ACME',
                     id='identity--00000000-0000-4000-8000-000000000001',
                     created='2020-01-01T00:00:00Z', modified='2020-01-01T00:00:00Z').serialize()

assert before == after, "env_b now creates different objects:\n%s\n%s" % (before, after)
assert env_b.factory._defaults == before_defaults, \
    "env_b's factory defaults were changed by calls made on env_a: %r" % (env_b.factory._defaults,)
print("ok")
