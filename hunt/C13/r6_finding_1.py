import os, sys; sys.path.insert(0, os.getcwd())
# A custom property whose name coincides with a constructor keyword
# ('allow_custom', 'interoperability', 'self') can be given legally through
# custom_properties; copy.deepcopy() of such an object must still give an
# equal object.
import copy
import stix2
from stix2 import v20, v21

bad = []
for cls in (v20.Identity, v21.Identity):
    for name in ("allow_custom", "interoperability", "self"):
        obj = cls(name="a", identity_class="individual", custom_properties={name: "x"})
        assert obj[name] == "x"
        before = obj.serialize()
        try:
            dup = copy.deepcopy(obj)
        except Exception as exc:
            bad.append((cls.__module__, name, repr(exc)))
            continue
        if dup != obj or dup.serialize() != before:
            bad.append((cls.__module__, name, "copy differs"))
assert not bad, bad
