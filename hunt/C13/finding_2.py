import os, sys; sys.path.insert(0, os.getcwd())
# C13: "A deep copy is equal to its original" (observed at obj.serialize()).
# A timestamp value taken from one object and stored in a custom (uncleaned)
# property of another object is a STIXdatetime carrying precision metadata.
# copy.deepcopy() of the STIXdatetime drops that metadata (datetime.__reduce_ex__
# ignores instance attributes) and _STIXBase.__deepcopy__ does not restore it for
# properties without a Property definition, so the copy serializes differently.
import copy
from stix2 import v20

src = v20.Identity(
    name="a", identity_class="individual",
    created="2016-04-06T19:58:16.000Z", modified="2016-04-06T19:58:16.000Z",
)
obj = v20.Identity(
    name="b", identity_class="individual",
    created="2016-04-06T19:58:16.000Z", modified="2016-04-06T19:58:16.000Z",
    x_first_seen=src.created, allow_custom=True,
)
before = obj.serialize()
dup = copy.deepcopy(obj)
assert obj.serialize() == before            # original untouched
assert dup == obj                           # Mapping equality (datetime == ignores precision)
assert dup.serialize() == obj.serialize(), (
    "deep copy serializes differently from its original:\n  orig: %s\n  copy: %s"
    % (obj.serialize(), dup.serialize())
)
