import os, sys; sys.path.insert(0, os.getcwd())
# C13: "A deep copy is equal to its original".
# An object legitimately created with interoperability=True (relaxed identifier
# check) cannot be deep-copied at all: __deepcopy__ rebuilds it with
# interoperability=False, so the constructor rejects the object's own id.
import copy
from stix2 import v21

obj = v21.Identity(
    id="identity--00000000-0000-0000-0000-000000000000",
    name="ACME", interoperability=True,
)
before = obj.serialize()
dup = copy.deepcopy(obj)      # raises InvalidValueError on the clean tree
assert dup == obj and dup.serialize() == before
assert obj.serialize() == before
