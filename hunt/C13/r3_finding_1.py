import os, sys; sys.path.insert(0, os.getcwd())
"""C13, clause 'A deep copy is equal to its original': an object carrying a
custom property whose NAME is also a keyword of the constructor
(allow_custom / interoperability / custom_properties) cannot be deep-copied.
Such names are legal STIX custom property names (lowercase ASCII, digits,
underscore; the x_ prefix is only a SHOULD) and the library accepts them through
custom_properties={...} and serializes them."""
import copy
import json
import traceback
from stix2 import v20, v21

failures = []
for V in (v21, v20):
    for name in ('allow_custom', 'interoperability', 'custom_properties'):
        obj = V.Identity(
            name='ACME', identity_class='organization',
            custom_properties={name: 'yes'},
        )
        # the object is a perfectly good one
        assert obj[name] == 'yes' and json.loads(obj.serialize())[name] == 'yes'
        try:
            dup = copy.deepcopy(obj)
            assert dup == obj and dup.serialize() == obj.serialize()
        except Exception:
            failures.append((V.__name__, name, traceback.format_exc().strip().splitlines()[-1]))

for f in failures:
    print('deepcopy failed:', f)
assert not failures
print('ok')
