import os, sys; sys.path.insert(0, os.getcwd())
# C13: "direct assignment to or deletion of an object's properties is refused".
# A STIX 2.0 custom property whose name starts with an underscore (legal in 2.0:
# only 2.1 requires a leading alpha character) can be assigned to directly.
import stix2
from stix2 import v20
from stix2.exceptions import ImmutableError

obj = v20.Identity(
    name="ACME", identity_class="organization",
    _internal_rank=[1], allow_custom=True,
)
assert "_internal_rank" in obj and obj._internal_rank == [1]
before = obj._internal_rank

refused = False
try:
    obj._internal_rank = 5          # direct assignment to one of the object's properties
except (ImmutableError, AttributeError, TypeError):
    refused = True

assert refused, (
    "assignment to property '_internal_rank' was accepted: attribute now reads %r "
    "while obj['_internal_rank'] is %r" % (obj._internal_rank, obj["_internal_rank"])
)
assert obj._internal_rank == before
