import os, sys; sys.path.insert(0, os.getcwd())
# C13: "A deep copy is equal to its original" -- observed at obj.serialize().
# A STIX 2.0 statement marking-definition whose 'created' was given with a
# fractional part keeps millisecond precision ("...00.000Z").  Its deep copy
# (and the deep copy of any Bundle holding it) loses that: the copy is rebuilt
# from the stored STIXdatetime, and v20.common._should_set_millisecond()
# compares its Precision enum member with the string 'millisecond', which never
# matches, so the copy falls back to precision 'any'.
import copy
from stix2 import v20

for created in ('2017-01-20T00:00:00.000Z', '2017-01-20T00:00:00.120Z'):
    m = v20.MarkingDefinition(
        id='marking-definition--613f2e26-407d-48c7-9eca-b8e91df99dc8',
        created=created,
        definition_type='statement',
        definition={'statement': 'Copyright 2017, Example Corp'},
    )
    before = m.serialize()
    dup = copy.deepcopy(m)
    assert m.serialize() == before                      # original untouched
    assert dup.serialize() == before, \
        "deep copy differs from its original:\n  %s\n  %s" % (before, dup.serialize())

    b = v20.Bundle(m, id='bundle--00000000-0000-4000-8000-000000000001')
    assert copy.deepcopy(b).serialize() == b.serialize(), "deep copy of the bundle differs"
print("ok")
