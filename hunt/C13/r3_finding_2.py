import os, sys; sys.path.insert(0, os.getcwd())
"""C13, clause 'A deep copy is equal to its original': a STIX 2.0 cyber
observable carrying a custom property named '_valid_refs' (a legal 2.0 custom
property name; accepted through custom_properties={...} and serialized) loses
that property when deep-copied -- no error, the copy is simply not equal."""
import copy
import json
from stix2 import v20

obj = v20.File(name='a.exe', custom_properties={'_valid_refs': 'kept'})
assert obj['_valid_refs'] == 'kept'
assert json.loads(obj.serialize())['_valid_refs'] == 'kept'

dup = copy.deepcopy(obj)
assert dup.serialize() == obj.serialize(), (obj.serialize(), dup.serialize())
assert dup == obj
print('ok')
