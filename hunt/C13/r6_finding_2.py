import os, sys; sys.path.insert(0, os.getcwd())
# An object holding a (custom) property that is itself named
# 'custom_properties': its deep copy must be equal to the original.
import copy
import stix2
from stix2 import v20, v21

for cls in (v20.Identity, v21.Identity):
    obj = cls(
        name="a", identity_class="individual",
        custom_properties={"custom_properties": {"x_a": [1, 2]}},
    )
    assert obj["custom_properties"] == {"x_a": [1, 2]}
    before = obj.serialize()
    dup = copy.deepcopy(obj)
    assert obj.serialize() == before
    assert dup == obj, (dict(obj), dict(dup))
    assert dup.serialize() == before, (before, dup.serialize())
