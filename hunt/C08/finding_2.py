import os, sys; sys.path.insert(0, os.getcwd())
# C08: a selector naming a property that is ABSENT from the document, but for which
# the class has a default (revoked / defanged / summary ...), is accepted at parse
# time and by the marking functions; the library then serializes a document whose
# selector addresses nothing.
import json, stix2
from stix2 import markings

M = "marking-definition--613f2e26-407d-48c7-9eca-b8e91df99dc9"
TS = "2020-01-01T00:00:00.000Z"
doc = {
    "type": "identity", "spec_version": "2.1",
    "id": "identity--00000000-0000-4000-8000-000000000001",
    "created": TS, "modified": TS, "name": "x",
    "granular_markings": [{"marking_ref": M, "selectors": ["revoked"]}],
}
assert "revoked" not in doc

def addressed(tree, selector):
    cur = tree
    for step in selector.split("."):
        if step.startswith("["):
            i = int(step[1:-1])
            if not isinstance(cur, list) or i >= len(cur):
                return False
            cur = cur[i]
        else:
            if not isinstance(cur, dict) or step not in cur:
                return False
            cur = cur[step]
    return True

try:
    obj = stix2.parse(json.dumps(doc))
except stix2.exceptions.InvalidSelectorError:
    print("ok (rejected)")
    sys.exit(0)

out = json.loads(obj.serialize())
for gm in out["granular_markings"]:
    for s in gm["selectors"]:
        assert addressed(out, s), "selector %r accepted although the document has no such property; emitted document: %s" % (s, json.dumps(out))
print("ok")
