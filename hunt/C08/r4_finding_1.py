import os, sys; sys.path.insert(0, os.getcwd())
# C08: a selector that addresses an existing nested key must be accepted at
# parse time / construction; one that addresses nothing must be rejected.
# HashesProperty.clean() renames hash keys ('md5' -> 'MD5', 'sha256' ->
# 'SHA-256') before the selectors are validated.
import stix2
from stix2.exceptions import InvalidSelectorError

M = "marking-definition--613f2e26-407d-48c7-9eca-b8e91df99dc9"
T = "2020-01-01T00:00:00.000Z"


def doc(selector=None):
    d = {
        "type": "identity", "spec_version": "2.1",
        "id": "identity--311b2d2d-f010-4473-83ec-1edf84858f4c",
        "created": T, "modified": T, "name": "x",
        "external_references": [{
            "source_name": "s", "description": "d",
            "hashes": {"md5": "4472ea40dc71e5bb701574ea215a81a1"},
        }],
    }
    if selector:
        d["granular_markings"] = [{"marking_ref": M, "selectors": [selector]}]
    return d


# the document is acceptable as such (no allow_custom needed)
stix2.parse(doc())

# the document has the nested key external_references[0].hashes['md5'] ...
existing = "external_references.[0].hashes.md5"
assert "md5" in doc()["external_references"][0]["hashes"]
# ... and has no key 'MD5'
absent = "external_references.[0].hashes.MD5"
assert "MD5" not in doc()["external_references"][0]["hashes"]

problems = []
try:
    stix2.parse(doc(existing))
except InvalidSelectorError as e:
    problems.append("selector %r addresses an existing nested key of the parsed document but is rejected: %s" % (existing, e))

try:
    stix2.parse(doc(absent))
    problems.append("selector %r addresses nothing in the parsed document but is accepted" % absent)
except InvalidSelectorError:
    pass

# same through the constructor of a 2.1 SCO
h = "6db12788c37247f2316052e142f42f4b259d6561751e5f401a1ae2a6df9c674b"
try:
    stix2.v21.File(hashes={"sha256": h}, granular_markings=[{"marking_ref": M, "selectors": ["hashes.sha256"]}])
except InvalidSelectorError as e:
    problems.append("File(hashes={'sha256':..}) with selector 'hashes.sha256' rejected: %s" % e)

assert not problems, "\n".join(problems)
print("ok")
