import os, sys; sys.path.insert(0, os.getcwd())
# C08: a top-level property that the library accepts on the object, but whose name is
# shorter than 3 characters or contains an upper-case letter, can never be addressed:
# SELECTOR_REGEX refuses the selector although the property exists.
import json, stix2
from stix2 import markings

M = "marking-definition--613f2e26-407d-48c7-9eca-b8e91df99dc9"
TS = "2020-01-01T00:00:00.000Z"
for name in ("ab", "x_Foo"):
    doc = {
        "type": "identity", "spec_version": "2.1",
        "id": "identity--00000000-0000-4000-8000-000000000001",
        "created": TS, "modified": TS, "name": "x", name: 1,
    }
    obj = stix2.parse(json.dumps(doc), allow_custom=True)   # object itself is accepted
    assert name in obj and obj[name] == 1
    markings.is_marked(obj, selectors=[name])               # accepted here ...
    markings.add_markings(obj, M, [name])                   # ... but not here
    stix2.parse(json.dumps(dict(doc, granular_markings=[{"marking_ref": M, "selectors": [name]}])), allow_custom=True)
print("ok")
