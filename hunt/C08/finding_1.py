import os, sys; sys.path.insert(0, os.getcwd())
# C08: a selector addressing an existing element of a list nested directly inside
# another list is rejected (iterpath never descends list -> list).
import json, stix2
from stix2 import markings
from stix2.exceptions import InvalidSelectorError

M = "marking-definition--613f2e26-407d-48c7-9eca-b8e91df99dc9"
EXT = "extension-definition--00000000-0000-4000-8000-000000000001"
TS = "2020-01-01T00:00:00.000Z"
doc = {
    "type": "identity", "spec_version": "2.1",
    "id": "identity--00000000-0000-4000-8000-000000000001",
    "created": TS, "modified": TS, "name": "x",
    # plain STIX 2.1 property-extension (unregistered), no allow_custom needed
    "extensions": {EXT: {"extension_type": "property-extension", "matrix": [[1, 2], [3, 4]]}},
}
obj = stix2.parse(json.dumps(doc))
assert obj["extensions"][EXT]["matrix"][0][1] == 2      # the element exists

good = "extensions.%s.matrix.[0].[1]" % EXT
bad = "extensions.%s.matrix.[0].[2]" % EXT

# near miss must be rejected (this part holds)
try:
    markings.add_markings(obj, M, [bad])
    raise AssertionError("index past the end accepted")
except InvalidSelectorError:
    pass

# existing nested-list element must be accepted by the marking functions ...
markings.is_marked(obj, selectors=[good])
marked = markings.add_markings(obj, M, [good])
# ... and at parse time
doc2 = dict(doc, granular_markings=[{"marking_ref": M, "selectors": [good]}])
stix2.parse(json.dumps(doc2))
print("ok")
