import os, sys; sys.path.insert(0, os.getcwd())
import stix2
from stix2 import markings

TLP = "marking-definition--34098fce-860f-48ae-8e50-ebd3cc5e41da"
# custom top-level property (legal name) whose dictionary value has a key
# outside [a-zA-Z0-9_-]; the object is accepted with allow_custom=True
obj = stix2.v21.Identity(name="n", identity_class="individual", x_foo={"a b": 1, "café": 2, "a+b": 3}, allow_custom=True)
for sel in ["x_foo.a b", "x_foo.café", "x_foo.a+b"]:
    # the path exists -> the selector must be accepted by the marking function ...
    marked = markings.add_markings(obj, TLP, [sel])
    assert markings.is_marked(marked, TLP, [sel])
    # ... and at parse time
    d = dict(obj)
    d["granular_markings"] = [{"marking_ref": TLP, "selectors": [sel]}]
    stix2.parse(d, allow_custom=True, version="2.1")
print("ok")
