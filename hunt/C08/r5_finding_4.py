import os, sys; sys.path.insert(0, os.getcwd())
# A top-level property whose value is the empty list is silently dropped by the
# constructor before the selectors are checked, so a selector addressing that
# (existing) property is refused -- while {} , "" , 0 , false at the same place,
# and [] one level further down, are all fine.
import json
import stix2
from stix2.exceptions import InvalidSelectorError

M = "marking-definition--613f2e26-407d-48c7-9eca-b8e91df99dc9"
TS = "2020-01-01T00:00:00.000Z"


def accepted(value, selector="x_foo"):
    d = {
        "type": "identity", "spec_version": "2.1",
        "id": "identity--d7f3e25a-ba1c-447a-ab71-6434b092b05e",
        "created": TS, "modified": TS, "name": "x",
        "x_foo": value,
        "granular_markings": [{"marking_ref": M, "selectors": [selector]}],
    }
    try:
        stix2.parse(json.dumps(d), allow_custom=True)
        return True
    except InvalidSelectorError:
        return False


for v in ({}, "", 0, False, [0]):
    assert accepted(v), v
assert accepted({"a": []}, "x_foo.a")

assert accepted([]), "selector 'x_foo' refused although the document has \"x_foo\": []"
