import os, sys; sys.path.insert(0, os.getcwd())
# C08: the elements of a list-valued custom property given as a Python tuple cannot be
# addressed, although the object is accepted and serializes the value as a JSON array
# (and the very same selector IS accepted once the serialized object is parsed back).
import json, stix2
from stix2 import markings

M = "marking-definition--613f2e26-407d-48c7-9eca-b8e91df99dc9"
obj = stix2.v21.Identity(name="x", x_vals=("a", "b"), allow_custom=True)
assert json.loads(obj.serialize())["x_vals"] == ["a", "b"]
assert obj["x_vals"][1] == "b"

# after a round trip the selector is fine ...
rt = stix2.parse(obj.serialize(), allow_custom=True)
markings.add_markings(rt, M, ["x_vals.[1]"])
# ... so it has to be fine on the original object, too
markings.add_markings(obj, M, ["x_vals.[1]"])
stix2.v21.Identity(name="x", x_vals=("a", "b"), allow_custom=True,
                   granular_markings=[{"marking_ref": M, "selectors": ["x_vals.[1]"]}])
print("ok")
