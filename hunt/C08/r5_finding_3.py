import os, sys; sys.path.insert(0, os.getcwd())
# parse(allow_custom=True) of an object whose type is not registered hands the
# content back as a plain dict and never looks at its granular_markings: a
# selector that addresses nothing is accepted at parse time, although every
# marking function refuses the very same selector on the very same result.
import json
import stix2
from stix2 import markings
from stix2.exceptions import InvalidSelectorError

M = "marking-definition--613f2e26-407d-48c7-9eca-b8e91df99dc9"
TS = "2020-01-01T00:00:00.000Z"
doc = {
    "type": "x-unknown", "spec_version": "2.1",
    "id": "x-unknown--d7f3e25a-ba1c-447a-ab71-6434b092b05e",
    "created": TS, "modified": TS, "name": "x",
    "granular_markings": [{"marking_ref": M, "selectors": ["nonexistent"]}],
}
try:
    obj = stix2.parse(json.dumps(doc), allow_custom=True)
except InvalidSelectorError:
    sys.exit(0)     # rejected at parse time: property holds

# the marking functions agree that the selector addresses nothing
try:
    markings.is_marked(obj, selectors=["nonexistent"])
    refused_by_function = False
except InvalidSelectorError:
    refused_by_function = True
assert refused_by_function

raise AssertionError(
    "parse accepted an object carrying granular-marking selector 'nonexistent', which addresses nothing"
)
