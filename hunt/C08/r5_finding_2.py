import os, sys; sys.path.insert(0, os.getcwd())
# An observed-data whose 'objects' holds an observable of an unregistered
# (custom) type: parse_observable() leaves its private '_valid_refs' bookkeeping
# key inside the returned dict, so selectors addressing 'objects.0._valid_refs...'
# -- which address nothing in the document -- are accepted at parse time.
import json
import stix2
from stix2.exceptions import InvalidSelectorError

M = "marking-definition--613f2e26-407d-48c7-9eca-b8e91df99dc9"
TS = "2020-01-01T00:00:00.000Z"

for version in ("2.0", "2.1"):
    for sel in ("objects.0._valid_refs", "objects.0._valid_refs.0"):
        d = {
            "type": "observed-data",
            "id": "observed-data--d7f3e25a-ba1c-447a-ab71-6434b092b05e",
            "created": TS, "modified": TS,
            "first_observed": TS, "last_observed": TS, "number_observed": 1,
            "objects": {"0": {"type": "x-custom", "foo": 1}},
            "granular_markings": [{"marking_ref": M, "selectors": [sel]}],
        }
        if version == "2.1":
            d["spec_version"] = "2.1"
        # sanity: another absent key below the same observable is refused
        d_bad = json.loads(json.dumps(d))
        d_bad["granular_markings"][0]["selectors"] = ["objects.0.nothing_here"]
        try:
            stix2.parse(json.dumps(d_bad), allow_custom=True, version=version)
            raise AssertionError("sanity: objects.0.nothing_here accepted")
        except InvalidSelectorError:
            pass

        try:
            stix2.parse(json.dumps(d), allow_custom=True, version=version)
        except InvalidSelectorError:
            continue   # property holds
        raise AssertionError(
            "%s: selector %r accepted although the document has nothing there" % (version, sel)
        )
