import os, sys; sys.path.insert(0, os.getcwd())
# C08: every marking function accepts a selector exactly when it addresses an
# existing property / list element of the object.  'granular_markings.[1]'
# addresses the second element of the object's granular_markings list;
# is_marked/get_markings/clear-validation accept it, add_markings rejects it
# with InvalidSelectorError (the selector is validated against the given
# object, then re-validated -- at construction of the new version -- against
# an object whose granular_markings list was compressed to one element).
import stix2
from stix2 import markings
from stix2.exceptions import InvalidSelectorError

M = "marking-definition--613f2e26-407d-48c7-9eca-b8e91df99dc9"
T = "2020-01-01T00:00:00.000Z"

obj = stix2.parse({
    "type": "identity", "spec_version": "2.1",
    "id": "identity--311b2d2d-f010-4473-83ec-1edf84858f4c",
    "created": T, "modified": T, "name": "x", "description": "d",
    "granular_markings": [
        {"marking_ref": M, "selectors": ["name"]},
        {"marking_ref": M, "selectors": ["description"]},
    ],
})

sel = "granular_markings.[1]"
assert len(obj["granular_markings"]) == 2          # the addressed list element exists
assert markings.is_marked(obj, selectors=[sel]) is False    # accepted (valid selector, not marked)
assert markings.get_markings(obj, selectors=[sel]) == []    # accepted

try:
    new = markings.add_markings(obj, M, [sel])
except InvalidSelectorError as e:
    raise AssertionError(
        "add_markings rejects selector %r although it addresses an existing "
        "list element of the object (is_marked/get_markings accept it): %s" % (sel, e)
    )
print("ok")
