import os, sys; sys.path.insert(0, os.getcwd())
# A selector whose nesting does not exist is accepted when a dictionary key
# happens to contain '.' (or looks like a list step '[0]'): the enumerated path
# is flattened with '.'.join() and compared as a string.
import json
import stix2
from stix2 import markings
from stix2.exceptions import InvalidSelectorError

M = "marking-definition--613f2e26-407d-48c7-9eca-b8e91df99dc9"
TS = "2020-01-01T00:00:00.000Z"


def doc(x_foo, selector):
    return json.dumps({
        "type": "identity", "spec_version": "2.1",
        "id": "identity--d7f3e25a-ba1c-447a-ab71-6434b092b05e",
        "created": TS, "modified": TS, "name": "x",
        "x_foo": x_foo,
        "granular_markings": [{"marking_ref": M, "selectors": [selector]}],
    })


def accepted_at_parse(x_foo, selector):
    try:
        stix2.parse(doc(x_foo, selector), allow_custom=True)
        return True
    except InvalidSelectorError:
        return False


# sanity: the same selectors are refused when the nesting is merely different
assert not accepted_at_parse({"a": {"c": 1}}, "x_foo.a.b")
assert not accepted_at_parse({"a": 1}, "x_foo.[0]")

problems = []
# x_foo has ONE key, named "a.b"; there is no x_foo -> a -> b nesting
if accepted_at_parse({"a.b": 1}, "x_foo.a.b"):
    problems.append("parse accepts 'x_foo.a.b' although x_foo has no key 'a' (only a key 'a.b')")
# x_foo is a dictionary, not a list; '[0]' is list-index syntax
if accepted_at_parse({"[0]": 1}, "x_foo.[0]"):
    problems.append("parse accepts 'x_foo.[0]' although x_foo is not a list")

obj = stix2.parse(json.dumps({
    "type": "identity", "spec_version": "2.1",
    "id": "identity--d7f3e25a-ba1c-447a-ab71-6434b092b05e",
    "created": TS, "modified": TS, "name": "x", "x_foo": {"a.b": 1},
}), allow_custom=True)
try:
    markings.add_markings(obj, M, ["x_foo.a.b"])
    problems.append("add_markings accepts 'x_foo.a.b' (wrong nesting)")
except InvalidSelectorError:
    pass

assert not problems, problems
