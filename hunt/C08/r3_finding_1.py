import os, sys; sys.path.insert(0, os.getcwd())
# C08: a selector must be accepted at construction exactly when it addresses an
# existing property of the object.  A @CustomObject declared with
# extension_name=... ALWAYS carries an 'extensions' property (it is put into
# the object by _CustomObject.__init__), yet the constructor refuses the
# selector 'extensions' because the granular-marking check runs before the
# property is added; every marking function accepts the same selector on the
# same object, and the result parses back fine.
import stix2
from stix2 import markings
from stix2.exceptions import InvalidSelectorError

M = "marking-definition--613f2e26-407d-48c7-9eca-b8e91df99dc9"
EXT = 'extension-definition--a932fcc6-e032-476c-826f-cb970a5a1ade'


@stix2.v21.CustomObject(
    'x-c08-foo', [('name', stix2.properties.StringProperty(required=True))],
    extension_name=EXT,
)
class Foo:
    pass


plain = Foo(name='a')
# the object always has the property, whatever the caller passed
assert 'extensions' in plain and EXT in plain['extensions']

# every marking function accepts the selector (it addresses something) ...
assert markings.is_marked(plain, selectors=['extensions']) is False
marked = markings.add_markings(plain, M, ['extensions', 'extensions.' + EXT])
assert marked.is_marked(M, ['extensions'])
# ... and the marked object round-trips through parse
assert stix2.parse(marked.serialize()).is_marked(M, ['extensions'])

# so construction must accept it as well
try:
    built = Foo(
        name='a',
        granular_markings=[{'marking_ref': M, 'selectors': ['extensions']}],
    )
except InvalidSelectorError as e:
    raise AssertionError(
        "constructor rejected selector 'extensions' although every instance "
        "of the class has that property: %s" % e,
    )
assert built.is_marked(M, ['extensions'])
print("ok")
