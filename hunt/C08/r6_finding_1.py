import os, sys; sys.path.insert(0, os.getcwd())
# C08 on the clean tree: a selector that addresses an existing property is not
# accepted (TypeError escapes) when a custom dictionary that sorts before it has
# a non-string key.  The object itself is accepted and serialised by the library
# ({"x_foo": {"1": "a"}, ...}).
import stix2
from stix2 import markings

M = "marking-definition--613f2e26-407d-48c7-9eca-b8e91df99dc9"

obj = stix2.v21.Identity(name="n", x_foo={1: "a"}, x_zzz=1, allow_custom=True)
assert '"x_zzz": 1' in obj.serialize()

# every marking function / the constructor must accept "x_zzz": it addresses an
# existing top-level property
problems = []
for label, call in [
    ("is_marked", lambda: markings.is_marked(obj, M, ["x_zzz"])),
    ("get_markings", lambda: markings.get_markings(obj, ["x_zzz"])),
    ("add_markings", lambda: markings.add_markings(obj, M, ["x_zzz"])),
    ("constructor", lambda: stix2.v21.Identity(
        name="n", x_foo={1: "a"}, x_zzz=1, allow_custom=True,
        granular_markings=[{"marking_ref": M, "selectors": ["x_zzz"]}],
    )),
]:
    try:
        call()
    except Exception as e:
        problems.append("%s: %s: %s" % (label, type(e).__name__, e))

assert not problems, "valid selector 'x_zzz' not accepted:\n  " + "\n  ".join(problems)
