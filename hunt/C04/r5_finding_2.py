import os, sys; sys.path.insert(0, os.getcwd())
# C04, first clause: with customization disallowed, no object containing a
# property its type does not define can be parsed, at any nesting depth
# (top level, bundle members, observed-data members).
#
# The key '_valid_refs' happens to be the name of a constructor-internal option
# of the cyber observable classes: _Observable.__init__ pops it from the
# keyword arguments before the extra-property check (and parse_observable
# overwrites it), so in a strict parse it vanishes silently, with whatever
# value -- while any other undefined key (control: 'x_valid_refs') is refused.
import stix2

U = '11111111-2222-4333-8444-555555555555'
inputs = {
    'sco 2.1, _valid_refs': {
        'type': 'file', 'spec_version': '2.1', 'id': 'file--' + U, 'name': 'x',
        '_valid_refs': {'anything': ['goes', 1]},
    },
    'observed-data 2.0 member, _valid_refs': {
        'type': 'observed-data', 'id': 'observed-data--' + U,
        'created': '2020-01-01T00:00:00.000Z', 'modified': '2020-01-01T00:00:00.000Z',
        'first_observed': '2020-01-01T00:00:00Z', 'last_observed': '2020-01-01T00:00:00Z',
        'number_observed': 1,
        'objects': {'0': {'type': 'file', 'name': 'x', '_valid_refs': {'anything': 'goes'}}},
    },
    'bundle member 2.1, _valid_refs': {
        'type': 'bundle', 'id': 'bundle--' + U,
        'objects': [{
            'type': 'ipv4-addr', 'spec_version': '2.1', 'id': 'ipv4-addr--' + U,
            'value': '1.2.3.4', '_valid_refs': 5,
        }],
    },
}

# control: any other undefined key is refused
for name, d in inputs.items():
    import copy, json
    ctl = json.loads(json.dumps(d).replace('_valid_refs', 'x_valid_refs'))
    try:
        stix2.parse(ctl, allow_custom=False)
    except Exception:
        pass
    else:
        raise SystemExit('control not refused?! ' + name)

accepted = []
for name, d in inputs.items():
    try:
        stix2.parse(d, allow_custom=False)
    except Exception as e:
        print(name, '-> refused:', type(e).__name__)
    else:
        print(name, '-> ACCEPTED by strict parse')
        accepted.append(name)

assert not accepted, "strict parse accepted content with an undefined property: %s" % accepted
