import os, sys; sys.path.insert(0, os.getcwd())
# C04, first clause: with customization disallowed, no object containing an
# unregistered extension type can be constructed or parsed.
# STIX 2.0 has no extension definitions (stix2/parsing.py and stix2/base.py say
# so themselves), so an "extension-definition--<uuid>" key in the extensions of
# a 2.0 observable is just an unregistered extension.  ExtensionsProperty.clean
# nevertheless lets it through, unchecked, for spec_version 2.0.
import stix2
from stix2 import v20

KEY = "extension-definition--9c59fd79-4215-4ba2-920d-3e4f320e1e62"
assert stix2.registry.class_for_type(KEY, "2.0", "extensions") is None  # not registered

admitted = []
try:
    f = v20.File(name="x", extensions={KEY: {"whatever": 1}})   # allow_custom=False
    admitted.append("constructor: " + f.serialize())
except Exception as e:
    print("constructor refused:", type(e).__name__)

od = {
    "type": "observed-data", "id": "observed-data--00000000-0000-4000-8000-000000000001",
    "created": "2020-01-01T00:00:00.000Z", "modified": "2020-01-01T00:00:00.000Z",
    "first_observed": "2020-01-01T00:00:00Z", "last_observed": "2020-01-01T00:00:00Z",
    "number_observed": 1,
    "objects": {"0": {"type": "file", "name": "x", "extensions": {KEY: {"whatever": 1}}}},
}
try:
    o = stix2.parse(od, allow_custom=False)
    admitted.append("parse (observed-data member): has_custom=%s" % o.has_custom)
except Exception as e:
    print("parse refused:", type(e).__name__)

# control: any other unregistered 2.0 extension name is refused
try:
    v20.File(name="x", extensions={"x-unregistered-ext": {"whatever": 1}})
    raise SystemExit("control failed")
except Exception:
    pass

for a in admitted:
    print("VIOLATION unregistered 2.0 extension admitted with allow_custom=False --", a)
assert not admitted
print("property holds")
