import os, sys; sys.path.insert(0, os.getcwd())
# C04, second clause: with customization allowed, has_custom must be False
# exactly when a strict parse of the serialization is accepted.
#
# ReferenceProperty.clean() turns a whitelist with generic categories
# (valid_types containing "SDO"/"SCO"/"SRO") into a blacklist of the
# complementary categories as soon as allow_custom=True.  Registered,
# spec-defined types which belong to no category at all (marking-definition,
# bundle, language-content) then pass the type check, and because they are
# registered they are not counted as custom either.  The object reports
# has_custom == False although a strict parse of its serialization is refused.
import uuid
import stix2
from stix2 import v20, v21

U = lambda: str(uuid.uuid4())


def strict_ok(obj):
    try:
        stix2.parse(obj.serialize(), allow_custom=False)
        return True
    except Exception:
        return False


bad = []
cases = [
    ("v21.Sighting.sighting_of_ref -> marking-definition",
     lambda: v21.Sighting(sighting_of_ref='marking-definition--' + U(), allow_custom=True)),
    ("v21.Note.object_refs -> marking-definition",
     lambda: v21.Note(content='c', object_refs=['marking-definition--' + U()], allow_custom=True)),
    ("v21.Report.object_refs -> bundle",
     lambda: v21.Report(name='n', published='2020-01-01T00:00:00Z', object_refs=['bundle--' + U()], allow_custom=True)),
    ("v21.LanguageContent.object_ref -> language-content",
     lambda: v21.LanguageContent(object_ref='language-content--' + U(), contents={'de': {'name': 'x'}}, allow_custom=True)),
    ("parse(sighting dict, allow_custom=True)",
     lambda: stix2.parse({
         'type': 'sighting', 'spec_version': '2.1', 'id': 'sighting--' + U(),
         'created': '2020-01-01T00:00:00.000Z', 'modified': '2020-01-01T00:00:00.000Z',
         'sighting_of_ref': 'marking-definition--' + U(),
     }, allow_custom=True)),
]
for label, make in cases:
    obj = make()
    ok = strict_ok(obj)
    print("%-55s has_custom=%s strict-reparse-accepted=%s" % (label, obj.has_custom, ok))
    if obj.has_custom == ok:
        bad.append(label)

assert not bad, "has_custom does not agree with the strict re-parse for: %s" % bad
