import os, sys; sys.path.insert(0, os.getcwd())
"""
C04, clean tree: with customization DISALLOWED, an embedded object / bundle whose
type has no 'extensions' property at all (ExternalReference, KillChainPhase,
GranularMarking, StatementMarking, NTFSExt, WindowsPESection, v21.Bundle, ...)
accepts arbitrary undefined properties as soon as the same dict also carries an
(equally undefined) 'extensions' key whose value claims an unregistered
'toplevel-property-extension'.  _STIXBase.__init__ looks at kwargs['extensions']
without asking whether the type defines 'extensions'.
"""
import json
import stix2
from stix2 import v21

CLAIM = {'whatever': {'extension_type': 'toplevel-property-extension'}}
ID = 'a932fcc6-e032-476c-826f-cb970a5a1ade'
T = '2020-01-01T00:00:00.000Z'

violations = []


def must_refuse(label, f):
    try:
        o = f()
    except Exception:
        return
    violations.append('%s: admitted with allow_custom=False, has_custom=%r: %s' % (label, o.has_custom, o.serialize()))


# sanity: without the claim the custom property is refused
try:
    v21.Identity(name='x', external_references=[dict(source_name='a', url='u', foo='bar')])
    raise SystemExit('sanity failed')
except stix2.exceptions.STIXError:
    pass

must_refuse(
    'external reference (constructor)',
    lambda: v21.Identity(name='x', external_references=[dict(source_name='a', url='u', foo='bar', extensions=CLAIM)]),
)
must_refuse(
    'external reference (strict parse)',
    lambda: stix2.parse(json.dumps({
        'type': 'identity', 'spec_version': '2.1', 'id': 'identity--' + ID, 'created': T, 'modified': T, 'name': 'x',
        'external_references': [dict(source_name='a', url='u', foo='bar', extensions=CLAIM)],
    }), allow_custom=False),
)
must_refuse(
    'kill chain phase',
    lambda: v21.AttackPattern(name='x', kill_chain_phases=[dict(kill_chain_name='k', phase_name='p', foo='bar', extensions=CLAIM)]),
)
must_refuse(
    'predefined extension (ntfs-ext) of a file',
    lambda: v21.File(name='x', extensions={'ntfs-ext': dict(sid='s', foo='bar', extensions=CLAIM)}),
)
must_refuse(
    'statement marking payload',
    lambda: v21.MarkingDefinition(definition_type='statement', definition=dict(statement='s', foo='bar', extensions=CLAIM)),
)
must_refuse(
    'bundle top level (strict parse)',
    lambda: stix2.parse({
        'type': 'bundle', 'id': 'bundle--' + ID, 'foo': 'bar', 'extensions': CLAIM,
        'objects': [{'type': 'identity', 'spec_version': '2.1', 'id': 'identity--' + ID, 'created': T, 'modified': T, 'name': 'x'}],
    }, allow_custom=False),
)
must_refuse(
    'bundle member -> external reference (strict parse)',
    lambda: stix2.parse({
        'type': 'bundle', 'id': 'bundle--' + ID,
        'objects': [{
            'type': 'identity', 'spec_version': '2.1', 'id': 'identity--' + ID, 'created': T, 'modified': T, 'name': 'x',
            'external_references': [dict(source_name='a', url='u', foo='bar', extensions=CLAIM)],
        }],
    }, allow_custom=False),
)

for v in violations:
    print('VIOLATION', v)
assert not violations, '%d violations' % len(violations)
print('ok')
