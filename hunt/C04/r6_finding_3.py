import os, sys; sys.path.insert(0, os.getcwd())
# C04: with customization allowed, has_custom must be True exactly when a strict
# parse of the serialization is refused.
# _STIXBase.__init__ looks for toplevel-property-extensions only in the
# "extensions" *keyword*; when the extensions dictionary arrives through
# custom_properties (it ends up in the object all the same), the properties the
# extension defines are counted as custom properties: the flag is raised, but
# the serialization is a perfectly ordinary extended object and a strict parse
# accepts it.
import stix2
from stix2 import v21
from stix2.properties import IntegerProperty

EXT = "extension-definition--00000000-0000-4000-8000-0000000000c4"

@v21.CustomExtension(EXT, [("rank", IntegerProperty(required=True))])
class RankExt:
    extension_type = "toplevel-property-extension"

ext_value = {EXT: {"extension_type": "toplevel-property-extension"}}

# reference: the same content given the usual way is not custom
ref = v21.Identity(name="a", rank=5, extensions=ext_value, allow_custom=True)
assert ref.has_custom is False

obj = v21.Identity(name="a", rank=5, allow_custom=True,
                   custom_properties={"extensions": ext_value})
s = obj.serialize()
try:
    stix2.parse(s, allow_custom=False)
    strict_ok = True
except Exception:
    strict_ok = False
print("has_custom =", obj.has_custom, " strict parse accepted =", strict_ok)
print(s)
assert obj.has_custom != strict_ok, \
    "flag is %s although a strict parse of the serialization %s" % (
        obj.has_custom, "succeeds" if strict_ok else "is refused")
print("property holds")
