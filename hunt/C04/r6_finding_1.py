import os, sys; sys.path.insert(0, os.getcwd())
# C04: with customization allowed, has_custom must be True exactly when a strict
# parse of the serialization is refused.
# A STIX 2.0 object given a custom property that happens to be the 2.1 version
# marker ("spec_version": "2.1") -- or a 2.0 SCO given a custom "id" -- is
# flagged as customized, yet its serialization is accepted by a strict parse
# (parse() re-detects the version from the custom property and builds a 2.1
# object in which that property is spec-defined).
import stix2
from stix2 import v20

failures = []

def check(label, obj):
    assert obj.has_custom is True, label
    try:
        stix2.parse(obj.serialize(), allow_custom=False)
        strict_ok = True
    except Exception:
        strict_ok = False
    if strict_ok == obj.has_custom:
        failures.append("%s: has_custom=%s but strict parse accepted=%s: %s" % (
            label, obj.has_custom, strict_ok, obj.serialize()))

check("2.0 identity + custom spec_version", v20.Identity(
    name="a", identity_class="individual", spec_version="2.1", allow_custom=True))
check("2.0 file SCO + custom id", v20.File(
    name="x", id="file--00000000-0000-4000-8000-000000000002", allow_custom=True))

for f in failures:
    print("VIOLATION", f)
assert not failures, "%d violation(s) of flag <=> strict-parse-refused" % len(failures)
print("property holds")
