import os, sys; sys.path.insert(0, os.getcwd())
# C04 clause 2: has_custom must be True exactly when the strict re-parse is refused.
# A *registered* toplevel-property-extension whose instance is passed as a dict that
# omits the (optional, fixed-value) 'extension_type' key: the constructor's scan does
# not recognise the toplevel properties, calls them custom (has_custom=True), but the
# cleaned extension serializes *with* extension_type, so a strict parse of the
# serialization sees ordinary extension properties and accepts.
import stix2
from stix2 import v21
from stix2.properties import IntegerProperty

EXT = "extension-definition--c932fcc6-e032-476c-826f-cb970a5a1ade"


@v21.CustomExtension(EXT, [("toxicity", IntegerProperty())])
class ToxicityExt:
    extension_type = "toplevel-property-extension"


o = v21.Identity(name="x", toxicity=5, extensions={EXT: {}}, allow_custom=True)
try:
    again = stix2.parse(o.serialize(), allow_custom=False)
    strict_ok = True
except Exception:
    strict_ok = False
print("has_custom =", o.has_custom, " strict re-parse accepted =", strict_ok)
print(o.serialize())
assert o.has_custom != strict_ok, "flag and strict re-parse disagree"
