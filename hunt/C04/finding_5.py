import os, sys; sys.path.insert(0, os.getcwd())
# C04 clause 1: with customization disallowed, content holding a property the
# specification does not define must be refused at any nesting depth.
# Embedded dictionaries are splatted into the constructor (cls(allow_custom=..., **value));
# keys that happen to be constructor options -- 'interoperability' (not passed explicitly by
# EmbeddedObjectProperty.clean and MarkingDefinition.__init__) and '_valid_refs' (popped by
# _Observable.__init__) -- are silently consumed instead of being detected as extra
# properties, so the strict parse succeeds.
import stix2

U = "a932fcc6-e032-476c-826f-cb970a5a1ade"
cases = {
    "x509 embedded x509_v3_extensions": {
        "type": "x509-certificate", "spec_version": "2.1", "id": "x509-certificate--" + U,
        "serial_number": "1",
        "x509_v3_extensions": {"basic_constraints": "a", "interoperability": True},
    },
    "marking definition": {
        "type": "marking-definition", "spec_version": "2.1", "id": "marking-definition--" + U,
        "created": "2020-01-01T00:00:00.000Z", "definition_type": "statement",
        "definition": {"statement": "s", "interoperability": True},
    },
    "sco _valid_refs": {
        "type": "file", "spec_version": "2.1", "id": "file--" + U, "name": "x",
        "_valid_refs": ["a"],
    },
    "observed-data member embedded": {
        "type": "observed-data", "id": "observed-data--" + U,
        "created": "2020-01-01T00:00:00.000Z", "modified": "2020-01-01T00:00:00.000Z",
        "first_observed": "2020-01-01T00:00:00Z", "last_observed": "2020-01-01T00:00:00Z",
        "number_observed": 1,
        "objects": {"0": {
            "type": "windows-registry-key", "key": "k",
            "values": [{"name": "n", "interoperability": 1}],
        }},
    },
}
admitted = []
for label, d in cases.items():
    try:
        stix2.parse(d, allow_custom=False)
        admitted.append(label)
    except Exception:
        pass
for a in admitted:
    print("strict parse accepted content with an undefined property:", a)
assert not admitted
