import os, sys; sys.path.insert(0, os.getcwd())
# C04, second clause: with customization allowed, has_custom must be true
# exactly when a strict parse of the serialization is refused.
#
# An extra top-level property next to an UNREGISTERED toplevel-property-extension
# is (by design) not custom content when given as keyword argument -- but the
# very same content is flagged custom when it is given through the
# custom_properties channel: the flag depends on the input channel, not on the
# content, and disagrees with the strict re-parse.
import json
import stix2
from stix2 import v21

EXT = 'extension-definition--11111111-2222-4333-8444-555555555555'
common = dict(
    id='identity--21111111-2222-4333-8444-555555555555',
    created='2020-01-01T00:00:00.000Z', modified='2020-01-01T00:00:00.000Z',
    name='x',
    extensions={EXT: {'extension_type': 'toplevel-property-extension'}},
)


def strict_accepts(serialization):
    try:
        stix2.parse(serialization, allow_custom=False)
        return True
    except Exception:
        return False


a = v21.Identity(foo='bar', allow_custom=True, **common)
b = v21.Identity(custom_properties={'foo': 'bar'}, **common)
c = v21.Identity(custom_properties={'foo': 'bar'}, allow_custom=True, **common)

# identical content ...
assert json.loads(a.serialize()) == json.loads(b.serialize()) == json.loads(c.serialize())

for name, o in (('keyword', a), ('custom_properties', b), ('custom_properties+allow_custom', c)):
    acc = strict_accepts(o.serialize())
    print(name, 'has_custom =', o.has_custom, '; strict re-parse accepts =', acc)

for name, o in (('keyword', a), ('custom_properties', b), ('custom_properties+allow_custom', c)):
    acc = strict_accepts(o.serialize())
    assert o.has_custom == (not acc), (
        "%s: has_custom=%r but strict parse of the serialization %s"
        % (name, o.has_custom, 'accepts' if acc else 'refuses')
    )
