import os, sys; sys.path.insert(0, os.getcwd())
# C04, second clause: has_custom must be True exactly when a strict parse of
# the serialization is refused.
#
# A property defined by a REGISTERED toplevel-property-extension is not custom
# content.  When its value is handed over through the documented
# custom_properties= argument, _STIXBase.__init__ computes
#     all_custom_prop_names = (custom_kwargs | custom_props.keys()) - self._properties.keys()
# i.e. it does not take the registered toplevel extension properties out, so
# the object reports has_custom == True -- while its serialization (identical
# to the one obtained by passing the property as a plain keyword) is accepted
# by a strict parse.
import uuid
import stix2
from stix2 import v21
from stix2.properties import IntegerProperty

EID = 'extension-definition--' + str(uuid.uuid4())


@v21.CustomExtension(EID, [('toxicity', IntegerProperty())])
class ToxicityExt:
    extension_type = 'toplevel-property-extension'


EXT = {EID: {'extension_type': 'toplevel-property-extension'}}
ID = 'identity--' + str(uuid.uuid4())
TS = '2020-01-01T00:00:00.000Z'

plain = v21.Identity(id=ID, created=TS, modified=TS, name='x', toxicity=5, extensions=EXT, allow_custom=True)
via_cp = v21.Identity(id=ID, created=TS, modified=TS, name='x', custom_properties={'toxicity': 5}, extensions=EXT, allow_custom=True)

assert plain.serialize() == via_cp.serialize(), "sanity: same content"


def strict_ok(obj):
    try:
        stix2.parse(obj.serialize(), allow_custom=False)
        return True
    except Exception as e:
        print("strict parse refused:", e)
        return False


for label, obj in (('plain keyword', plain), ('custom_properties', via_cp)):
    ok = strict_ok(obj)
    print("%-18s has_custom=%s strict-reparse-accepted=%s" % (label, obj.has_custom, ok))
    assert obj.has_custom != ok, \
        "%s: has_custom=%s but strict re-parse accepted=%s" % (label, obj.has_custom, ok)
