import os, sys; sys.path.insert(0, os.getcwd())
# C04 clause 1: with customization disallowed no object containing a custom property
# may be constructed or parsed, at any nesting depth.
# _STIXBase.__init__ stops looking for extra properties as soon as kwargs['extensions']
# contains an unregistered entry that says "toplevel-property-extension" -- even for
# classes that have no 'extensions' property at all (all STIX 2.0 SDOs, embedded types
# such as ExternalReference / KillChainPhase, Bundle ...).  There 'extensions' is itself
# just an unknown property, it is never cleaned, and every other unknown property rides
# along.
import stix2
from stix2 import v20, v21

EXT = "extension-definition--a932fcc6-e032-476c-826f-cb970a5a1ade"
claim = {EXT: {"extension_type": "toplevel-property-extension"}}
admitted = []

assert "extensions" not in v20.Identity._properties
assert "extensions" not in v21.ExternalReference._properties

# (a) STIX 2.0 SDO (2.0 has no extension mechanism for SDOs), constructor
try:
    o = v20.Identity(name="x", identity_class="individual", foo="bar", extensions=claim)
    admitted.append(("v20.Identity(...) constructor", o.has_custom, o.serialize()))
except Exception as e:
    pass

# (b) same through a strict parse
try:
    o = stix2.parse({
        "type": "identity", "id": "identity--a932fcc6-e032-476c-826f-cb970a5a1ade",
        "created": "2020-01-01T00:00:00.000Z", "modified": "2020-01-01T00:00:00.000Z",
        "name": "x", "identity_class": "individual",
        "foo": "bar", "extensions": claim,
    }, allow_custom=False)
    admitted.append(("parse(2.0 identity)", o.has_custom, o.serialize()))
except Exception as e:
    pass

# (c) embedded object of a 2.1 SDO, strict parse
try:
    o = stix2.parse({
        "type": "identity", "spec_version": "2.1",
        "id": "identity--a932fcc6-e032-476c-826f-cb970a5a1ade",
        "created": "2020-01-01T00:00:00.000Z", "modified": "2020-01-01T00:00:00.000Z",
        "name": "x",
        "external_references": [{
            "source_name": "a", "url": "u",
            "foo": "bar", "extensions": claim,
        }],
    }, allow_custom=False)
    admitted.append(("parse(2.1 identity with embedded external reference)", o.has_custom, o.serialize()))
except Exception as e:
    pass

# (d) bundle
try:
    o = v21.Bundle(foo="bar", extensions=claim)
    admitted.append(("v21.Bundle(...) constructor", o.has_custom, o.serialize()))
except Exception as e:
    pass

for a in admitted:
    print("admitted with allow_custom=False: %s has_custom=%s %s" % a)
assert not admitted, "custom properties admitted although customization is disallowed"
