import os, sys; sys.path.insert(0, os.getcwd())
# C04 clause 1: with customization disallowed no object of an unregistered object type
# may be parsed.  dict_to_stix2() has an escape hatch for objects whose extension
# "defines a new object" (extension_type new-sdo/new-sco/new-sro), but the test is
# "'property-extension' not in ext_def.get('extension_type', '')", so it also opens when
# extension_type is absent or is not an extension type at all, and the key only has to
# start with 'extension-definition--' (no id validation).
import stix2

U = "a932fcc6-e032-476c-826f-cb970a5a1ade"
admitted = []
for ext in ({}, {"extension_type": "banana"}, {"some": "thing"}):
    for key in ("extension-definition--" + U, "extension-definition--garbage"):
        d = {
            "type": "foo-bar", "spec_version": "2.1", "id": "foo-bar--" + U,
            "anything": 1, "extensions": {key: ext},
        }
        try:
            stix2.parse(d, allow_custom=False)
            admitted.append((key, ext))
        except Exception:
            pass
for a in admitted:
    print("strict parse admitted unregistered type 'foo-bar' with extensions {%r: %r}" % a)
assert not admitted, "unregistered object type parsed with allow_custom=False"
