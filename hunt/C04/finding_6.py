import os, sys; sys.path.insert(0, os.getcwd())
# C04, "stores" part of the quantification: a sink/store created with allow_custom=False
# must not admit custom content.  It refuses it when handed a dict/JSON string (it parses
# strictly) but admits the very same content when handed the python object, so the
# disallowing store ends up holding custom content (and FileSystemStore cannot read its own
# file back).
import json, tempfile
import stix2
from stix2 import v21

o = v21.Identity(name="x", x_foo="bar", allow_custom=True)
assert o.has_custom
as_dict = json.loads(o.serialize())

problems = []

d = tempfile.mkdtemp()
fs = stix2.FileSystemStore(d, allow_custom=False)
try:
    fs.add(dict(as_dict, id="identity--a932fcc6-e032-476c-826f-cb970a5a1ade"))
    problems.append("FileSystemStore(allow_custom=False).add(dict) admitted custom content")
except Exception:
    pass  # refused, as it should be
try:
    fs.add(o)
    problems.append("FileSystemStore(allow_custom=False).add(object) admitted custom content")
except Exception:
    pass

ms = stix2.MemoryStore(allow_custom=False)
try:
    ms.add(dict(as_dict))
    problems.append("MemoryStore(allow_custom=False).add(dict) admitted custom content")
except Exception:
    pass
try:
    ms.add(o)
    if ms.get(o.id) is not None and ms.get(o.id).has_custom:
        problems.append("MemoryStore(allow_custom=False).add(object) admitted custom content")
except Exception:
    pass

for p in problems:
    print(p)
assert not problems
