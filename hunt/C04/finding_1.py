import os, sys; sys.path.insert(0, os.getcwd())
# C04 clause 2: with customization allowed, has_custom must be True exactly when a
# strict parse of the serialization is refused.
# A custom property whose value is None / [] is counted as custom content, but it is
# never stored or serialized, so the flag is True while the strict re-parse succeeds.
import stix2
from stix2 import v21, v20


def strict_ok(obj):
    try:
        stix2.parse(obj.serialize(), allow_custom=False)
        return True
    except Exception:
        return False


objs = [
    v21.Identity(name="x", x_foo=None, allow_custom=True),
    v21.Identity(name="x", x_foo=[], allow_custom=True),
    v21.Identity(name="x", custom_properties={"x_foo": None}),
    v20.Identity(name="x", identity_class="individual", x_foo=None, allow_custom=True),
    # nested: the embedded object carries the phantom custom property
    v21.Identity(
        name="x", allow_custom=True,
        external_references=[{"source_name": "s", "url": "u", "x_foo": None}],
    ),
    stix2.parse(
        '{"type": "identity", "spec_version": "2.1", "name": "x", '
        '"id": "identity--a932fcc6-e032-476c-826f-cb970a5a1ade", '
        '"created": "2020-01-01T00:00:00.000Z", "modified": "2020-01-01T00:00:00.000Z", '
        '"x_foo": null}', allow_custom=True,
    ),
]
bad = []
for o in objs:
    ok = strict_ok(o)
    if o.has_custom == ok:
        bad.append((o.serialize(), o.has_custom, ok))
for b in bad:
    print("has_custom=%s but strict re-parse accepted=%s: %s" % (b[1], b[2], b[0]))
assert not bad, "%d objects whose has_custom flag disagrees with the strict re-parse" % len(bad)
