import os, sys; sys.path.insert(0, os.getcwd())
# C04, first clause: with customization disallowed no object with an
# unregistered extension type may be constructed or parsed, at any depth.
#
# STIX 2.0 has no extension definitions (stix2/base.py says so itself and
# refuses the toplevel-property-extension loophole for 2.0 classes); the only
# extensions a strict 2.0 observable may carry are the registered ones.  Yet
# ExtensionsProperty(spec_version='2.0').clean() lets any key of the form
# 'extension-definition--<uuid4>' through with allow_custom=False, keeps its
# arbitrary, uncleaned value, and reports no custom content.
import uuid
import stix2
from stix2 import v20

key = 'extension-definition--' + str(uuid.uuid4())
assert stix2.registry.class_for_type(key, '2.0', 'extensions') is None  # not registered

problems = []

try:
    f = v20.File(name='x', extensions={key: {'anything': {'goes': [1, 2, 3]}}})  # allow_custom=False
    problems.append("v20.File constructed strictly with unregistered extension: %s (has_custom=%s)" % (f.serialize(), f.has_custom))
except Exception as e:
    print("constructor refused:", e)

od = {
    'type': 'observed-data', 'id': 'observed-data--' + str(uuid.uuid4()),
    'created': '2020-01-01T00:00:00.000Z', 'modified': '2020-01-01T00:00:00.000Z',
    'first_observed': '2020-01-01T00:00:00Z', 'last_observed': '2020-01-01T00:00:00Z',
    'number_observed': 1,
    'objects': {'0': {'type': 'file', 'name': 'x', 'extensions': {key: {'anything': 'goes'}}}},
}
for label, data in (
    ('observed-data', od),
    ('bundle', {'type': 'bundle', 'id': 'bundle--' + str(uuid.uuid4()), 'spec_version': '2.0', 'objects': [od]}),
):
    try:
        o = stix2.parse(data, allow_custom=False)
        problems.append("strict parse accepted 2.0 %s with unregistered extension in a member (has_custom=%s)" % (label, o.has_custom))
    except Exception as e:
        print("strict parse of %s refused: %s" % (label, e))

# for comparison: any other unregistered 2.0 extension is (rightly) refused
try:
    v20.File(name='x', extensions={'x-foo-ext': {'anything': 'goes'}})
    problems.append("x-foo-ext accepted")
except Exception:
    pass

for p in problems:
    print("VIOLATION:", p)
assert not problems
