"""Single source for MANIFEST.json (tools/gen_manifest.py renders it)."""

NOTES = ("Static analysis only: every check parses /repo's current working tree and decides structural clauses that are "
         "necessary conditions of the property (see DESIGN.md); value-level behaviour is stated as not decided in each "
         "level_note. Exit 0 = all rule instances hold (KNOWN-FINDING lines for recorded genuine defects), 1 = VIOLATION, "
         "2 = ANALYSIS-ERROR (checker could not analyse; fail closed). No check imports or runs stix2.")

_TB = ("Trusted: CPython ast (and re._parser where regexes are analysed); Python binding/MRO/comparison semantics as encoded in "
       "sa/; the frozen oracles under spec/. ")


def _c(category, text, ref, note, technique):
    return {"category": category, "text": text, "design_ref": ref, "note": _TB + note, "technique": technique}


CHECKS = {
    "C01": _c("other",
              "Decides structural necessary conditions of the lossless round trip on every registered type: registry key == class "
              "_type for all 105 entries; detect_spec_version's branch structure interpreted symbolically over the serialised key "
              "set (always/optional keys from the tables) of all 77 registered object/observable types; the two JSON encoders are "
              "siblings and selected/forwarded correctly; the three conjuncts of the defaulted-optional bookkeeping; slot order "
              "and timestamp (precision, constraint) of every table equal the specification model.",
              "DESIGN.md section 5, C01",
              "Does NOT decide value/byte equality of parse(serialize(x)) for all representable values, nor nested key ordering in "
              "pretty output (runtime values; simplejson is third party).",
              "table extraction + symbolic interpretation of the version detector + sibling comparison (ast)"),
    "C02": _c("other",
              "Every one of the 1382 property-table slots (+ decorator tables) is compared attribute by attribute with the frozen "
              "specification model (kind, required, fixed, default, min/max, closed vocabularies, reference types, spec_version, "
              "contained class, precision); all 35 _check_object_constraints summaries with the constraint model; must-pass-through "
              "of the validation pipeline in _STIXBase.__init__ and of every super() chain; guard tables of the cleaners; identifier "
              "rule; end-anchoring / alphabets / digest lengths of every value regex (re._parser); TLP constants.",
              "DESIGN.md section 5, C02",
              "Does NOT decide that each clean() computes the right value for every input (int()/float()/strptime/uuid/base64 "
              "semantics) nor free-text formats the library does not model.",
              "abstract evaluation of declarative tables vs frozen spec model; CFG must-pass-through; regex structure analysis"),
    "C03": _c("other",
              "Acceptance direction of the same table comparison (no slot stricter than the specification model), arity agreement "
              "between the clean() dispatchers and every clean definition for every property kind occurring in a table, resolvable "
              "reference type names, class dispatch of bundle / observed-data members on all paths, API calls with a domain narrower "
              "than the specification (strptime %f), selector acceptance (shared with C08).",
              "DESIGN.md section 5, C03",
              "Does NOT decide that re-serialisation reproduces every input value (timestamps as instants, numbers). One recorded "
              "known finding (more than 6 fractional digits are refused; the suite pins that behaviour).",
              "table comparison + call-arity/binding check over resolved call sites + CFG must-pass-through"),
    "C04": _c("other",
              "Capability flow of allow_custom: every call site whose callee accepts the switch is classified by the def-use "
              "provenance of the bound value (forwarded / weakened / hard-coded True / omitted with permissive default); no function "
              "upgrades its switch; has_custom flows back in the seven container cleaners and the constructor with the strict-mode "
              "CustomContentError on every CFG path between flag computation and return; privileged constructor keywords "
              "(derived from the code) are neutralised at every Cls(**data) splat of input-derived data; raw dictionaries are "
              "handed back only under allow_custom.",
              "DESIGN.md section 5, C04",
              "Does NOT decide the equivalence 'flag false <=> strict re-parse succeeds' for all objects (relates two executions).",
              "interprocedural capability/provenance analysis over resolved call sites + CFG path checks"),
    "C07": _c("other",
              "Dispatch table of the six marking API functions and mixin membership; parameter-forwarding completeness at every "
              "delegate call (def-use); one normalised match predicate shared by granular get_markings/is_marked; path-tree idiom "
              "for ancestor/descendant tests; return shape of all mutators (new_version / sibling / untouched obj), no store into "
              "the object; validate-first; set = clear then add; expand->compress normal form before new_version.",
              "DESIGN.md section 5, C07",
              "Does NOT decide the algebraic laws (idempotence, inverse, commutation) over operation sequences.",
              "forwarding/provenance analysis + normalised sibling comparison + CFG must-pass-through"),
    "C08": _c("other",
              "The value yielded by the selector walk is never used in a boolean context in the validation call tree; list steps are "
              "positional; validate() runs in the base constraint method, every override reaches it (super chain over all 34 "
              "overrides) and every granular marking function validates before use; step formats agree with SELECTOR_REGEX; "
              "unmatched/empty selectors raise.",
              "DESIGN.md section 5, C08",
              "Does NOT decide the walk on exotic mapping types; correctness on all objects follows from the shape only.",
              "taint of the yielded value + provenance of list-step text + CFG must-pass-through"),
    "C14": _c("other",
              "For all exactly resolved call sites: an argument named like a callee parameter (version, allow_custom, "
              "interoperability, _composite_filters, encoding, pretty, ...) is bound to that parameter; every value bound to an "
              "`interoperability` parameter derives only from the caller's own switch; `version` is forwarded along the 23 anchored "
              "call edges of memory.py/filesystem.py/parsing.py/properties.py down to parse(); the detector runs only without a "
              "named version.",
              "DESIGN.md section 5, C14",
              "Does NOT decide the class returned for every dictionary. CHA/unresolved call sites are listed in evidence, not judged.",
              "argument-binding check over the resolved call graph + def-use provenance"),
    "C20": _c("proof",
              "The ten conversion functions are finite decision tables over one argument; they are extracted syntactically and "
              "the 25 obligations (5 scales x total / refuses-outside / monotone / round-trip / equals STIX 2.1 Appendix A) are "
              "discharged by exact interval algebra over the integers. Decides the whole property for int arguments.",
              "DESIGN.md section 5, C20",
              "Functions outside the supported syntactic class give ANALYSIS-ERROR, not a pass.",
              "decision-table extraction from if/elif chains + exact interval algebra (static)"),
}

_PENDING = "check under construction in this session (static rules designed in DESIGN.md section 5; not yet registered)"
NOT_APPLICABLE = {("C%02d" % i): _PENDING for i in range(1, 21) if ("C%02d" % i) not in CHECKS}
