"""Single source for MANIFEST.json (tools/gen_manifest.py renders it)."""

NOTES = ("Static analysis only: every check parses /repo's current working tree and decides structural clauses that are "
         "necessary conditions of the property (see DESIGN.md); value-level behaviour is stated as not decided in each "
         "level_note. Exit 0 = all rule instances hold (KNOWN-FINDING lines for recorded genuine defects), 1 = VIOLATION, "
         "2 = ANALYSIS-ERROR (checker could not analyse; fail closed). No check imports or runs stix2.")

_TB = ("Trusted: CPython ast (and re._parser where regexes are analysed); Python binding/MRO/comparison semantics as encoded in "
       "sa/; the frozen oracles under spec/. ")


def _c(category, text, ref, note, technique):
    return {"category": category, "text": text, "design_ref": ref, "note": _TB + note, "technique": technique}


CHECKS = {
    "C01": _c("other",
              "Decides structural necessary conditions of the lossless round trip on every registered type: registry key == class "
              "_type for all 105 entries; detect_spec_version's branch structure interpreted symbolically over the serialised key "
              "set (always/optional keys from the tables) of all 77 registered object/observable types; the two JSON encoders are "
              "siblings and selected/forwarded correctly; the three conjuncts of the defaulted-optional bookkeeping; slot order "
              "and timestamp (precision, constraint) of every table equal the specification model.",
              "DESIGN.md section 5, C01",
              "Does NOT decide value/byte equality of parse(serialize(x)) for all representable values, nor nested key ordering in "
              "pretty output (runtime values; simplejson is third party).",
              "table extraction + symbolic interpretation of the version detector + sibling comparison (ast)"),
    "C02": _c("other",
              "Every one of the 1382 property-table slots (+ decorator tables) is compared attribute by attribute with the frozen "
              "specification model (kind, required, fixed, default, min/max, closed vocabularies, reference types, spec_version, "
              "contained class, precision); all 35 _check_object_constraints summaries with the constraint model; must-pass-through "
              "of the validation pipeline in _STIXBase.__init__ and of every super() chain; guard tables of the cleaners; identifier "
              "rule; end-anchoring / alphabets / digest lengths of every value regex (re._parser); TLP constants.",
              "DESIGN.md section 5, C02",
              "Does NOT decide that each clean() computes the right value for every input (int()/float()/strptime/uuid/base64 "
              "semantics) nor free-text formats the library does not model.",
              "abstract evaluation of declarative tables vs frozen spec model; CFG must-pass-through; regex structure analysis"),
    "C03": _c("other",
              "Acceptance direction of the same table comparison (no slot stricter than the specification model), arity agreement "
              "between the clean() dispatchers and every clean definition for every property kind occurring in a table, resolvable "
              "reference type names, class dispatch of bundle / observed-data members on all paths, API calls with a domain narrower "
              "than the specification (strptime %f), selector acceptance (shared with C08).",
              "DESIGN.md section 5, C03",
              "Does NOT decide that re-serialisation reproduces every input value (timestamps as instants, numbers). One recorded "
              "known finding (more than 6 fractional digits are refused; the suite pins that behaviour).",
              "table comparison + call-arity/binding check over resolved call sites + CFG must-pass-through"),
    "C04": _c("other",
              "Capability flow of allow_custom: every call site whose callee accepts the switch is classified by the def-use "
              "provenance of the bound value (forwarded / weakened / hard-coded True / omitted with permissive default); no function "
              "upgrades its switch; has_custom flows back in the seven container cleaners and the constructor with the strict-mode "
              "CustomContentError on every CFG path between flag computation and return; privileged constructor keywords "
              "(derived from the code) are neutralised at every Cls(**data) splat of input-derived data; raw dictionaries are "
              "handed back only under allow_custom.",
              "DESIGN.md section 5, C04",
              "Does NOT decide the equivalence 'flag false <=> strict re-parse succeeds' for all objects (relates two executions).",
              "interprocedural capability/provenance analysis over resolved call sites + CFG path checks"),
    "C07": _c("other",
              "Dispatch table of the six marking API functions and mixin membership; parameter-forwarding completeness at every "
              "delegate call (def-use); one normalised match predicate shared by granular get_markings/is_marked; path-tree idiom "
              "for ancestor/descendant tests; return shape of all mutators (new_version / sibling / untouched obj), no store into "
              "the object; validate-first; set = clear then add; expand->compress normal form before new_version.",
              "DESIGN.md section 5, C07",
              "Does NOT decide the algebraic laws (idempotence, inverse, commutation) over operation sequences.",
              "forwarding/provenance analysis + normalised sibling comparison + CFG must-pass-through"),
    "C08": _c("other",
              "The value yielded by the selector walk is never used in a boolean context in the validation call tree; list steps are "
              "positional; validate() runs in the base constraint method, every override reaches it (super chain over all 34 "
              "overrides) and every granular marking function validates before use; step formats agree with SELECTOR_REGEX; "
              "unmatched/empty selectors raise.",
              "DESIGN.md section 5, C08",
              "Does NOT decide the walk on exotic mapping types; correctness on all objects follows from the shape only.",
              "taint of the yielded value + provenance of list-step text + CFG must-pass-through"),
    "C14": _c("other",
              "For all exactly resolved call sites: an argument named like a callee parameter (version, allow_custom, "
              "interoperability, _composite_filters, encoding, pretty, ...) is bound to that parameter; every value bound to an "
              "`interoperability` parameter derives only from the caller's own switch; `version` is forwarded along the 23 anchored "
              "call edges of memory.py/filesystem.py/parsing.py/properties.py down to parse(); the detector runs only without a "
              "named version.",
              "DESIGN.md section 5, C14",
              "Does NOT decide the class returned for every dictionary. CHA/unresolved call sites are listed in evidence, not judged.",
              "argument-binding check over the resolved call graph + def-use provenance"),
    "C20": _c("proof",
              "The ten conversion functions are finite decision tables over one argument; they are extracted syntactically and "
              "the 25 obligations (5 scales x total / refuses-outside / monotone / round-trip / equals STIX 2.1 Appendix A) are "
              "discharged by exact interval algebra over the integers. Decides the whole property for int arguments.",
              "DESIGN.md section 5, C20",
              "Functions outside the supported syntactic class give ANALYSIS-ERROR, not a pass.",
              "decision-table extraction from if/elif chains + exact interval algebra (static)"),
}


CHECKS.update({
    "C05": _c("other",
              "CFG must-pass-through and dominance order of the stages of new_version() (versionable check, revoked refusal, deep "
              "copy before update, unmodifiable refusal, supplied-modified compare vs clock+fudge, None filtering) and of revoke(); "
              "evaluated unmodifiable set and the UUIDv5 SCO lock; agreement of the fudge step of _fudge_modified (1 microsecond for "
              "2.1, 1 ms for 2.0, comparison strictness) with the `modified` precision of all 39 versionable tables; strictness and "
              "direction of the caller-supplied comparison; who-may-call of the wall clock in versioning.py.",
              "DESIGN.md section 5, C05",
              "Does NOT decide arithmetic over all clock readings / chains of versions, nor that exactly the requested changes are "
              "applied by the class constructor.",
              "CFG must-pass-through + dominance + table<->code agreement"),
    "C06": _c("other",
              "Set equality of the 18 identifier-contributing property lists with STIX 2.1 section 6 (names must be slots), the "
              "namespace UUID and the hash-priority decision chain (names as HashesProperty normalises them), wiring of the "
              "generation under `id not given` after the base constructor, name-independent shape of _generate_id (only keys "
              "present, hashes through the chooser, canonicalize -> uuid5(namespace) -> type--uuid, None when empty), and an effect "
              "scan of the call graph rooted at _generate_id for non-deterministic calls / set iteration.",
              "DESIGN.md section 5, C06",
              "Does NOT decide the exact hashed bytes for every value class (C16 decides the canonicaliser's shape) nor collision "
              "freedom.",
              "table/constant comparison + provenance of the id expression + call-graph effect scan"),
    "C09": _c("other",
              "Totality and symmetry preconditions of the equivalence test: producers (class names the visitor instantiates, "
              "operator strings) are included in every dispatch table / isinstance chain of their category (109 instances); string "
              "operations on comparison constants are dominated by a string-constant test; all 16 comparators are antisymmetric "
              "(symbolic execution with both argument orders over every consistent truth assignment of their atomic conditions); "
              "sub-sequence shape of both normalisation pipelines; both entry points use the same normaliser / comparator / == 0.",
              "DESIGN.md section 5, C09",
              "Does NOT decide soundness w.r.t. the STIX matching semantics nor transitivity (needs a semantic model of patterns).",
              "producers-subset-handlers over extracted tables + symbolic mirror check of comparators"),
    "C10": _c("other",
              "The visitor overrides every rule method of the generated grammar visitor (v20 and v21 grammar read from the installed "
              "stix2patterns package); for the 7 rules whose context can carry NOT the `negated` argument derives from the parse-tree "
              "children and the operator is read after the optional NOT; operator strings are distinct grammar tokens; every "
              "constructor-parameter attribute of the 37 model classes is printed by __str__ and assigned on every non-raising "
              "constructor path; escaping order; a path step is left bare only when a regex included in the grammar's identifier "
              "matches it.",
              "DESIGN.md section 5, C10",
              "Does NOT decide meaning preservation / print-parse fixed point for every pattern. One recorded known finding: the "
              "2.1 rule propTestExists has no visitor method / model class.",
              "grammar-oracle set comparison + provenance + CFG definite assignment + regex structure"),
    "C11": _c("other",
              "Necessary conditions only: the isfile() refusal is on every CFG path to the single write-mode open() of the filesystem "
              "sink and tests the opened path; who-may-open-for-writing per store module; version file name derived from `modified` "
              "through parse_into_datetime -> format_datetime with only separators stripped; the three newest-selection sites use a "
              "recognised max idiom; every version stored under its modified key unconditionally and all versions enumerated; "
              "save/load wiring.",
              "DESIGN.md section 5, C11",
              "Does NOT decide agreement with a list model over arbitrary add histories, input forms and timestamp spellings.",
              "CFG must-pass-through + who-may-call + idiom recognition"),
    "C12": _c("other",
              "Operator decision table of Filter._check_property vs FILTER_OPS and the documented semantics (python operator and "
              "operand order per operator), timestamp coercion structure, conjunction structure of apply_common_filters (CFG + flag "
              "idiom), decision table {(property, op) -> effect} of the filesystem search optimiser vs the sound table and that the "
              "complete query is re-applied to every file read, provenance of every value returned by get/all_versions/query of the "
              "memory and filesystem sources from apply_common_filters with both filter sets.",
              "DESIGN.md section 5, C12",
              "Does NOT decide equality with a naive evaluation for every object population (dotted paths, list matching values).",
              "decision-table extraction + CFG reachability + def-use provenance"),
    "C13": _c("other",
              "Interprocedural may-mutate effect analysis on a three-level alias/freshness lattice (object / elements / deeper; "
              "origins parameter / interior / fresh), flow-sensitive per CFG, summaries composed over exactly resolved callees: "
              "every argument parameter of 122 entry points (parse, all clean(), all _STIXBase __init__, versioning, markings, "
              "stores, factory, serialisers) has an empty mutation summary; the five defensive deep copies dominate every edit; "
              "_STIXBase is a read-only Mapping whose __setattr__ refuses public names on every path; who-may-write _inner.",
              "DESIGN.md section 5, C13",
              "Optimistic for unresolved / third-party / CHA-only calls (counted in evidence): a bug finder with explicit alias "
              "chains, not a proof of absence. Value identity of results is not decided.",
              "interprocedural effect (alias/mutation) analysis over CFG + call graph"),
    "C15": _c("other",
              "Symbolic run of format_datetime for every member of Precision x PrecisionConstraint with the fraction expression "
              "interpreted over an abstract string domain (set of lengths, trailing-zero freedom): ANY/SECOND-MIN 0..6 stripped, "
              "SECOND-EXACT none, MILLISECOND-EXACT exactly 3, MILLISECOND-MIN 3..6; dot iff fraction, suffix Z; truncation idioms "
              "(no rounding) in both directions; UTC conversion precedes every field read; four-digit year; strptime %f domain; "
              "TimestampProperty forwards both precision settings.",
              "DESIGN.md section 5, C15",
              "Does NOT decide the fixed point / monotonicity for every datetime (value arithmetic). One recorded known finding "
              "(shared with C03): more than 6 fractional digits are refused.",
              "abstract interpretation of the formatter over an abstract string domain + structural checks"),
    "C16": _c("other",
              "Sibling comparison of the value-class tables of the three encoder functions (bool before int, every numeric branch "
              "through convert2Es6Format), UTF-16BE member sort key and canonical constructor arguments on the canonicalize() path, "
              "static evaluation of ESCAPE_DCT (literal + setdefault loop) and of the ESCAPE character class against RFC 8785, the "
              "constants of convert2Es6Format (zero, non-finite refusal dominating all formatting, exponent windows [1,20] and "
              "[-6,-1] by interval algebra, exponent zero removal, '.0' removal).",
              "DESIGN.md section 5, C16",
              "Trusts CPython float repr (shortest round-trip digits) and the C string encoder; does NOT decide digit strings for "
              "every double.",
              "sibling table comparison + static evaluation of tables/regex + interval algebra"),
    "C17": _c("other",
              "Shape analysis (sa/kinds.py) of all pre-clean zones — parse, dict_to_stix2, parse_observable, detect_spec_version, "
              "_get_dict, every __init__ of a _STIXBase subclass, helpers reached with raw values: no attribute access / string-key "
              "subscript / integer index that can raise AttributeError/KeyError/IndexError on the possible shape outside a catching "
              "try; presence analysis of optional slots dereferenced in constraint methods and their helpers; structure of the "
              "exception wrapper and that every clean() is only reached through it; check-then-commit in registries and memory._add.",
              "DESIGN.md section 5, C17",
              "Does NOT decide termination / RecursionError on deeply nested input nor exceptions raised inside third-party "
              "packages (stix2patterns, simplejson).",
              "branch-refined shape (taint) dataflow over CFG, interprocedural into helpers + CFG dominance"),
    "C18": _c("other",
              "Every member call of CompositeDataSource.get/all_versions/query carries both filter sets (def-use provenance) and the "
              "caller's id/query and ranges over all members; de-duplication on every non-empty result path keyed on "
              "(id, modified-or-created); compare-and-replace idiom of the newest selection over all members; the 2x2 navigation "
              "table of relationships(); shape of related_to / creator_of; *args/**kwargs delegation of DataStoreMixin and wiring of "
              "Environment.",
              "DESIGN.md section 5, C18",
              "Does NOT decide equality with a scan for every partition of a population over members; TAXII sources are outside "
              "the anchored files.",
              "forwarding/provenance analysis + decision-table extraction + idiom recognition"),
    "C19": _c("other",
              "Per _register_* function: the registry expression tested and written is STIX2_OBJ_MAPS[version][<the category the "
              "parsers look up>], key tested == key written == cls._type, duplicate refusal and every validation dominate the write, "
              "no raise after it (check-then-commit), who-may-write the registries; decorators pass their package's version literal "
              "and base classes and builders register what they build; common-property parity of the decorator tables with "
              "built-in classes; structure of the type-name regexes and the 3..250 length rule.",
              "DESIGN.md section 5, C19",
              "Does NOT decide histories of registrations interleaved with parsing (process state).",
              "CFG dominance (check-then-commit) + evaluated decorator tables + regex structure"),
})

_PENDING = "check under construction in this session (static rules designed in DESIGN.md section 5; not yet registered)"
NOT_APPLICABLE = {("C%02d" % i): _PENDING for i in range(1, 21) if ("C%02d" % i) not in CHECKS}


# Rules added during the build (DESIGN.md section 11); appended to the level text of each check.
ADDED = {
    "C01": "Also: the timestamp truncation pipeline (every path of TimestampProperty.clean through parse_into_datetime with both "
           "precision arguments; truncation idioms) as a necessary condition of the round trip; the order in which the constructor "
           "fills the object; the serializer injects only layout options into the encoder.",
    "C02": "Also: LANGUAGE of the validation regexes included in the frozen reference grammars, decided over automata built from "
           "re._parser (type names 2.0/2.1, dictionary keys, hex, relaxed UUID); type part and UUID part of an identifier are cut at "
           "the same separator; the TLP colour is compared as stored.",
    "C03": "Also: the reference grammars are included in the language of each validation regex (automata); the path grammar of the "
           "selector walk is included in SELECTOR_REGEX and the walk descends into every Mapping; exactly None and [] mean 'not "
           "given'; the key->type map of an observed-data container is complete before the first member is parsed.",
    "C04": "Also: the custom-content flag is never reset once it may be set (reaching definitions); registry predicates are asked with "
           "the asking property's spec version; the new-object escape hatch of a strict parse is decided for the five extension types.",
    "C06": "Also: hash preference read from the if-chain or a loop over a constant sequence (a loop over the input is a violation); all "
           "structural clauses of the RFC 8785 form (C16) as necessary conditions of implementation-independent ids.",
    "C07": "Also: an API parameter omitted at a delegate call is a violation even with equal defaults; selectors are compared as whole "
           "strings (membership only in lists of selectors).",
    "C08": "Also: language inclusion (automata) of every producible path in SELECTOR_REGEX; descent into every Mapping (embedded "
           "objects, extensions); the walk leaves its loop only on a match; validate() tests every selector.",
    "C09": "Also: every rebuilt pattern node binds all constructor parameters (a copy cannot reset NOT); observation-level AND "
           "containment consumes matched operands (multiset semantics).",
    "C10": "Also: producer/consumer agreement grammar tokens -> visitTerminal classes -> qualifier constructors; FloatConstant never "
           "prints an exponent form; .property_name only under the isinstance test quoted steps need.",
    "C11": "Also: every id the sink can write is admitted by the regex that recognises id-named directories (automata).",
    "C12": "Also: the filter set evaluated per object is a private FilterSet(query) grown only by add().",
    "C14": "Also: at EVERY resolved call site where a spec version is in force (version parameter, self.spec_version, code and class "
           "bodies of the v20/v21 packages; 500 sites) the callee's version parameter is bound to it.",
    "C15": "Also: every path of TimestampProperty.clean passes the parser; the abstract fraction string tracks 'prefix of the "
           "microsecond digits' (left padding is a violation).",
    "C16": "Exponent windows are also read from chained comparisons.",
    "C17": "Also: attributes read from registry classes selected by input exist on every registrable class or are read with a default; "
           "calls from constraint code into input-parsing third-party packages sit in a converting try.",
    "C18": "Also: the filter set handed to member sources is a fresh FilterSet; a query never modifies self.filters.",
    "C19": "Also: exact language (automata, both inclusions) of the two type-name grammars.",
    "C20": "Functions rewritten with arithmetic on the value ((x + 5) // 10, str(step)) or as table lookups are read by a symbolic "
           "reader (terms floor((m*x+a)/b) inverted over intervals); on the comparison-chain form both readers run and must agree.",
}
for _p, _t in ADDED.items():
    CHECKS[_p]["text"] = CHECKS[_p]["text"] + " " + _t

# Round 2 (DESIGN.md sections 8 and 11): rules every property runs + property-specific clauses.
_HI = ("History independence: in the modules the property is anchored in, nothing but the three frozen owners (newest-version "
       "pointer of a memory family, the lazily built stateless pattern normaliser, registry initialisation) holds state between "
       "calls — a memoising decorator, a container or global written from a function, an instance attribute assigned outside the "
       "constructor or a mutated mutable default is reported with the construct that introduces it.")
ADDED2 = {
    "C01": "The constructor's loops have no early exit before the deciding call (CFG); the order-fixing iterable contains no "
           "set / dict view of the input; str.isdigit() never guards int() in the pretty sort key.",
    "C02": "Every return of ReferenceProperty.clean is dominated by the id validation and the type test; the constructor loops "
           "run to exhaustion; no validation regex has a nested unbounded repeat over overlapping alphabets.",
    "C03": "A constructor that names a property as a Python parameter hands it on only when given; presence of a dependent "
           "property is tested by membership, not by truthiness.",
    "C04": "The strict-parse escape hatch is also decided for an absent and an unknown extension type; the flag is seeded from the "
           "custom properties that are kept; a 2.1-only mechanism is consulted under a version test; the registry predicate "
           "asked matches the category of the asking site.",
    "C05": "No replace(tzinfo=...) on an aware value; STIXdatetime carries precision, constraint and fold through construction, "
           "copy and pickle; new_version never writes through the object it was given.",
    "C06": "An id is generated exactly when none was given; tuples are hashed like lists.",
    "C07": "Marking operations never answer with the object itself and never write through it; groupby is fed sorted data; no "
           "single-use iterator is consumed twice.",
    "C08": "Stated over all functions of the selector walk (discovered from the call graph): every list element is walked "
           "whatever it is, tuples like lists, every mapping, and only the type of a value guards a descent; every public "
           "granular entry point validates selectors through the same routine.",
    "C09": "Implication between comparison atoms only between constants of comparable types; a transformer's `changed` result "
           "accumulates over its children; special-value canonicalisation only under value operators (never MATCHES / LIKE).",
    "C10": "Float and hex literals are printed in the only forms the grammar has; an index step [0] is not lost to a truthiness "
           "test; keyword steps are quoted, quotes/backslashes escaped on printing and unescaped exactly once on parsing.",
    "C11": "The stores hand a named version on exactly as received; MemorySource.get answers the newest of the versions that "
           "pass the filters (as the filesystem source does); the filesystem optimiser prunes only on filters it understands.",
    "C12": "Directory / family scans have no early exit; every candidate reaches apply_common_filters with the full private "
           "filter set; an `in` filter with a string value is not pruned on; list-valued timestamp filters coerce every member.",
    "C13": "__setattr__ refuses every name that is a property of the object, underscore-named ones included.",
    "C14": "Detection by content happens only at the frozen detector sites and only when no version was named; a forwarded version "
           "is the parameter itself on every path; version-specific constants are consulted under a version test. One construct "
           "(bundle members ignore a named version) is a recorded known finding.",
    "C15": "STIXdatetime is a value object (precision, constraint, fold kept by copy/pickle); naive datetimes are read as UTC.",
    "C16": "Which C encoder is selected follows ensure_ascii=False at every canonicalisation call.",
    "C17": "Every recursive walk over input-shaped values outside the property wrapper converts RecursionError; a failed "
           "construction or registration writes to no registry table (composite decorators undo their first registration).",
    "C18": "Navigation through a composite ranges over the union of the members; a self-loop relationship is answered once; the "
           "de-duplication key is (id, stored version) untransformed and nothing is collapsed by id alone.",
    "C19": "No type-name regex backtracks super-linearly; a type name is registrable in one category only; a decorator that makes "
           "two registrations undoes the first when the second is refused.",
    "C20": "The label side of each scale is compared exactly.",
}
for _p in CHECKS:
    CHECKS[_p]["text"] = CHECKS[_p]["text"] + " " + ADDED2.get(_p, "") + " " + _HI

# Round 3 (DESIGN.md section 11, "Round 3").
ADDED3 = {
    "C01": "JSON decoder calls take no value-changing hook; nothing writes an object's property storage after construction.",
    "C02": "Co-constraints decided on presence; a marking definition is of the kind definition_type names; integer tests refuse bool.",
    "C03": "Range bounds are legal values; loop-accumulated flags are monotone; no floating point in the timestamp pipeline.",
    "C04": "Already-built elements are counted; explicit False is not 'absent'; property objects hold no state; every named "
           "constructor option is passed explicitly at every splat; the reference flag knows the whitelist; the two custom-name "
           "computations agree; 2.1-only mechanisms under a version test (one site: known finding pinned by the suite).",
    "C05": "The unmodifiable test covers every channel of change (custom_properties).",
    "C06": "The id is computed when every contributing property is in place (who may write the property storage).",
    "C07": "Removal is a filter over all entries; the selector walk stops only on a match.",
    "C08": "The guard of the construction-time selector validation holds for every class with the slot.",
    "C09": "Positions deleted in descending order; index and key path steps are disjoint raw values; chains extended through the "
           "constructor.",
    "C10": "Flattening keeps the operator; chains extended through the constructor; constructors do not update argument state in "
           "place; timestamp literals printed by the one writer.",
    "C11": "Read and write encodings originate in one store option; the newest-version key is the stored version itself; a failed "
           "write leaves no file.",
    "C12": "The optimiser uses the filter's value as given; attached filters reach every member (also through a helper); a path "
           "step into a plain value does not match.",
    "C13": "No constructor updates in place what it read from an argument.",
    "C14": "2.1-only mechanisms under a version test (one site: known finding pinned by the suite).",
    "C15": "Values are cut on the UTC instant; one writer / one reader of timestamp text; exact decimal arithmetic; the writer "
           "accepts what the encoders send.",
    "C16": "canonicalize() returns the encoder's text as produced.",
    "C17": "Attribute reads hidden in format templates; OverflowError converted; renderers of raw input guarded; a failed write "
           "leaves no file; composite registrations undone exactly.",
    "C18": "Members of a composite are read only inside it; pure version key.",
    "C19": "Undo covers only what the call registered; nothing can fail between the two registrations; the defining extension is "
           "added to the caller's; names admitted by the extension-definition prefix are identifiers (registration site: known "
           "finding pinned by the suite).",
}
for _p in CHECKS:
    CHECKS[_p]["text"] = CHECKS[_p]["text"] + " " + ADDED3.get(_p, "")


# Round 4 and the suite-passing mutant survey (DESIGN.md sections 8 and 11).
_GEN4 = ("Generic, in every anchored module: no loop body ends in an unconditional break / return; every read of a local variable is "
         "bound on every path (reaching definitions); containers on `self` are filled only by the frozen documented mutators; no "
         "default argument constructs a shared object.")
for _p in CHECKS:
    CHECKS[_p]["text"] = CHECKS[_p]["text"] + " " + _GEN4


# Survey 2, the last hunts, round 5 (DESIGN.md section 11, last table).
ADDED5 = {
    "C01": "Extras of an unregistered toplevel extension keep the given order; allow_custom travels with interoperability; "
           "include_optional_defaults reaches nested objects; the version detector tolerates what the writer omits.",
    "C02": "Base64 validity tests are strict; presence tests of string / number slots by membership; the strict refusal inside "
           "container cleaners and the selector syntax agreement run as necessary conditions.",
    "C03": "No raising co-constraint beyond the specification table; the encoder clauses of C01.",
    "C04": "The unregistered-extension escape needs an extension point; the switch read from **kwargs under its own name with a "
           "strict default; truth table of the reference flag; every value goes through its cleaner.",
    "C05": "Changes and a modified time given through custom_properties are applied and checked; the detected version is handed "
           "back along the whole chain; every versioned class has its version's marker base.",
    "C06": "Renamed-key stores of cleaning steps are collision-tested with exact value agreement; the contributing lists are never "
           "written (plain aliasing followed); the UTC clauses of C15.",
    "C07": "compress_markings keeps every (marking, selector) pair.",
    "C09": "The CIDR byte arithmetic tabulated over every (address size, prefix) by constant folding; containment helpers only "
           "between nodes of the same connective.",
    "C10": "Path text cut by a quote-aware tokeniser; every literal token of both grammars becomes a constant; string-only "
           "operators; strict base64; no ordering of printed constants.",
    "C11": "The memory query filters everything the store holds.",
    "C12": "Datetime filter values compared as instants; no answer outside the operator table; the memory query scans everything.",
    "C14": "Version tests recognised on the AST (a membership test of the string 'spec_version' is none); what is parsed under a "
           "named version is what is stored; every versioned class has its version's marker base.",
    "C15": "The midnight of a plain date is UTC; TimestampProperty parses the value as given.",
    "C16": "Circular-reference markers are released on every normal exit (pairing, with the correlated guard).",
    "C17": "Content keys read by the filesystem sink and file reader under presence tests; content values joined into a path are "
           "single file names; the registry is never indexed by a parameter.",
    "C18": "Members answer filtered and newest (clauses of C12 / C11); each source given to Environment() is attached on its own "
           "argument.",
    "C19": "Registration and constructor classify reference names alike (automata); the registered property table is a copy.",
    "C20": "assert is not behaviour; table lookups in returns; results keep their kind (5.0 is not a value of the scale).",
}
_GEN5 = "A container defined in a class body is mutated through self only after a dominating fresh instance copy."
for _p in CHECKS:
    CHECKS[_p]["text"] = (CHECKS[_p]["text"] + " " + ADDED5.get(_p, "")).strip() + " " + _GEN5

# round 6
ADDED6 = {
    "C01": "The position of a key is looked up in one sequence per container; the JSON decoder gets the caller's text, never a "
           "rewritten one (def-use provenance at all 10 decoding sites).",
    "C02": "An extensions key is looked up in the registry of its own category (clause of C19 as a necessary condition).",
    "C03": "Every hash sanity expression accepts the algorithm's whole value language (automata inclusion per table entry); "
           "selectors have one judge (who-may-raise InvalidSelectorError).",
    "C04": "Every slot the specification model gives a customisation-detecting kind (hashes, extensions, references, embedded "
           "objects, members) has that kind in the code.",
    "C05": "Every name given through custom_properties reaches the unmodifiable test unfiltered; a supplied modified time is "
           "truncated by its slot before it is compared; the allow_custom option key is written into new content only for library objects.",
    "C06": "Containers inside contributing values are hashed whole (every item, no condition); a failure of the id generator is "
           "an error, never a silent fall-back to a random id.",
    "C07": "The options marking_ref / lang each govern one kind of marking (truth table over the atoms of every mixed condition); "
           "a marking operation on a dictionary adds no key of its own.",
    "C08": "InvalidSelectorError is raised nowhere outside the selector walk.",
    "C09": "No qualifier is distributed over the operands of an expression unless REPEATS is excluded; float constants are finite.",
    "C10": "A parenthesised group always becomes the grouping node; a set literal keeps every member; parse-tree text is never "
           "escaped again in the visitor; float constants are finite.",
    "C11": "The versioned / unversioned layout of a type directory is read from the directory on every query.",
    "C12": "The same layout clause; '.' and '..' are no entry names for the type / id shortcut.",
    "C13": "Attributes that keep a caller's argument by reference (102 of them) are written by no method of the class family.",
    "C14": "A helper called where a version is in force does not ask the content for its version again.",
    "C15": "The one reader hands strptime the caller's text and keeps the instant it returns (no rewriting before, no arithmetic after).",
    "C17": "Raw content is stored by the filesystem sink only after parse() of the whole input; the memory family compares before "
           "it writes; the 35 constraint methods take no piece beyond the first of a split and call no object method on arbitrary "
           "extension members without a guard.",
    "C18": "related_to() asks about every related id (no shortcut in front of the per-id query); the newest answer of a composite is "
           "chosen by instants, never by formatted text.",
    "C19": "The parse entry points ask the content for its version only when none was named (clause of C14 as a necessary condition).",
    "C20": "Both readers follow exception-builder helpers of the module (a bare call of one raises nothing).",
}
_GEN6 = ("An option of a call (a parameter with a True / False default) is never rebound inside a loop; a class attribute is not "
         "assigned from a method through any alias of the class (self.__class__, type(self)).")
for _p in CHECKS:
    CHECKS[_p]["text"] = (CHECKS[_p]["text"] + " " + ADDED6.get(_p, "")).strip() + " " + _GEN6

# round 7
ADDED7 = {
    "C01": "A container member comes back as the parse() result (clause of C03).",
    "C06": "No value-changing decoder hook at any decoding site (clause of C01).",
    "C07": "The identifier helpers hand back the caller's spelling of a marking reference / language tag (provenance); "
           "object-level add builds a set.",
    "C10": "The equality operator is known by its token type, never by its text; the groups of the quoted path step reach the "
           "list component in order; the empty binary constant is refused.",
    "C12": "Non-string type / id filter values are exempt from directory pruning (exemption tests evaluated on sample filters).",
    "C16": "find() results in the number formatter are compared with 0 or -1 only.",
    "C17": "Constant positions of raw input stand under a length test; the decoder's RecursionError is converted.",
    "C18": "Every endpoint filter of relationships() names the object's id.",
}
for _p in CHECKS:
    CHECKS[_p]["text"] = (CHECKS[_p]["text"] + " " + ADDED7.get(_p, "")).strip()

# round 8 / survey 4
ADDED8 = {
    "C02": "The UUID part of an identifier is compared in its canonical text.",
    "C04": "A cleaner that refuses on .has_custom returns a flag deriving from it.",
    "C07": "get_markings and is_marked share their defaults in every layer.",
    "C08": "The selector walk has no depth bound.",
    "C09": "In the FOLLOWEDBY containment a match consumes its container element (cycle rule on the flow graph).",
    "C11": "Every member of a bundle / list given to add() is handed on unconditionally.",
    "C12": "Both lists of the directory matcher classify entries with the same stat call; the id-directory expression admits every stored id.",
    "C15": "A given datetime is not rebuilt from its fields; the time of day a date is combined with is all zero.",
    "C19": "A ready-made extension object is accepted only as an instance of the class registered for its key in that version.",
}
for _p in CHECKS:
    CHECKS[_p]["text"] = (CHECKS[_p]["text"] + " " + ADDED8.get(_p, "")).strip()
